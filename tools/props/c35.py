"""C35 — GDB remote-serial-protocol framing and acknowledgement are reliable (DESIGN §4 C35).

tie H: coq/Model/Rsp.v is a hand model of ppci/binutils/dbg/gdb/rsp.py (rsp_pack, rsp_unpack, the
`decoder` generator as a state machine, _process_byte/decodepkt, sendpkt + the one-slot ack queue as a
labelled transition system).  Props/C35.v states the theorems; this module
  * replays generated inputs / traces on the real RspHandler over a fake in-process transport
    (no sockets, no threads, no waiting) and compares with the model configuration `fixed`;
  * searches with an independent Python implementation of the RSP framing spec for concrete inputs
    on which the implementation violates the property.
"""
import hashlib
import importlib
import json
import os
import queue
import sys

from vlib import OkV, Diag, Internal, to_term

LEVEL = 'proof'
RULE = ('payloads over an alphabet with the special bytes # $ } * \' + - (and their escaped images 03 04 0a 5d), '
        'control bytes, letters, digits; payload pairs with equal checksum and checksums hitting special values; '
        'byte streams = frames (good / corrupted / truncated), acks, naks, junk, non-ASCII, randomly chunked; '
        'LTS traces = random interleavings of send / receive-byte / get / timeout / put-timeout labels. '
        'distinct non-trivial = distinct case whose implementation outcome is not "nothing happened" '
        '(a message delivered, a reply written, an ack queued, a retransmission or an exception)')
EXPLANATION = ('Coq theorems over Model.Rsp (29): framing round trip for every payload and every chunking, checksum NAK, '
               'NAK->retransmission, retry budget for every ack sequence and every schedule (also retries <= 0), receiver '
               'invariant + no-loss/no-duplication over all traces of the LTS (unbounded, by induction); second round: '
               'the receiver thread never dies on any byte stream (all byte values) under any schedule, stray acks are '
               'harmless, a delivered packet had two hex check digits, every packet-shaped string that is not a well-formed '
               'packet is NAKed, and the framing / no-loss theorems for arbitrary byte values. The model has one switch per '
               'repair; each positive theorem is stated for all configurations containing the repairs it needs, *_refuted '
               'theorems show on the configuration lacking exactly that repair that it is necessary. The first three '
               'repairs are in /repo; the four second-round repairs (fixes/C35-ack-queue-full, -stale-ack, -decoder-non-ascii, '
               '-checksum-digits .diff) are probed on the implementation on every run: the correspondence uses the model '
               'configuration the implementation actually has, and a missing repair is reported through its witness '
               '(KNOWN-FINDING while known_findings.json lists it as known, VIOLATION otherwise). What the code supports: '
               'the sender is ASCII-only by design (send() encodes "ascii"; client.py sends hex-encoded commands only, no '
               'X / vFile packets; a non-ASCII payload raises UnicodeEncodeError before anything is transmitted = outcome '
               'EncodeErr); the receiver is binary-transparent once the latin-1 repair is applied. Not modelled: OS thread '
               'scheduling (threads = interleavings of atomic LTS steps; the sender step "get, decide, send" is atomic), '
               'queue.Queue internals, real time (timeouts are nondeterministic labels), sockets / transport.send failures, '
               'on_message raising, run-length encoding of received packets (not implemented by ppci). Residual protocol '
               'limitation (not a code defect): acks carry no sequence number, so an ack that arrives after the '
               'transmission is attributed to it whatever the peer meant.')
TRUSTED = ['hand model coq/Model/Rsp.v == ppci/binutils/dbg/gdb/rsp.py (checked on every run by the correspondence: '
           'rsp_pack, rsp_unpack, per-byte receiver events, sendpkt vs ack sequences, LTS traces; the model configuration '
           'is selected by probing the four optional repairs with their witnesses)',
           'the replay harness: FakeTransport, queue.Queue subclasses installed as _ack_queue, '
           'single-threaded replay of interleavings at the blocking points (get / put)',
           'CPython: str.replace, int(s, 16) on two characters 0..255 (checked exhaustively per run), '
           'bytes.decode("ascii" / "latin-1"), f"{x:02X}"',
           'reading of the RSP spec in coq/Spec/RspSpec.v']
ASSUMPTIONS = ['first-round theorems: payloads and received bytes are ASCII (0..127); second-round (*_bytes, '
               'c35_receiver_never_dies): no restriction on byte values, given the latin-1 repair',
               'transport hands single bytes to on_byte (TCP.recv(1)); on_message is set and does not raise; transport.send '
               'does not raise',
               'atomicity of LTS steps (see EXPLANATION)']

SRC = 'ppci/binutils/dbg/gdb/rsp.py'
SPECIALS = [35, 36, 125, 42, 39, 43, 45, 3, 4, 10, 93]


# ------------------------------------------------------------------ implementation access
def load_impl():
    from vlib import ensure_repo_on_path
    ensure_repo_on_path()
    import ppci.binutils.dbg.gdb.rsp as rsp
    importlib.reload(rsp)
    import logging
    logging.getLogger('rsp-handler').setLevel(logging.CRITICAL)
    logging.getLogger('decoder').setLevel(logging.CRITICAL)
    return rsp


class FakeTransport:
    def __init__(self):
        self.out = bytearray()
        self.on_byte = None
        self.hook = None
        self.nsend = 0

    def send(self, data):
        self.out.extend(data)
        if self.hook:
            self.hook(bytes(data))


class NBQueue(queue.Queue):
    """queue.Queue whose blocking operations fail immediately instead of waiting 0.5 s"""

    def get(self, block=True, timeout=None):
        return super().get(block=False)

    def put(self, item, block=True, timeout=None):
        return super().put(item, block=False)


def s2l(s):
    return [ord(c) for c in s]


def l2s(l):
    return ''.join(chr(c) for c in l)


def impl_pack(rsp, payload):
    try:
        return OkV(s2l(rsp.RspHandler.rsp_pack(l2s(payload))))
    except Exception:   # noqa: BLE001
        return Internal


def impl_unpack(rsp, pkt):
    try:
        return OkV(s2l(rsp.RspHandler.rsp_unpack(l2s(pkt))))
    except ValueError:
        return Diag
    except Exception:   # noqa: BLE001
        return Internal


def impl_rx_events(rsp, stream):
    """one event code per byte, as Model.Rsp.rxev_code"""
    t = FakeTransport()
    h = rsp.RspHandler(t)
    delivered = []
    h.on_message = delivered.append
    h._ack_queue = NBQueue(maxsize=1)
    evs = []
    for b in stream:
        n_out, n_d = len(t.out), len(delivered)
        try:
            h._process_byte(bytes([b]))
        except Exception:   # noqa: BLE001
            evs.append([5])
            continue
        new_out = bytes(t.out[n_out:])
        if not h._ack_queue.empty():
            c = h._ack_queue.get()
            evs.append([1, ord(c)] if new_out == b'' and len(delivered) == n_d else [9, 1])
        elif len(delivered) > n_d:
            evs.append([2] + s2l(delivered[-1]) if new_out == b'+' and len(delivered) == n_d + 1 else [9, 2])
        elif new_out == b'-':
            evs.append([3])
        elif new_out == b'':
            evs.append([0])
        else:
            evs.append([9, 3] + list(new_out))
    return evs


class _ScriptEnd(Exception):
    pass


def impl_acks_run(rsp, retries, acks):
    """sendpkt('s') with the ack queue fed one scripted item per transmission; [outcome code, transmissions]"""
    t = FakeTransport()
    h = rsp.RspHandler(t)
    script = list(acks)
    count = [0]

    class Q:
        def get(self, block=True, timeout=None):
            if not script:
                raise _ScriptEnd()
            return chr(script.pop(0))

        def put(self, item, block=True, timeout=None):
            raise AssertionError('unexpected put')

        def empty(self):
            return True          # the scripted items arrive after the transmission

        def get_nowait(self):
            raise queue.Empty()

    h._ack_queue = Q()

    def hook(data):
        count[0] += 1
    t.hook = hook
    try:
        h.sendpkt('s', retries=retries)
        code = 0
    except _ScriptEnd:
        code = -1
    except queue.Empty:
        code = 2
    except UnicodeError:
        code = 3
    except ValueError:
        code = 1
    return [code, count[0]]


# ------------------------------------------------------------------ which repairs does the implementation contain?
class _ProbeQueue(queue.Queue):
    def put(self, item, block=True, timeout=None):
        if self.full():
            if block:
                raise _WouldBlock(item)
            raise queue.Full()
        queue.Queue.put(self, item, block=False)


W_FULL = [43, 43]
W_STALE = [['recv', 43], ['send', [115], 10], ['get']]
W_DEC = [36, 97, 128, 35, 69, 49]
W_HEX = [36, 5, 35, 32, 53]


def probe_full(rsp):
    """two acknowledgements, nobody waiting: does _process_byte block (and finally raise queue.Full)?"""
    t = FakeTransport()
    h = rsp.RspHandler(t)
    h.on_message = lambda m: None
    h._ack_queue = _ProbeQueue(maxsize=1)
    try:
        for b in W_FULL:
            h._process_byte(bytes([b]))
        return True, 'no exception'
    except _WouldBlock:
        return False, '_ack_queue.put blocks on the full queue (0.5 s, then queue.Full ends the receiver thread)'
    except Exception as ex:   # noqa: BLE001
        return False, repr(ex)


def probe_stale(rsp):
    obs = Harness(rsp, [tuple(l) for l in W_STALE]).run()
    return obs[2] != [0], {'results': obs[2], 'waiting': obs[3]}


def probe_dec(rsp):
    d, out, acks, exc = impl_receive(rsp, [W_DEC])
    return exc is None and d == [[97, 128]] and out == [0x2b], {'delivered': d, 'replies': out, 'exception': exc}


def probe_hex(rsp):
    d, out, acks, exc = impl_receive(rsp, [W_HEX])
    return d == [] and out == [0x2d], {'delivered': d, 'replies': out, 'exception': exc}


def probe_config(ctx, rsp):
    """the four second-round repairs are optional: the model configuration follows the implementation, a missing
    repair is reported (known finding keyed by its witness while known_findings.json lists it as known)"""
    flags = {}
    for name, fn, args, thm, expected in (
            ('full', probe_full, [W_FULL], 'c35_receiver_dies_queue_full_refuted', 'the surplus ack is dropped, no exception'),
            ('stale', probe_stale, [W_STALE], 'c35_stray_ack_refuted', 'sendpkt still waits: the "+" arrived before the send'),
            ('dec', probe_dec, [W_DEC], 'c35_receiver_dies_non_ascii_refuted', 'packet delivered (checksum matches), no exception'),
            ('hex', probe_hex, [W_HEX], 'c35_checksum_digits_refuted', 'negative acknowledgement: " 5" are not two hex digits')):
        ok, actual = fn(rsp)
        flags[name] = bool(ok)
        if not ok:
            ctx.violation({'fn': 'witness_' + name, 'args': args, 'theorem': thm, 'expected': expected, 'actual': actual,
                           'how_to_replay': 'cd /verif && ./check C35 --replay <this file>'})
    ctx.cov['stages']['implementation_configuration'] = dict(flags, nak=True, esc=True, retry=True)
    return flags


def cfg_term(flags):
    b = lambda x: 'true' if x else 'false'   # noqa: E731
    return '(Build_cfg true true true %s %s %s %s)' % (b(flags['full']), b(flags['stale']), b(flags['dec']), b(flags['hex']))


# ------------------------------------------------------------------ LTS trace replay
class _TraceEnd(Exception):
    pass


class _WouldBlock(Exception):
    def __init__(self, item):
        Exception.__init__(self)
        self.item = item


class _SQueue(queue.Queue):
    def __init__(self, harness):
        queue.Queue.__init__(self, maxsize=1)
        self.h = harness

    def put(self, item, block=True, timeout=None):
        if self.full():
            if not block:
                raise queue.Full()
            raise _WouldBlock(item)     # the real put would block here (up to 0.5 s)
        queue.Queue.put(self, item, block=False)

    def get(self, block=True, timeout=None):
        if not block:                   # get_nowait (drain of stale acks): frees the slot, a blocked
            item = queue.Queue.get(self, block=False)    # producer completes at once
            if self.h.blk is not None:
                queue.Queue.put(self, self.h.blk, block=False)
                self.h.blk = None
            return item
        return self.h.sender_wait()     # the real get blocks here: let the schedule continue


class Harness:
    """replays a label trace on a real RspHandler, single-threaded: the sender thread is suspended inside
    _ack_queue.get, where the following labels of the trace are executed"""

    def __init__(self, rsp, trace):
        self.t = FakeTransport()
        self.hd = rsp.RspHandler(self.t)
        self.delivered = []
        self.hd.on_message = self.delivered.append
        self.qu = _SQueue(self)
        self.hd._ack_queue = self.qu
        self.trace = list(trace)
        self.pos = 0
        self.blk = None
        self.dead = False
        self.results = []
        self.waiting = False

    def recv(self, b):
        if self.dead or self.blk is not None:
            return
        try:
            self.hd._process_byte(bytes([b]))
        except _WouldBlock as w:
            self.blk = w.item
        except Exception:   # noqa: BLE001
            self.dead = True

    def put_timeout(self):
        if self.blk is not None:
            self.blk = None
            self.dead = True

    def sender_wait(self):
        while self.pos < len(self.trace):
            l = self.trace[self.pos]
            self.pos += 1
            if l[0] == 'recv':
                self.recv(l[1])
            elif l[0] == 'get':
                if not self.qu.empty():
                    item = queue.Queue.get(self.qu, block=False)
                    if self.blk is not None:
                        queue.Queue.put(self.qu, self.blk, block=False)
                        self.blk = None
                    return item
            elif l[0] == 'timeout':
                if self.qu.empty():
                    raise queue.Empty()
            elif l[0] == 'puttimeout':
                self.put_timeout()
            # 'send' while a sendpkt holds the lock: not enabled
        raise _TraceEnd()

    def run(self):
        while self.pos < len(self.trace):
            l = self.trace[self.pos]
            self.pos += 1
            if l[0] == 'recv':
                self.recv(l[1])
            elif l[0] == 'puttimeout':
                self.put_timeout()
            elif l[0] == 'send':
                try:
                    self.hd.sendpkt(l2s(l[1]), retries=l[2])
                    self.results.append(0)
                except _TraceEnd:
                    self.waiting = True
                except queue.Empty:
                    self.results.append(2)
                except UnicodeError:
                    self.results.append(3)
                except ValueError:
                    self.results.append(1)
        qv = ord(self.qu.queue[0]) if not self.qu.empty() else -1
        bv = ord(self.blk) if self.blk is not None else -1
        return (list(self.t.out), [s2l(m) for m in self.delivered], self.results,
                [1] if self.waiting else [], [qv, bv, 1 if self.dead else 0])


def label_term(l):
    if l[0] == 'send':
        return 'LSend %s %s' % (to_term(list(l[1])), '(%d)' % l[2] if l[2] < 0 else str(l[2]))
    if l[0] == 'recv':
        return 'LRecv %d' % l[1]
    return {'get': 'LGet', 'timeout': 'LTimeout', 'puttimeout': 'LPutTimeout'}[l[0]]


# ------------------------------------------------------------------ independent reference (search oracle)
def ref_escape(p):
    out = []
    for c in p:
        if c in (0x23, 0x24, 0x7d, 0x2a):
            out += [0x7d, c ^ 0x20]
        else:
            out.append(c)
    return out


def ref_frame(p):
    e = ref_escape(p)
    return [0x24] + e + [0x23] + s2l('%02x' % (sum(e) % 256))


def ref_receive(stream):
    """RSP receiver by the book: returns (delivered payloads, reply bytes, ack bytes seen)"""
    delivered, replies, acks = [], [], []
    i, n = 0, len(stream)
    hexd = set(s2l('0123456789abcdefABCDEF'))
    while i < n:
        c = stream[i]
        if c in (0x2b, 0x2d):
            acks.append(c)
            i += 1
        elif c == 0x24:
            j = i + 1
            while j < n and stream[j] != 0x23:
                j += 1
            if j + 2 >= n:
                break                       # incomplete packet: nothing yet
            body, h = stream[i + 1:j], stream[j + 1:j + 3]
            if h[0] in hexd and h[1] in hexd and int(l2s(h), 16) == sum(body) % 256:
                out, k, ok = [], 0, True
                while k < len(body):
                    if body[k] == 0x7d:
                        if k + 1 >= len(body):
                            ok = False
                            break
                        out.append(body[k + 1] ^ 0x20)
                        k += 2
                    else:
                        out.append(body[k])
                        k += 1
                if ok:
                    delivered.append(out)
                    replies.append(0x2b)
                else:
                    replies.append(0x2d)
            else:
                replies.append(0x2d)
            i = j + 3
        else:
            i += 1
    return delivered, replies, acks


def impl_receive(rsp, chunks):
    t = FakeTransport()
    h = rsp.RspHandler(t)
    delivered, acks = [], []
    h.on_message = lambda m: delivered.append(s2l(m))

    class Q:
        def put(self, item, block=True, timeout=None):
            acks.append(ord(item))

        def put_nowait(self, item):
            acks.append(ord(item))

        def get(self, block=True, timeout=None):
            raise queue.Empty()

        def empty(self):
            return True

        def get_nowait(self):
            raise queue.Empty()
    h._ack_queue = Q()
    try:
        for ch in chunks:
            for b in ch:
                t.on_byte(bytes([b]))
    except Exception as ex:   # noqa: BLE001
        return delivered, list(t.out), acks, repr(ex)
    return delivered, list(t.out), acks, None


def impl_send_with_replies(rsp, payload, retries, replies):
    """sendpkt over a transport whose peer answers the k-th transmission with replies[k] (bytes, fed through
    on_byte exactly like the baseline's TransportMock). Real queue.Queue, no instrumentation: a missing ack costs
    the real 0.5 s timeout. Returns (outcome, transmissions, bytes written)."""
    t = FakeTransport()
    h = rsp.RspHandler(t)
    h.on_message = lambda m: None
    script = list(replies)
    count = [0]

    def hook(data):
        if data[:1] == b'$':
            count[0] += 1
            if script:
                for b in script.pop(0):
                    t.on_byte(bytes([b]))
    t.hook = hook
    try:
        h.sendpkt(l2s(payload), retries=retries)
        out = 'acked'
    except queue.Empty:
        out = 'timeout'
    except ValueError:
        out = 'retry-fail'
    except Exception as ex:   # noqa: BLE001
        out = 'exception ' + type(ex).__name__
    return out, count[0], list(t.out)


# ------------------------------------------------------------------ generators
def gen_payload(rng, maxlen=12):
    n = rng.choice([0, 1, 1, 2, 2, 3, 4, 5, 8, maxlen])
    alpha = SPECIALS * 3 + s2l('abzAZ09 ,:;mOK') + [0, 1, 31, 32, 126, 127, 92, 34]
    return [rng.choice(alpha) for _ in range(n)]


def payload_pool(rng, n):
    pool = [[], [97], [39], [97, 39], [35], [36], [125], [42], [43], [45], [97, 125, 98, 36], [125, 125], [125, 35],
            [39, 35], [35, 39], [3], [4], [10], [93], [125, 93], [97, 35, 98], [36, 36, 36], s2l("qSupported"),
            s2l("m 10,4"), s2l("foo-bar"), s2l("a+b"), [127], [0]]
    # equal-checksum pairs and checksums hitting special values
    pool += [[97, 98], [98, 97], [96, 99]]
    for target in (0x23, 0x24, 0x2b, 0x2d, 0x7d, 0x00, 0xff, 0x27):
        base = [100, 101]
        pool.append(base + [(target - sum(base)) % 128] + ([64, 64] if (target - sum(base)) % 256 >= 128 else []))
    while len(pool) < n:
        pool.append(gen_payload(rng))
    seen, out = set(), []
    for p in pool:
        if tuple(p) not in seen:
            seen.add(tuple(p))
            out.append(p)
    return out


def chunkings(rng, stream, k=2):
    outs = [[stream], [[b] for b in stream]]
    for _ in range(k):
        cuts = sorted(rng.sample(range(len(stream) + 1), min(len(stream) + 1, rng.randrange(0, 4))))
        prev, ch = 0, []
        for c in cuts:
            ch.append(stream[prev:c])
            prev = c
        ch.append(stream[prev:])
        outs.append(ch)
    return outs


def corrupt(rng, frame):
    f = list(frame)
    kind = rng.randrange(6)
    if kind == 0 and len(f) > 4:      # flip a body byte (checksum no longer matches, unless '#' appears)
        i = rng.randrange(1, len(f) - 3)
        f[i] = (f[i] + rng.choice([1, 2, 16, 100])) % 128
    elif kind == 1:                   # wrong check digit
        f[-1] = ord('0') if f[-1] != ord('0') else ord('1')
    elif kind == 2:                   # non-hex / lenient check digits
        f[-2:] = rng.choice([[32, 53], [43, 53], [45, 53], [53, 32], [120, 120], [48, 120], [95, 49], [9, 65], [103, 48]])
    elif kind == 3:                   # lower-case digits (still valid)
        f[-2:] = s2l(l2s(f[-2:]).lower())
    elif kind == 4:                   # truncated
        f = f[:rng.randrange(1, len(f))]
    else:                             # dangling escape at the end of the body, checksum recomputed
        body = f[1:-3] + [125]
        f = [36] + body + [35] + s2l('%02X' % (sum(body) % 256))
    return f


def gen_stream(rng, rsp_pack):
    parts = []
    for _ in range(rng.randrange(1, 4)):
        r = rng.random()
        if r < 0.45:
            parts.append(rsp_pack(gen_payload(rng, 6)))
        elif r < 0.7:
            parts.append(corrupt(rng, rsp_pack(gen_payload(rng, 6))))
        elif r < 0.8:
            parts.append([rng.choice([43, 45])])
        elif r < 0.9:
            parts.append([rng.choice([0, 97, 35, 39, 125, 200, 255, 10])])
        elif r < 0.95:
            if rng.random() < 0.5:
                fr = rsp_pack(gen_payload(rng, 4))
                fr.insert(rng.randrange(1, len(fr)), rng.choice([128, 200, 255]))   # non-ASCII inside a packet
            else:                                                                     # ... with a matching checksum
                fr = rsp_pack(gen_payload(rng, 3) + [rng.choice([128, 133, 160, 200, 253, 255])])
            parts.append(fr)
        else:
            parts.append([36, 35] + s2l('00') + [36, 39, 35, 50, 55])
    return [b for p in parts for b in p]


def gen_trace(rng, pack):
    tr = []
    n = rng.randrange(2, 14)
    for _ in range(n):
        r = rng.random()
        if r < 0.2:
            tr.append(('send', gen_payload(rng, 4) if rng.random() < 0.95 else [233], rng.choice([0, 1, 1, 2, 3, 10, -1])))
        elif r < 0.45:
            tr.append(('recv', rng.choice([43, 45, 43, 45, 97, 0])))
        elif r < 0.6:
            fr = pack(gen_payload(rng, 3) + ([rng.choice([128, 200, 255])] if rng.random() < 0.15 else []))
            if rng.random() < 0.3:
                fr = corrupt(rng, fr)
            tr += [('recv', b) for b in fr]
        elif r < 0.85:
            tr.append(('get',))
        elif r < 0.93:
            tr.append(('timeout',))
        else:
            tr.append(('puttimeout',))
    return tr


# ------------------------------------------------------------------ search: implementation vs oracle
def search_impl(ctx, rsp, deep, flags=None):
    """returns the number of evaluations; reports violations with replay information"""
    rng = ctx.rng
    n_eval = 0
    pool = payload_pool(rng, 400 if deep else 120)
    budget = {'frame_roundtrip': 3, 'bad_checksum': 3, 'nak_retransmit': 2, 'retry_budget': 2,
              'witness_quote_terminator': 1, 'witness_unescape': 1, 'witness_nak_dropped': 1, 'witness_last_retry': 1,
              'receiver_survival': 2, 'stray_ack': 2}
    flags = flags or {'full': False, 'stale': False, 'dec': False, 'hex': False}

    def report(fn, rec):
        if budget[fn] <= 0:
            return
        budget[fn] -= 1
        rec = dict(rec, fn=fn, how_to_replay='cd /verif && ./check C35 --replay <this file>')
        ctx.violation(rec)

    # 0. the witnesses of the *_refuted theorems of Props/C35.v, re-executed on the implementation
    for fn, p in (('witness_quote_terminator', [97, 39]), ('witness_unescape', [97, 125, 98, 36])):
        pk = impl_pack(rsp, p)
        n_eval += 1
        wire = pk.v if isinstance(pk, OkV) else []
        d, out, acks, exc = impl_receive(rsp, [wire])
        if d != [p] or out != [0x2b] or exc:
            report(fn, {'args': [p], 'chunks': [wire], 'theorem': 'c35_frame_roundtrip_refuted' if fn.endswith('terminator')
                        else 'c35_unescape_refuted',
                        'expected': {'delivered': [p], 'replies': [0x2b]},
                        'actual': {'delivered': d, 'replies': out, 'exception': exc}})
    n_eval += 1
    got = impl_acks_run(rsp, 1, [45, 43])
    if got != [0, 2]:
        report('witness_last_retry', {'args': [1, [45, 43]], 'theorem': 'c35_retry_budget_refuted',
                                      'what': 'sendpkt("s", retries=1) with _ack_queue items "-", "+"',
                                      'expected': {'outcome': 'acked', 'transmissions': 2},
                                      'actual': {'outcome_code': got[0], 'transmissions': got[1]}})
    n_eval += 1
    outc, sent, _ = impl_send_with_replies(rsp, s2l('s'), 10, [[0x2d], [0x2b]])
    if (outc, sent) != ('acked', 2):
        report('witness_nak_dropped', {'args': [s2l('s'), 10, [[0x2d], [0x2b]]], 'theorem': 'c35_nak_retransmits_refuted',
                                       'expected': {'outcome': 'acked', 'transmissions': 2},
                                       'actual': {'outcome': outc, 'transmissions': sent}})
    # 1. framing: frame made by the implementation, received by the implementation, any chunking
    for p in pool:
        pk = impl_pack(rsp, p)
        n_eval += 1
        if not isinstance(pk, OkV):
            report('frame_roundtrip', {'args': [p], 'expected': 'a packet', 'actual': 'rsp_pack raised'})
            continue
        wire = pk.v
        d_ref, r_ref, _ = ref_receive(wire)
        if d_ref != [p] or r_ref != [0x2b]:
            report('frame_roundtrip', {'args': [p], 'what': 'rsp_pack output is not a conforming packet for the payload',
                                       'expected': ref_frame(p), 'actual': wire})
            continue
        for ch in chunkings(rng, [97] + wire + [43], 2 if deep else 1):
            n_eval += 1
            d, out, acks, exc = impl_receive(rsp, ch)
            if d != [p] or out != [0x2b] or acks != [0x2b] or exc:
                report('frame_roundtrip', {'args': [p], 'chunks': ch,
                                           'expected': {'delivered': [p], 'replies': [0x2b], 'acks': [0x2b]},
                                           'actual': {'delivered': d, 'replies': out, 'acks': acks, 'exception': exc}})
                break
    # 2. packets from a conforming peer (lower-case digits), bad checksums, several packets in one stream
    for _ in range(300 if deep else 80):
        items = []
        for _ in range(rng.randrange(1, 4)):
            p = gen_payload(rng, 6)
            if flags['dec'] and rng.random() < 0.4:       # binary-transparent receiver: any byte value
                p = [rng.choice([128, 133, 160, 200, 253, 255, 0x85 ^ 0x20]) if rng.random() < 0.5 else c for c in p + [255]]
            f = ref_frame(p)
            if rng.random() < 0.35:
                v = (int(l2s(f[-2:]), 16) + rng.randrange(1, 256)) % 256
                f[-2:] = s2l(('%02x' if rng.random() < 0.5 else '%02X') % v)
            elif flags['hex'] and f[-2] == 48 and rng.random() < 0.5:
                # check digits "0d" corrupted into white space / sign + d: int() would still give the checksum
                f[-2] = rng.choice([32, 43, 9, 10, 13] + ([133, 160] if flags['dec'] else []))
            items.append(f)
            if rng.random() < 0.3:
                items.append([rng.choice([43, 45])])
        stream = [b for f in items for b in f]
        d_ref, r_ref, a_ref = ref_receive(stream)
        n_eval += 1
        d, out, acks, exc = impl_receive(rsp, chunkings(rng, stream, 1)[-1])
        if d != d_ref or out != r_ref or exc:
            fn = 'bad_checksum' if out != r_ref and (0x2d in r_ref or 0x2d in out) else 'frame_roundtrip'
            report(fn, {'args': [stream], 'expected': {'delivered': d_ref, 'replies': r_ref},
                        'actual': {'delivered': d, 'replies': out, 'exception': exc}})
        elif acks != a_ref:
            report('nak_retransmit', {'args': [stream], 'what': 'acknowledgement bytes seen by the receiver',
                                      'expected': a_ref, 'actual': acks})
    # 3. sender: NAK -> retransmission; ACK within the budget succeeds; bounded transmissions
    for retries in ([1, 2, 3, 10] if deep else [1, 3]):
        for k in range(0, retries + 2):
            replies = [[0x2d]] * k + [[0x2b]]
            n_eval += 1
            outc, sent, _ = impl_send_with_replies(rsp, s2l('s'), retries, replies)
            rec = {'args': [s2l('s'), retries, replies], 'actual': {'outcome': outc, 'transmissions': sent}}
            if sent > retries + 1:
                report('retry_budget', dict(rec, expected='at most 1 + retries transmissions'))
            elif outc == 'timeout' and k >= 1:
                report('nak_retransmit', dict(rec, expected='a "-" answer triggers a retransmission (sender timed out '
                                                       'instead: the NAK never reached sendpkt)'))
                break       # every further case costs the real 0.5 s timeout
            elif outc == 'acked' and sent != k + 1:
                report('nak_retransmit', dict(rec, expected='acked after exactly %d transmissions' % (k + 1)))
            elif outc != 'acked' and k < retries:
                report('retry_budget', dict(rec, expected='acked: only %d NAKs with retries=%d' % (k, retries)))
            elif outc != 'acked' and sent == k + 1:
                report('retry_budget', dict(rec, expected='the last transmission was answered "+": must not fail'))
    # 4. the same with the acknowledgements put straight into _ack_queue (reaches sendpkt even when the decoder
    #    does not pass a "-" on)
    for retries in ([0, 1, 2, 3, 5, 10] if deep else [1, 2, 10]):
        for k in range(0, retries + 3):
            n_eval += 1
            code, sent = impl_acks_run(rsp, retries, [45] * k + [43])
            rec = {'args': [retries, [45] * k + [43]], 'what': 'sendpkt("s", retries) with these _ack_queue items',
                   'actual': {'outcome_code': code, 'transmissions': sent}}
            if sent > retries + 1:
                report('retry_budget', dict(rec, expected='at most 1 + retries transmissions'))
            elif code == 0 and sent != k + 1:
                report('retry_budget', dict(rec, expected='acked after exactly %d transmissions' % (k + 1)))
            elif code != 0 and k < retries:
                report('retry_budget', dict(rec, expected='acked: only %d NAKs with retries=%d' % (k, retries)))
            elif code != 0 and sent == k + 1:
                report('retry_budget', dict(rec, expected='the last transmission was answered "+": must not fail'))
    # 5. repairs of the second round, searched only once the implementation contains them (before that the
    #    witness is reported by probe_config)
    if flags['full']:
        for _ in range(60 if deep else 20):
            stream = []
            for _ in range(rng.randrange(1, 4)):
                stream += [rng.choice([43, 45]) for _ in range(rng.randrange(1, 5))]
                stream += ref_frame(gen_payload(rng, 4))
            d_ref, r_ref, _ = ref_receive(stream)
            t = FakeTransport()
            h = rsp.RspHandler(t)
            got = []
            h.on_message = lambda m: got.append(s2l(m))
            h._ack_queue = _ProbeQueue(maxsize=1)
            exc = None
            n_eval += 1
            try:
                for b in stream:
                    t.on_byte(bytes([b]))
            except BaseException as ex:   # noqa: BLE001
                exc = type(ex).__name__
            if exc or got != d_ref or list(t.out) != r_ref:
                report('receiver_survival', {'args': [stream], 'what': 'acknowledgements nobody waits for, then packets',
                                             'expected': {'delivered': d_ref, 'replies': r_ref, 'exception': None},
                                             'actual': {'delivered': got, 'replies': list(t.out), 'exception': exc}})
    if flags['stale']:
        for _ in range(40 if deep else 15):
            tr = [('recv', rng.choice([43, 45])) for _ in range(rng.randrange(1, 4))]
            tr += [('send', [115], rng.choice([1, 3, 10])), ('get',)]
            n_eval += 1
            obs = Harness(rsp, tr).run()
            if obs[2] or obs[3] != [1] or obs[0] != s2l('$s#73'):
                report('stray_ack', {'args': [[list(l) for l in tr]], 'what': 'acks received before the send must not complete it',
                                     'expected': {'results': [], 'waiting': [1], 'out': s2l('$s#73')},
                                     'actual': {'results': obs[2], 'waiting': obs[3], 'out': obs[0]}})
    ctx.cov['stages']['oracle_search'] = n_eval
    ctx.cov['evaluations'] += n_eval
    return n_eval


def search(ctx):
    rsp = load_impl()
    search_impl(ctx, rsp, True, probe_config(ctx, rsp))


# ------------------------------------------------------------------ replay of a stored violation
def replay(rec):
    rsp = load_impl()
    fn = rec.get('fn')
    print('replaying %s on %s' % (fn, os.path.abspath(rsp.__file__)))
    if fn in ('witness_full', 'witness_stale', 'witness_dec', 'witness_hex'):
        ok, actual = {'witness_full': probe_full, 'witness_stale': probe_stale, 'witness_dec': probe_dec,
                      'witness_hex': probe_hex}[fn](rsp)
        actual = {'repaired': bool(ok), 'observed': actual}
    elif fn == 'stray_ack':
        obs = Harness(rsp, [tuple(l) for l in rec['args'][0]]).run()
        actual = {'results': obs[2], 'waiting': obs[3], 'out': obs[0]}
    elif len(rec['args']) == 2:
        code, sent = impl_acks_run(rsp, rec['args'][0], rec['args'][1])
        actual = {'outcome_code': code, 'transmissions': sent}
    elif len(rec['args']) == 1:
        if 'chunks' in rec:
            chunks = rec['chunks']
        elif fn == 'frame_roundtrip' and isinstance(rec['expected'], dict) and 'acks' in rec['expected']:
            chunks = [[97] + impl_pack(rsp, rec['args'][0]).v + [43]]
        else:
            chunks = [rec['args'][0]]
        d, out, acks, exc = impl_receive(rsp, chunks)
        actual = {'delivered': d, 'replies': out, 'acks': acks, 'exception': exc}
    else:
        p, retries, replies = rec['args']
        outc, sent, _ = impl_send_with_replies(rsp, p, retries, replies)
        actual = {'outcome': outc, 'transmissions': sent}
    print(json.dumps({'expected': rec.get('expected'), 'actual_now': actual, 'actual_recorded': rec.get('actual')}, indent=1))
    return 0


# ------------------------------------------------------------------ run
# --- register / memory payloads of GdbClient (client.py) against Model.RspRegs ------------------
SRC_CLIENT = 'ppci/binutils/dbg/gdb/client.py'


class _FakeReg:
    def __init__(self, bitsize):
        self.bitsize = bitsize


def load_client():
    import logging
    import ppci.binutils.dbg.gdb.client as client
    importlib.reload(client)
    logging.getLogger('gdbclient').setLevel(logging.CRITICAL + 1)
    return client


def make_client(client, bitsizes, big):
    from ppci.arch.arch_info import Endianness

    class _Info:
        endianness = Endianness.BIG if big else Endianness.LITTLE

    class _Arch:
        info = _Info()
        gdb_registers = [_FakeReg(b) for b in bitsizes]
    c = client.GdbDebugDriver(_Arch(), FakeTransport())
    c.status = client.DebugState.STOPPED
    c.sent = []
    return c


def _guard(f):
    try:
        return OkV(f())
    except Exception:   # noqa: BLE001  (every exception of this code is an undocumented one)
        return Internal


def impl_set_registers_cmd(client, bitsizes, vals):
    c = make_client(client, bitsizes, False)
    regs = c.arch.gdb_registers

    def cmd(text):
        c.sent.append(text)
        return 'OK'
    c._send_command = cmd

    def go():
        c.set_registers(dict(zip(regs, vals)))
        assert len(c.sent) == 1
        return s2l(c.sent[0])
    return _guard(go)


def impl_get_general_registers(client, big, bitsizes, reply):
    c = make_client(client, bitsizes, big)
    regs = c.arch.gdb_registers
    c._send_command = lambda text: l2s(reply)

    def go():
        res = c.get_registers(regs)
        return [res[r] for r in regs]
    return _guard(go)


def impl_pack_register(client, bitsize, v):
    return _guard(lambda: list(client.GdbDebugDriver._pack_register(_FakeReg(bitsize), v)))


def impl_unpack_register(client, big, bitsize, data):
    c = make_client(client, [bitsize], big)
    return _guard(lambda: c._unpack_register(c.arch.gdb_registers[0], bytes(data)))


def impl_write_mem_data(client, data):
    c = make_client(client, [], False)

    def cmd(text):
        c.sent.append(text)
        return 'OK'
    c._send_command = cmd

    def go():
        c.write_mem(4096, bytes(data))
        head, _, tail = c.sent[0].partition(':')
        assert head == 'M 1000,%x' % len(data)
        return s2l(tail)
    return _guard(go)


def impl_read_mem_reply(client, reply):
    c = make_client(client, [], False)
    c._send_command = lambda text: l2s(reply)
    return _guard(lambda: list(c.read_mem(4096, 4)))


def regs_cases(rng, client, scale):
    """correspondence cases for Model.RspRegs; returns (cases, recs, nontrivial)"""
    cases, recs, nontriv = [], [], 0
    sizes = [8, 16, 32, 64]
    odd = [0, 7, 24, 12, 40, 128, 9]

    def val(bs):
        top = 1 << max(bs // 8 * 8, 1)
        return rng.choice([0, 1, top - 1, top // 2, rng.randrange(top), rng.randrange(top)])

    def add(term, out, kind, inp):
        cases.append((term, out))
        recs.append((kind, inp, out))
    hexchars = [ord(ch) for ch in '0123456789abcdefABCDEF']
    for _ in range(60 * scale):
        n = rng.randrange(0, 7)
        regs = [rng.choice(sizes) if rng.random() < 0.9 else rng.choice(odd) for _ in range(n)]
        vals = [val(b) for b in regs]
        r = rng.random()
        if r < 0.1 and vals:
            vals[rng.randrange(n)] = rng.choice([-1, 1 << 64, 1 << regs[0]])
        elif r < 0.15 and vals:
            vals = vals[:-1]
        out = impl_set_registers_cmd(client, regs, vals)
        add('set_registers_cmd %s %s' % (to_term(regs), to_term(vals)), out, 'set_registers', [regs, vals])
        nontriv += 1 if isinstance(out, OkV) and n else 0
        # the reply of 'g': the block just sent, or a mutation of it, or random hex
        big = rng.random() < 0.4
        if isinstance(out, OkV) and rng.random() < 0.7:
            reply = out.v[2:]
            m = rng.random()
            if m < 0.2 and reply:
                reply = reply[:rng.randrange(len(reply))]
            elif m < 0.3:
                reply = reply + [rng.choice(hexchars) for _ in range(rng.randrange(1, 5))]
            elif m < 0.4 and reply:
                reply = list(reply)
                reply[rng.randrange(len(reply))] = rng.choice([71, 103, 32, 200, 300, 47, 58, 64, 96])
            elif m < 0.6:
                reply = [ord(chr(x).upper()) for x in reply]
        else:
            reply = [rng.choice(hexchars) for _ in range(2 * rng.randrange(0, 20) + (rng.random() < 0.1))]
        g = impl_get_general_registers(client, big, regs, reply)
        add('get_general_registers %s %s %s' % ('true' if big else 'false', to_term(regs), to_term(reply)), g,
            'get_general_registers', [big, regs, reply])
        nontriv += 1 if isinstance(g, OkV) and any(g.v) else 0
    for bs in sizes + odd:
        for _ in range(3 * scale):
            v = rng.choice([val(bs), val(bs), -1, 1 << (bs // 8 * 8), (1 << (bs // 8 * 8)) - 1])
            add('pack_register (%d) (%d)' % (bs, v), impl_pack_register(client, bs, v), 'pack_register', [bs, v])
            big = rng.random() < 0.5
            ln = bs // 8 if rng.random() < 0.8 else rng.randrange(0, 10)
            data = [rng.randrange(256) for _ in range(ln)]
            u = impl_unpack_register(client, big, bs, data)
            add('unpack_register %s (%d) %s' % ('true' if big else 'false', bs, to_term(data)), u,
                'unpack_register', [big, bs, data])
            nontriv += 1 if isinstance(u, OkV) and u.v else 0
    for _ in range(40 * scale):
        data = [rng.choice([0, 9, 10, 15, 16, 127, 128, 255, rng.randrange(256)]) for _ in range(rng.randrange(0, 12))]
        w = impl_write_mem_data(client, data)
        add('write_mem_data %s' % to_term(data), w.v if isinstance(w, OkV) else w, 'write_mem', data)
        reply = w.v if isinstance(w, OkV) and rng.random() < 0.5 else \
            [rng.choice(hexchars + [103, 71, 47, 58, 64, 96, 32, 200]) for _ in range(rng.randrange(0, 9))]
        add('read_mem_reply %s' % to_term(reply), impl_read_mem_reply(client, reply), 'read_mem', reply)
        nontriv += 1 if data else 0
    return cases, recs, nontriv


def regen(ctx):
    """tie H: nothing to regenerate; record the hash of the modelled source"""
    p = os.path.join(os.environ.get('VERIF_REPO', '/repo'), SRC)
    h = hashlib.sha256(open(p, 'rb').read()).hexdigest()
    ctx.cov['stages']['source'] = {'file': SRC, 'sha256': h}
    return h


def run(ctx):
    regen(ctx)
    rsp = load_impl()
    rng = ctx.rng
    ok, _ = ctx.build(['Proofs/C35_frame.vo', 'Proofs/C35_lts.vo', 'Proofs/C35_live.vo', 'Proofs/C35_regs.vo'])
    if ok:
        ctx.check_props('Props/C35.v')
    nontriv = 0
    flags = probe_config(ctx, rsp)
    CF = cfg_term(flags)
    if ctx.build(['Model/Rsp.vo', 'Lib/Val.vo'])[0]:
        scale = 1 if ctx.quick() else 4
        cases, recs = [], []
        # rsp_pack
        pool = payload_pool(rng, 250 * scale)
        for p in pool:
            out = impl_pack(rsp, p)
            cases.append(('rsp_pack %s' % to_term(p), out.v if isinstance(out, OkV) else out))
            recs.append(('rsp_pack', p, out))
            nontriv += 1 if p else 0

        def model_pack(p):
            return s2l(rsp.RspHandler.rsp_pack(l2s(p)))
        # rsp_unpack
        upool = [[], [97], [36], [36, 35], [36, 35, 48], [36, 35, 48, 48], [35, 48, 48], [36, 97, 48, 48],
                 s2l('$abc#26'), s2l('$abc#20'), s2l('a'), [36, 5, 35, 32, 53], [36, 5, 35, 133, 53], [36, 5, 35, 53, 160],
                 [36, 5, 35, 43, 53], [36, 200, 35, 67, 56], [36, 200, 125, 35, 52, 53], [36, 125, 200, 35, 52, 53],
                 [36, 255, 255, 35, 70, 69], [36, 178, 35, 178, 178]]
        for p in pool[:200 * scale]:
            f = model_pack(p)
            upool.append(f)
            upool.append(corrupt(rng, f))
        for pkt in upool:
            out = impl_unpack(rsp, pkt)
            cases.append(('rsp_unpack %s %s' % (CF, to_term(pkt)), out))
            recs.append(('rsp_unpack', pkt, out))
            nontriv += 1 if isinstance(out, OkV) and out.v else 0
        # int(s, 16) on every pair of characters 0..255
        table = []
        for a in range(256):
            for b in range(256):
                try:
                    table.append([a, b, int(chr(a) + chr(b), 16)])
                except ValueError:
                    pass
        cases.append(('int16_accepted', table))
        recs.append(('int16_table', [], None))
        # receiver events per byte
        streams = [model_pack(p) for p in pool[:60]]
        streams += [gen_stream(rng, model_pack) for _ in range(350 * scale)]
        for s in streams:
            evs = impl_rx_events(rsp, s)
            cases.append(('rx_codes %s %s' % (CF, to_term(s)), evs))
            recs.append(('rx_events', s, evs))
            nontriv += 1 if any(e != [0] for e in evs) else 0
        # sendpkt against ack sequences
        for retries in [0, 1, 2, 3, 5, 10, -1]:
            for _ in range(12 * scale):
                acks = [rng.choice([43, 45, 45, 45, 97]) for _ in range(rng.randrange(0, 8))]
                if rng.random() < 0.5:
                    acks = [45] * rng.randrange(0, max(retries, 0) + 3) + [43]
                out = impl_acks_run(rsp, retries, acks)
                cases.append(('acks_obs %s %s %s' % (CF, '(%d)' % retries, to_term(acks)), out))
                recs.append(('sendpkt_acks', [retries, acks], out))
                nontriv += 1 if out[1] > 1 or out[0] > 0 else 0
        # LTS traces
        traces = [[('send', [115], 1), ('recv', 45), ('get',), ('recv', 43), ('get',)],
                  [('send', [115], 1), ('recv', 43), ('recv', 43), ('recv', 97), ('puttimeout',), ('get',)],
                  [('recv', 43), ('send', [115], 2), ('get',)],
                  [('send', [115], 0), ('recv', 45), ('get',)],
                  [('send', [115], 3), ('timeout',), ('send', [97], 1), ('recv', 43), ('get',)]]
        traces += [gen_trace(rng, model_pack) for _ in range(500 * scale)]
        for tr in traces:
            obs = Harness(rsp, tr).run()
            cases.append(('observe (run %s init [%s])' % (CF, '; '.join(label_term(l) for l in tr)), obs))
            recs.append(('lts_trace', [list(l) for l in tr], obs))
            nontriv += 1 if obs[0] or obs[2] else 0
        dist = {}
        for r in recs:
            dist[r[0]] = dist.get(r[0], 0) + 1
        ctx.cov['stages']['correspondence_distribution'] = dist
        ctx.cov['distinct_nontrivial'] += nontriv
        for r in recs[:: max(1, len(recs) // 8)]:
            ctx.note_sample({'fn': r[0], 'input': repr(r[1])[:160], 'impl': repr(r[2].v if isinstance(r[2], OkV) else r[2])[:160]})
        bad = ctx.run_cases('rsp', ['Model.Rsp'], cases, shard=110)
        if bad:
            kinds = {}
            for i in bad:
                kinds.setdefault(recs[i][0], []).append(i)
            for k, idxs in kinds.items():
                i = idxs[0]
                ctx.log('model/implementation disagree on %d %s case(s), first input: %r impl=%r' % (
                    len(idxs), k, recs[i][1], recs[i][2].v if isinstance(recs[i][2], OkV) else recs[i][2]))
            ctx.failed_stages.append(('correspondence', 'Model.Rsp (configuration ' + CF + ') disagrees with %s on %d cases: %s'
                                      % (SRC, len(bad), ', '.join('%s x%d' % (k, len(v)) for k, v in kinds.items()))))
    # register / memory payload code of client.py against Model.RspRegs
    if ctx.build(['Model/RspRegs.vo', 'Lib/Val.vo'])[0]:
        pc = os.path.join(os.environ.get('VERIF_REPO', '/repo'), SRC_CLIENT)
        ctx.cov['stages']['source_client'] = {'file': SRC_CLIENT, 'sha256': hashlib.sha256(open(pc, 'rb').read()).hexdigest()}
        try:
            client = load_client()
            rcases, rrecs, rnon = regs_cases(rng, client, 1 if ctx.quick() else 4)
        except Exception as ex:   # noqa: BLE001
            rcases, rrecs, rnon = [], [], 0
            ctx.failed_stages.append(('correspondence-regs', 'cannot drive GdbClient of %s: %r' % (SRC_CLIENT, ex)))
        if rcases:
            rdist = {}
            for r in rrecs:
                rdist[r[0]] = rdist.get(r[0], 0) + 1
            ctx.cov['stages']['correspondence_regs_distribution'] = rdist
            ctx.cov['distinct_nontrivial'] += rnon
            rbad = ctx.run_cases('rspregs', ['Model.RspRegs'], rcases, shard=200)
            if rbad:
                i = rbad[0]
                ctx.log('Model.RspRegs/GdbDebugDriver disagree on %d case(s), first: %s %r impl=%r' % (
                    len(rbad), rrecs[i][0], rrecs[i][1], rrecs[i][2].v if isinstance(rrecs[i][2], OkV) else rrecs[i][2]))
                ctx.failed_stages.append(('correspondence-regs', 'Model.RspRegs disagrees with %s on %d cases (first: %s %r)'
                                          % (SRC_CLIENT, len(rbad), rrecs[i][0], rrecs[i][1])))
    # search oracle: cheap on every run, deep when something failed or tier is thorough
    search_impl(ctx, rsp, (not ctx.quick()) or bool(ctx.failed_stages), flags)
    ctx.cov['exhaustive'] = False


MANIFEST = {
    'text': 'proof: 29 Coq theorems over a hand model of ppci/binutils/dbg/gdb/rsp.py — for every payload and every '
            'chunking of the byte stream the packet made by rsp_pack is recognised as exactly one message at its last byte, '
            'carrying the original payload with escapes undone, and answered "+"; packets with wrong or unparsable check '
            'digits are answered "-"; a "-" makes sendpkt retransmit; sendpkt equals the spec sender for every '
            'acknowledgement sequence (at most 1+retries transmissions, an ACK within the budget succeeds, retries <= 0 = one '
            'transmission) and the bound holds on every schedule of the labelled transition system; an inductive invariant '
            'over all LTS traces gives no loss / no duplication of incoming packets. Second round, for the code with '
            'fixes/C35-ack-queue-full, -stale-ack, -decoder-non-ascii, -checksum-digits applied: the receiver thread never '
            'dies for any byte stream (all byte values) and any schedule, acknowledgements that arrive while no send is '
            'pending cannot complete a later send, only [0-9a-fA-F]{2} check digits are accepted and every packet-shaped '
            'string that is not a well-formed packet is NAKed, framing and no-loss hold for arbitrary byte values. Each '
            'repair is shown necessary by a *_refuted witness on the model without it; the witnesses are re-executed on the '
            'implementation on every run (known findings until the four diffs are applied).',
    'note': 'trusted: Coq kernel; the hand model (checked against the real RspHandler on ~2000 generated inputs, byte '
            'streams and interleaving traces per run, over a fake transport, plus the exhaustive int(s,16) table over '
            '256x256 characters), with its configuration selected by probing the implementation; the single-threaded replay '
            'harness; atomicity of LTS steps; timeouts as nondeterministic labels. The sender is ASCII-only by design. Not '
            'modelled: OS scheduling, sockets, queue.Queue internals, RLE in received packets, unsequenced acks (protocol '
            'limitation). No axioms.',
    'text_wave5': '3 more theorems over Model.RspRegs (hand model of the register/memory payload code of ppci/binutils/dbg/gdb/client.py, run against the real GdbDebugDriver methods on ~270 inputs per run): write_mem hex text is decoded back by read_mem for every byte string; the G block sent by set_registers is read back by _get_general_registers (little-endian target) for every register list and all values that fit; set_registers is defined exactly there. binascii/struct are modelled, not verified; _pack_register ignores the target byte order.',
    'technique': 'Coq proof over hand model (state machine + LTS, one switch per repair) + differential trace replay',
}
