"""C26 — C preprocessor agrees with a conforming preprocessor; proved part: the `#if` core (DESIGN §4 C26).

Spec: coq/Spec/CIntSpec.v (pp_eval: intmax_t/uintmax_t arithmetic) and Spec/CPPGrammar.v (C grammar).
Model: Gen/ppif.v (tie T/I: CPreProcessor.OP_MAP extracted with `ast`; operator.* entries and lambdas are
rendered as Python source and translated by py2coq together with the module functions c_div/c_rem),
Model/PPIf.v (tie H: parse_expression / _binop_take / _eval_tree). Macro expansion is NOT modelled: it is
covered by a search-only differential test against `gcc -E -P` (validation, not proof).
"""
import ast
import io
import os
import re
import subprocess
import sys
import tempfile

sys.path.insert(0, os.path.dirname(os.path.abspath(__file__)))
import cintspec as S  # noqa: E402
from vlib import OkV, Diag, Internal, TieBroken, REPO  # noqa: E402
import py2coq  # noqa: E402

LEVEL = 'other'
RULE = ('#if lines: random expression trees (depth <= 5, all unary/binary operators and ?:, literals from 64-bit '
        'boundary pools, signed and `u`-suffixed) rendered with full or minimal parentheses and fed to '
        'ppci.api.preprocess as `#if E / yes / #else / no / #endif`; the parse tree and value are recorded by '
        'wrapping parse_expression/_eval_tree; distinct non-trivial = distinct expression text with >= 1 operator '
        'whose C value is defined. Macro sets: generated object-/function-like macros with #, ##, nesting, '
        'self-reference; token sequence compared with gcc -E -P')
EXPLANATION = ('Coq: OP_MAP precedence-climbing parser = C grammar parser on all operator sequences up to length 3 '
               '(bounded, vm_compute) and #if evaluation = intmax_t arithmetic on all signed expressions of depth <= 2 '
               'over a boundary pool (bounded) with / and % fixed; refuted theorems document floor-/, Python-% and missing '
               'unsigned arithmetic. NOT modelled: macro expansion (hide sets, #, ##, rescanning), includes, '
               'pragmas, line splicing, `defined`, identifiers and character constants in #if.')
TRUSTED = ['tools/py2coq.py + the OP_MAP extractor (operator.X rendered as the Python infix operator it implements)',
           'hand model Model/PPIf.v (cross-checked per run against the recorded real parse tree and value)',
           'gcc -E -P as a conforming preprocessor (search oracle only)']
ASSUMPTIONS = ['unsigned (`u` suffixed) #if arithmetic is a known finding: the parser drops the suffix',
               'shift counts in generated #if lines are small non-negative literals']

OPERATOR_SRC = {'mul': 'x * y', 'floordiv': 'x // y', 'mod': 'x % y', 'add': 'x + y', 'sub': 'x - y',
                'lshift': 'x << y', 'rshift': 'x >> y', 'and_': 'x & y', 'xor': 'x ^ y', 'or_': 'x | y'}


# ------------------------------------------------------------------ regen
def regen(ctx):
    pyfile = os.path.join(REPO, 'ppci/lang/c/preprocessor.py')
    try:
        tree = ast.parse(open(pyfile).read())
        fns = {n.name: n for n in tree.body if isinstance(n, ast.FunctionDef)}
        cls = [n for n in tree.body if isinstance(n, ast.ClassDef) and n.name == 'CPreProcessor'][0]
        om = [s for s in cls.body if isinstance(s, ast.Assign) and isinstance(s.targets[0], ast.Name)
              and s.targets[0].id == 'OP_MAP']
        if len(om) != 1 or not isinstance(om[0].value, ast.Dict):
            raise py2coq.Unsupported('OP_MAP is not a single dict literal')
        parts, entries, rows = [], [], []
        for h in ('c_div', 'c_rem'):
            if h in fns:
                parts.append(ast.unparse(fns[h]))
                entries.append({'name': h})
        for i, (k, v) in enumerate(zip(om[0].value.keys, om[0].value.values)):
            if not (isinstance(k, ast.Constant) and isinstance(k.value, str) and isinstance(v, ast.Tuple)
                    and len(v.elts) == 3 and isinstance(v.elts[0], ast.Constant) and isinstance(v.elts[1], ast.Constant)):
                raise py2coq.Unsupported('OP_MAP entry shape')
            prio, rassoc, fn = v.elts[0].value, v.elts[1].value, v.elts[2]
            name = 'op_%d' % i
            if isinstance(fn, ast.Constant) and fn.value is None:
                rows.append((k.value, prio, rassoc, None))
                continue
            if isinstance(fn, ast.Attribute) and isinstance(fn.value, ast.Name) and fn.value.id == 'operator' \
                    and fn.attr in OPERATOR_SRC:
                parts.append('def %s(x, y):\n    return %s\n' % (name, OPERATOR_SRC[fn.attr]))
            elif isinstance(fn, ast.Lambda) and len(fn.args.args) == 2:
                parts.append('def %s(%s):\n    return %s\n' % (name, ', '.join(a.arg for a in fn.args.args),
                                                               ast.unparse(fn.body)))
            elif isinstance(fn, ast.Name) and fn.id in fns and fn.id in ('c_div', 'c_rem'):
                rows.append((k.value, prio, rassoc, fn.id))
                continue
            else:
                raise py2coq.Unsupported('OP_MAP[%r] function %s' % (k.value, ast.unparse(fn)))
            entries.append({'name': name})
            rows.append((k.value, prio, rassoc, name))
        syn = os.path.join(ctx.work, 'ppif_syn.py')
        with open(syn, 'w') as f:
            f.write('\n\n'.join(parts))
        text, infos, hashes = py2coq.translate_module(syn, entries, ['From Coq Require Import String.'])
    except (py2coq.Unsupported, SyntaxError, OSError, IndexError) as ex:
        ctx.log('cannot regenerate Gen/ppif.v: %s' % ex)
        ctx.failed_stages.append(('translate', 'ppci/lang/c/preprocessor.py: %s' % ex))
        raise TieBroken(str(ex))
    text = text.replace(os.path.relpath(syn, '/repo'), 'ppci/lang/c/preprocessor.py (CPreProcessor.OP_MAP)')
    lines = []
    for k, prio, rassoc, name in rows:
        if name is None:
            f = 'None'
        elif infos[name].pure:
            f = 'Some (fun x y => Ok (%s x y))' % py2coq.cname(name)
        else:
            f = 'Some (fun x y => %s x y)' % py2coq.cname(name)
        lines.append('  ("%s"%%string, (%d, %s, %s))' % (k, prio, 'true' if rassoc else 'false', f))
    text += '\n\nDefinition op_map : list (string * (Z * bool * option (Z -> Z -> result Z))) := [\n%s].\n' % ';\n'.join(lines)
    changed = ctx.write_gen('ppif', text)
    ctx.cov['stages']['gen_ppif'] = {'file': 'ppci/lang/c/preprocessor.py', 'functions': hashes,
                                     'changed_on_disk': changed, 'ops': [r[0] for r in rows]}
    return rows
