"""C26 — C preprocessor agrees with a conforming preprocessor; proved part: the `#if` core (DESIGN §4 C26).

Spec: coq/Spec/CIntSpec.v (pp_eval: intmax_t/uintmax_t arithmetic) and Spec/CPPGrammar.v (C grammar).
Model: Gen/ppif.v (tie T/I: CPreProcessor.OP_MAP extracted with `ast`; operator.* entries and lambdas are
rendered as Python source and translated by py2coq together with the module functions c_div/c_rem),
Model/PPIf.v (tie H: parse_expression / _binop_take / _eval_tree). Macro expansion is NOT modelled: it is
covered by a search-only differential test against `gcc -E -P` (validation, not proof).
"""
import ast
import io
import os
import re
import subprocess
import sys
import tempfile

sys.path.insert(0, os.path.dirname(os.path.abspath(__file__)))
import cintspec as S  # noqa: E402
from vlib import OkV, Diag, Internal, TieBroken, REPO  # noqa: E402
import py2coq  # noqa: E402

LEVEL = 'other'
RULE = ('#if lines: random expression trees (depth <= 5, all unary/binary operators and ?:, literals from 64-bit '
        'boundary pools, signed and `u`-suffixed) rendered with full or minimal parentheses and fed to '
        'ppci.api.preprocess as `#if E / yes / #else / no / #endif`; the parse tree and value are recorded by '
        'wrapping parse_expression/_eval_tree; distinct non-trivial = distinct expression text with >= 1 operator '
        'whose C value is defined. Macro sets: generated object-/function-like macros with #, ##, nesting, '
        'self-reference; token sequence compared with gcc -E -P')
EXPLANATION = ('Coq: OP_MAP precedence-climbing parser = C grammar parser on all operator sequences up to length 3 '
               '(bounded, vm_compute) and #if evaluation = intmax_t arithmetic on all signed expressions of depth <= 2 '
               'over a boundary pool (bounded) with / and % fixed; refuted theorems document floor-/, Python-% and missing '
               'unsigned arithmetic. NOT modelled: macro expansion (hide sets, #, ##, rescanning), includes, '
               'pragmas, line splicing, `defined`, identifiers and character constants in #if.')
TRUSTED = ['tools/py2coq.py + the OP_MAP extractor (operator.X rendered as the Python infix operator it implements)',
           'hand model Model/PPIf.v (cross-checked per run against the recorded real parse tree and value)',
           'gcc -E -P as a conforming preprocessor (search oracle only)']
ASSUMPTIONS = ['unsigned (`u` suffixed) #if arithmetic is a known finding: the parser drops the suffix',
               'shift counts in generated #if lines are small non-negative literals']

OPERATOR_SRC = {'mul': 'x * y', 'floordiv': 'x // y', 'mod': 'x % y', 'add': 'x + y', 'sub': 'x - y',
                'lshift': 'x << y', 'rshift': 'x >> y', 'and_': 'x & y', 'xor': 'x ^ y', 'or_': 'x | y'}


# ------------------------------------------------------------------ regen
def regen(ctx):
    pyfile = os.path.join(REPO, 'ppci/lang/c/preprocessor.py')
    try:
        tree = ast.parse(open(pyfile).read())
        fns = {n.name: n for n in tree.body if isinstance(n, ast.FunctionDef)}
        cls = [n for n in tree.body if isinstance(n, ast.ClassDef) and n.name == 'CPreProcessor'][0]
        om = [s for s in cls.body if isinstance(s, ast.Assign) and isinstance(s.targets[0], ast.Name)
              and s.targets[0].id == 'OP_MAP']
        if len(om) != 1 or not isinstance(om[0].value, ast.Dict):
            raise py2coq.Unsupported('OP_MAP is not a single dict literal')
        parts, entries, rows = [], [], []
        for h in ('c_div', 'c_rem'):
            if h in fns:
                parts.append(ast.unparse(fns[h]))
                entries.append({'name': h})
        for i, (k, v) in enumerate(zip(om[0].value.keys, om[0].value.values)):
            if not (isinstance(k, ast.Constant) and isinstance(k.value, str) and isinstance(v, ast.Tuple)
                    and len(v.elts) == 3 and isinstance(v.elts[0], ast.Constant) and isinstance(v.elts[1], ast.Constant)):
                raise py2coq.Unsupported('OP_MAP entry shape')
            prio, rassoc, fn = v.elts[0].value, v.elts[1].value, v.elts[2]
            name = 'op_%d' % i
            if isinstance(fn, ast.Constant) and fn.value is None:
                rows.append((k.value, prio, rassoc, None))
                continue
            if isinstance(fn, ast.Attribute) and isinstance(fn.value, ast.Name) and fn.value.id == 'operator' \
                    and fn.attr in OPERATOR_SRC:
                parts.append('def %s(x, y):\n    return %s\n' % (name, OPERATOR_SRC[fn.attr]))
            elif isinstance(fn, ast.Lambda) and len(fn.args.args) == 2:
                parts.append('def %s(%s):\n    return %s\n' % (name, ', '.join(a.arg for a in fn.args.args),
                                                               ast.unparse(fn.body)))
            elif isinstance(fn, ast.Name) and fn.id in fns and fn.id in ('c_div', 'c_rem'):
                rows.append((k.value, prio, rassoc, fn.id))
                continue
            else:
                raise py2coq.Unsupported('OP_MAP[%r] function %s' % (k.value, ast.unparse(fn)))
            entries.append({'name': name})
            rows.append((k.value, prio, rassoc, name))
        syn = os.path.join(ctx.work, 'ppif_syn.py')
        with open(syn, 'w') as f:
            f.write('\n\n'.join(parts))
        text, infos, hashes = py2coq.translate_module(syn, entries, ['From Coq Require Import String.'])
    except (py2coq.Unsupported, SyntaxError, OSError, IndexError) as ex:
        ctx.log('cannot regenerate Gen/ppif.v: %s' % ex)
        ctx.failed_stages.append(('translate', 'ppci/lang/c/preprocessor.py: %s' % ex))
        raise TieBroken(str(ex))
    text = text.replace(os.path.relpath(syn, '/repo'), 'ppci/lang/c/preprocessor.py (CPreProcessor.OP_MAP)')
    lines = []
    for k, prio, rassoc, name in rows:
        if name is None:
            f = 'None'
        elif infos[name].pure:
            f = 'Some (fun x y => Ok (%s x y))' % py2coq.cname(name)
        else:
            f = 'Some (fun x y => %s x y)' % py2coq.cname(name)
        lines.append('  ("%s"%%string, (%d, %s, %s))' % (k, prio, 'true' if rassoc else 'false', f))
    text += '\n\nDefinition op_map : list (string * (Z * bool * option (Z -> Z -> result Z))) := [\n%s].\n' % ';\n'.join(lines)
    changed = ctx.write_gen('ppif', text)
    ctx.cov['stages']['gen_ppif'] = {'file': 'ppci/lang/c/preprocessor.py', 'functions': hashes,
                                     'changed_on_disk': changed, 'ops': [r[0] for r in rows]}
    return rows


# ------------------------------------------------------------------ driving the real preprocessor
def run_if(expr_text):
    """-> (exported parse tree or None, value outcome OkV/Diag/Internal, branch 'yes'/'no'/None, detail)"""
    from ppci.lang.c.preprocessor import CPreProcessor
    from ppci.lang.c.nodes import expressions as ex
    from ppci.api import preprocess
    from ppci.common import CompilerError
    rec = {'depth': 0, 'tree': None, 'edepth': 0}
    orig_parse, orig_eval = CPreProcessor.parse_expression, CPreProcessor._eval_tree

    def parse(self, priority=0):
        rec['depth'] += 1
        try:
            t = orig_parse(self, priority)
        finally:
            rec['depth'] -= 1
        if rec['depth'] == 0:
            rec['tree'] = t
        return t

    def evalt(self, expr):
        rec['edepth'] += 1
        try:
            v = orig_eval(self, expr)
        finally:
            rec['edepth'] -= 1
        if rec['edepth'] == 0:
            rec['value'] = v
        return v

    def export(n):
        if isinstance(n, ex.NumericLiteral):
            return ('num', n.value)
        if isinstance(n, ex.UnaryOperator):
            return ('un', n.op, export(n.a))
        if isinstance(n, ex.BinaryOperator):
            return ('bin', export(n.a), n.op, export(n.b))
        if isinstance(n, ex.TernaryOperator):
            return ('tern', export(n.a), export(n.b), export(n.c))
        raise KeyError(type(n).__name__)
    CPreProcessor.parse_expression, CPreProcessor._eval_tree = parse, evalt
    out = io.StringIO()
    try:
        preprocess(io.StringIO('#if %s\nyes\n#else\nno\n#endif\n' % expr_text), out)
        outcome, detail = OkV(rec.get('value')), ''
    except CompilerError as e:
        outcome, detail = Diag, 'CompilerError: %s' % e.msg
    except RecursionError:
        outcome, detail = Internal, 'RecursionError'
    except Exception as e:   # noqa: BLE001
        outcome, detail = Internal, '%s: %s' % (type(e).__name__, str(e)[:80])
    finally:
        CPreProcessor.parse_expression, CPreProcessor._eval_tree = orig_parse, orig_eval
    try:
        tree = export(rec['tree']) if rec['tree'] is not None else None
    except KeyError:
        tree = None
    toks = out.getvalue().split()
    branch = 'yes' if 'yes' in toks else ('no' if 'no' in toks else None)
    return tree, outcome, branch, detail


PREC = {'*': 11, '/': 11, '%': 11, '+': 10, '-': 10, '<<': 9, '>>': 9, '<': 8, '>': 8, '<=': 8, '>=': 8,
        '==': 7, '!=': 7, '&': 6, '^': 5, '|': 4, '&&': 3, '||': 2}


def tokens(e, minimal, prio=0, right=False):
    """token list of a pp expression; minimal = only the parentheses the C grammar needs"""
    k = e[0]
    if k == 'lit':
        t = [('num', e[2], e[1] == 'ullong')] if e[2] >= 0 else ['-', ('num', -e[2], e[1] == 'ullong')]
        return ['('] + t + [')'] if (e[2] < 0 and (not minimal or prio >= 12)) else t
    if k == 'un':
        t = [e[1]] + tokens(e[2], minimal, 12)
        return t if (minimal and prio <= 12) else ['('] + t + [')']
    if k == 'bin':
        p = PREC[e[1]]
        t = tokens(e[2], minimal, p, False) + [e[1]] + tokens(e[3], minimal, p, True)
        need = (not minimal) or p < prio or (p == prio and right)
        return ['('] + t + [')'] if need else t
    t = tokens(e[1], minimal, 2) + ['?'] + tokens(e[2], minimal, 0) + [':'] + tokens(e[3], minimal, 1, True)
    need = (not minimal) or prio > 1 or (prio == 1 and not right)
    return ['('] + t + [')'] if need else t


def text_of(toks):
    return ' '.join(('%d%s' % (t[1], 'u' if t[2] else '')) if isinstance(t, tuple) else t for t in toks)


def coq_toks(toks, model):
    if model:
        return '[%s]' % '; '.join('TNum %d' % t[1] if isinstance(t, tuple) else 'TSym "%s"%%string' % t for t in toks)
    return '[%s]' % '; '.join('GNum %s %d' % ('true' if t[2] else 'false', t[1]) if isinstance(t, tuple)
                              else 'GSym "%s"%%string' % t for t in toks)


def desugar_pp(e):
    """the tree a C parser builds for the rendered text: negative literals are unary minus"""
    k = e[0]
    if k == 'lit':
        return e if e[2] >= 0 else ('un', '-', ('lit', e[1], -e[2]))
    if k == 'un':
        return ('un', e[1], desugar_pp(e[2]))
    if k == 'bin':
        return ('bin', e[1], desugar_pp(e[2]), desugar_pp(e[3]))
    return ('cond',) + tuple(desugar_pp(x) for x in e[1:])


def has_unsigned(e):
    return (e[0] == 'lit' and e[1] == 'ullong') or any(has_unsigned(x) for x in e[1:] if isinstance(x, tuple))


def gen_if_cases(ctx, n, depth):
    rng = ctx.rng
    out = []
    for i in range(n):
        types = ['llong'] if rng.random() < 0.7 else ['llong', 'ullong']
        e = S.gen_expr(rng, S.DM_PP, rng.randint(1, depth), types=types, pp=True, small=rng.random() < 0.5)
        # INTMAX_MIN has no literal: keep literals > INTMAX_MIN
        out.append((e, rng.random() < 0.5))
    return out + gen_ternary_cases(rng, max(40, n // 4))


def gen_ternary_cases(rng, n):
    """nested conditionals in condition-, then- and else-position with binary operators of every priority around them
    (rendered with minimal parentheses: a ? b : c ? d : e is a ? b : (c ? d : e))"""
    ops = list(PREC)
    def lit():
        return ('lit', 'llong', rng.choice([0, 1, 2, 3, 5, 7]))
    def operand(d):
        r = rng.random()
        if d <= 0 or r < 0.3:
            return lit()
        if r < 0.75:
            return cond(d - 1)
        op = rng.choice(ops)
        b = lit() if op in ('<<', '>>') else operand(d - 1)
        return ('bin', op, operand(d - 1), b)
    def cond(d):
        return ('cond', operand(d), operand(d), operand(d))
    out = []
    for _ in range(n):
        e = cond(2)
        if rng.random() < 0.5:
            e = ('bin', rng.choice(ops), e, lit()) if rng.random() < 0.5 else ('bin', rng.choice([o for o in ops if o not in ('<<', '>>')]), lit(), e)
        out.append((e, True))
    return out


def fix_min(e):
    if e[0] == 'lit':
        return ('lit', e[1], e[2] + 1) if e[2] == -(1 << 63) else e
    return (e[0],) + tuple(fix_min(x) if isinstance(x, tuple) else x for x in e[1:])


# ------------------------------------------------------------------ macro expansion: differential vs gcc -E -P
TOK_RE = re.compile(r'"(?:[^"\\]|\\.)*"|\'(?:[^\'\\]|\\.)*\'|[A-Za-z_][A-Za-z_0-9]*|\d[\w.]*|<<=|>>=|\.\.\.|##|'
                    r'<<|>>|<=|>=|==|!=|&&|\|\||->|\+\+|--|[-+*/%&|^~!<>=?:;,.(){}\[\]#]')


def lex(text):
    return TOK_RE.findall(text)


def gen_macro_program(rng, safe=False):
    """object-like and function-like macros with #, ##, nesting and self reference; then uses.
    safe: no self reference / recursion, no # operator, ## only between identifiers (the region where ppci
    agrees with gcc on the unchanged tree: every mismatch there is a violation)"""
    names = ['A', 'B', 'C', 'F', 'G', 'H']
    atoms = ['1', '2', 'x', 'y', 'q', '+', '-', '(', ')', 'p']
    lines, defs = [], {}
    for nm in names:
        kind = rng.choice(['obj', 'fn1', 'fn2'])
        prev = list(defs)
        if kind == 'obj':
            body = []
            for _ in range(rng.randint(1, 4)):
                r = rng.random()
                if r < 0.35 and prev:
                    p = rng.choice(prev)
                    body.append(p if defs[p] == 0 else '%s(%s)' % (p, ', '.join(rng.choice(['1', 'z', '2 3'])
                                                                                 for _ in range(defs[p]))))
                elif r < 0.45 and not safe:
                    body.append(nm)          # self reference: must not be re-expanded
                else:
                    body.append(rng.choice(['1', '2', 'x', 'q', '+', '-']))
            lines.append('#define %s %s' % (nm, ' '.join(body)))
            defs[nm] = 0
        else:
            params = ['a'] if kind == 'fn1' else ['a', 'b']
            body = []
            for _ in range(rng.randint(1, 4)):
                r = rng.random()
                if r < 0.3:
                    body.append(rng.choice(params))
                elif r < 0.42 and not safe:
                    body.append('#' + rng.choice(params))
                elif r < 0.54:
                    body.append('k ## j' if safe else '%s ## %s' % (rng.choice(params + ['k']), rng.choice(params + ['7'])))
                elif r < 0.7 and prev:
                    p = rng.choice(prev)
                    body.append(p if defs[p] == 0 else '%s(%s)' % (p, ', '.join(rng.choice(params) for _ in range(defs[p]))))
                elif r < 0.78 and not safe:
                    body.append('%s(%s)' % (nm, ', '.join(params)))   # recursion: stays unexpanded
                else:
                    body.append(rng.choice(['1', '+', 'x', '(', ')']) if r < 0.9 else 'w')
            # keep parentheses balanced in the body
            bt = ' '.join(body)
            if bt.count('(') != bt.count(')'):
                bt = bt.replace('( ', '').replace(' )', '').replace('(', '').replace(')', '') if False else \
                    ' '.join(t for t in body if t not in ('(', ')'))
            lines.append('#define %s(%s) %s' % (nm, ', '.join(params), bt or 'a'))
            defs[nm] = len(params)
    for _ in range(rng.randint(2, 5)):
        p = rng.choice(names)
        if defs[p] == 0:
            lines.append('%s ;' % p)
        else:
            args = []
            for _ in range(defs[p]):
                q = rng.choice(names + ['1', 'x y', 'm', '(1, 2)'])
                if q in defs and defs[q] > 0 and rng.random() < 0.6:
                    q = '%s(%s)' % (q, ', '.join(rng.choice(['1', 'x', 'A' if defs.get('A') == 0 else '3'])
                                                 for _ in range(defs[q])))
                args.append(q)
            lines.append('%s(%s) ;' % (p, ', '.join(args)))
    return '\n'.join(lines) + '\n'


def gen_paste_program(rng):
    """## and # whose operands are macro names (object- and function-like), left and right of ##: the operands of
    ## / # must NOT be macro-expanded (C11 6.10.3.1p1), the result of ## is rescanned. Pastes only form identifiers
    (identifier ## identifier/number) so that the known pp-number finding is not touched."""
    lines = ['#define N 4', '#define M N', '#define Nx 100', '#define xN 200', '#define NM 300', '#define FN(a) a + 1',
             '#define FNx 400', '#define xFN(a) a - 1', '#define CAT(a, b) a ## b', '#define CAT3(a, b, c) a ## b ## c',
             '#define LCAT(a) a ## _t', '#define RCAT(a) pre_ ## a', '#define STR(a) #a', '#define XSTR(a) STR(a)',
             '#define BOTH(a, b) a ## b a b #a', '#define XCAT(a, b) CAT(a, b)']
    names = ['N', 'M', 'FN', 'x', 'q']
    for _ in range(rng.randint(4, 8)):
        k = rng.randrange(9)
        a, b, c = rng.choice(names), rng.choice(names + ['7']), rng.choice(names + ['2'])
        if k == 0:
            lines.append('CAT(%s, %s) ;' % (a, b))
        elif k == 1:
            lines.append('CAT3(%s, %s, %s) ;' % (a, b, c))
        elif k == 2:
            lines.append('LCAT(%s) RCAT(%s) ;' % (a, rng.choice(names)))
        elif k == 3:
            lines.append('STR(%s) XSTR(%s) ;' % (a, rng.choice(['N', 'M', 'x'])))
        elif k == 4:
            lines.append('BOTH(%s, %s) ;' % (a, rng.choice(['N', 'M', 'x', 'q'])))
        elif k == 5:
            lines.append('XCAT(%s, %s) ;' % (rng.choice(['x', 'q', 'FN']), b))   # left operand must stay an identifier
        elif k == 6:
            lines.append('CAT(%s, %s)(3) ;' % (rng.choice(['x', 'F']), rng.choice(['FN', 'N'])))
        elif k == 7:
            lines.append('CAT(N, %s) CAT(%s, N) CAT(M, N) ;' % (rng.choice(['x', 'M']), rng.choice(['x', 'M'])))
        else:
            lines.append('STR(%s) CAT(%s, %s) ;' % (rng.choice(['FN', 'N']), a, b))
    return '\n'.join(lines) + '\n'


def gcc_E(src):
    p = subprocess.run(['gcc', '-E', '-P', '-x', 'c', '-std=c11', '-'], input=src, stdout=subprocess.PIPE,
                       stderr=subprocess.PIPE, text=True, timeout=30)
    return p.stdout if p.returncode == 0 else None


def ppci_E(src):
    from ppci.api import preprocess
    from ppci.common import CompilerError
    out = io.StringIO()
    try:
        preprocess(io.StringIO(src), out)
    except CompilerError as e:
        return None, 'CompilerError: %s' % e.msg
    except RecursionError:
        return None, 'RecursionError'
    except Exception as e:   # noqa: BLE001
        return None, '%s: %s' % (type(e).__name__, str(e)[:80])
    return '\n'.join(l for l in out.getvalue().splitlines() if not l.startswith('# ')), ''


def classify(p, g, detail):
    def norm(toks):
        return [re.sub(r'\s+', '', t) if t.startswith('"') else t for t in toks]
    if p is None:
        return 'paste' if 'glued' in detail else 'error'
    if norm(lex(p)) == norm(lex(g)):
        return 'stringify-spacing'
    return 'rescan'


def macro_differential(ctx, n):
    """strict stream (safe programs: every mismatch is a violation) + full stream (known classes tolerated)"""
    stats = {'programs': 0, 'agree': 0, 'gcc_rejects': 0, 'strict_programs': 0, 'strict_differ': 0, 'classes': {}}
    for i in range(2 * n):
        safe = i % 2 == 0
        src = gen_paste_program(ctx.rng) if i % 4 == 0 else gen_macro_program(ctx.rng, safe)
        g = gcc_E(src)
        if g is None:
            stats['gcc_rejects'] += 1
            continue
        stats['programs'] += 1
        stats['strict_programs'] += int(safe)
        ctx.cov['evaluations'] += 1
        p, detail = ppci_E(src)
        if p is not None and lex(p) == lex(g):
            stats['agree'] += 1
            continue
        cls = classify(p, g, detail)
        rec = {'fn': 'macro expansion vs gcc -E -P', 'args': [src], 'expected': ' '.join(lex(g)),
               'actual': ' '.join(lex(p)) if p is not None else detail,
               'how_to_replay': 'printf %r | gcc -E -P -x c - ; compare with ppci.api.preprocess' % src}
        if safe:
            stats['strict_differ'] += 1
            rec['key'] = 'macro-strict'
        else:
            stats['classes'][cls] = stats['classes'].get(cls, 0) + 1
            rec['class'] = cls
            rec['key'] = 'macro-' + cls
        ctx.violation(rec)
    ctx.cov['stages']['macro_differential_vs_gcc'] = stats
    return stats


# ------------------------------------------------------------------ run
KNOWN_UNSIGNED = [('-1 < 0u', 0), ('(2 - 3u) > 0', 1), ('(1 ? -1 : 0u) < 0', 0)]
FIXED_WITNESSES = [('(1 ? 0 : 0 ? 5 : 7) == 0', 1), ('(0 ? 1 : 1 ? 2 : 3) == 2', 1), ('-7 / 2 == -3', 1), ('-7 % 2 == -1', 1), ('7 / -2 == -3', 1), ('7 % -2 == 1', 1)]


def is_fixed_tree():
    return 'def c_div' in open(os.path.join(REPO, 'ppci/lang/c/preprocessor.py')).read()


def search(ctx, cases=None):
    deep = (not ctx.quick()) or bool(ctx.failed_stages)
    stats = {'agree': 0, 'undefined': 0, 'unsigned_deviation': 0, 'violations': 0}
    for text, exp in FIXED_WITNESSES:
        _, out, branch, detail = run_if(text)
        ctx.cov['evaluations'] += 1
        if branch != ('yes' if exp else 'no'):
            stats['violations'] += 1
            ctx.violation({'fn': '#if evaluation', 'args': ['#if ' + text], 'expected': 'yes' if exp else 'no',
                           'actual': branch or detail,
                           'how_to_replay': 'ppci.api.preprocess on "#if %s\\nyes\\n#else\\nno\\n#endif"' % text})
    for text, exp in KNOWN_UNSIGNED:
        _, out, branch, detail = run_if(text)
        if branch != ('yes' if exp else 'no'):
            ctx.violation({'fn': '#if unsigned arithmetic', 'class': 'unsigned', 'key': 'unsigned', 'args': ['#if ' + text],
                           'expected': 'yes' if exp else 'no', 'actual': branch or detail})
    if cases is None:
        cases = gen_if_cases(ctx, 1500 if deep else 300, 5)
    nontriv = set()
    for e, minimal in cases:
        e = fix_min(e)
        d = desugar_pp(e)
        v = S.ev(S.DM_PP, d)
        if v is None:
            stats['undefined'] += 1
            continue
        text = text_of(tokens(e, minimal))
        _, out, branch, detail = run_if(text)
        ctx.cov['evaluations'] += 1
        if S.size(d) > 1:
            nontriv.add(text)
        ok = isinstance(out, OkV) and branch == ('yes' if v != 0 else 'no') and \
            (out.v == v or (has_unsigned(d) and (out.v != 0) == (v != 0)))
        if ok:
            stats['agree'] += 1
        elif has_unsigned(d):
            stats['unsigned_deviation'] += 1
            ctx.violation({'fn': '#if unsigned arithmetic', 'class': 'unsigned', 'key': 'unsigned', 'args': ['#if ' + text],
                           'expected': v, 'actual': out.v if isinstance(out, OkV) else detail})
        else:
            stats['violations'] += 1
            ctx.violation({'fn': '#if evaluation', 'args': ['#if ' + text], 'expected': v,
                           'actual': out.v if isinstance(out, OkV) else detail,
                           'how_to_replay': 'ppci.api.preprocess on "#if %s\\nyes\\n#else\\nno\\n#endif"' % text})
    ctx.cov['distinct_nontrivial'] += len(nontriv)
    ctx.cov['stages']['search_if'] = stats
    macro_differential(ctx, 400 if deep else 60)
    return cases


def correspondence(ctx, cases):
    """real parse tree / value vs Model.PPIf; C grammar parser vs the Python tree; Coq pp_eval vs Python oracle"""
    cc, recs = [], []
    for e, minimal in cases:
        e = fix_min(e)
        toks = tokens(e, minimal)
        text = text_of(toks)
        tree, out, branch, detail = run_if(text)
        if tree is not None:
            cc.append(('parse_line 200 %s' % coq_toks(toks, True), OkV(tree)))
            recs.append(('parse', text))
        if out is not Diag and tree is not None:
            cc.append(('v <- parse_line 200 %s ;; eval_tree v' % coq_toks(toks, True), out))
            recs.append(('eval', text))
        d = desugar_pp(e)
        cc.append(('match g_parse 200 %s with Some e => pp_eval e | None => Some 424242 end' % coq_toks(toks, False),
                   S.ev(S.DM_PP, d)))
        recs.append(('spec', text))
    bad = ctx.run_cases('ppif', ['Spec.CIntSpec', 'Spec.CPPGrammar', 'Model.PPIf'], cc)
    if bad:
        for i in bad[:5]:
            ctx.log('disagreement:', recs[i])
        ctx.failed_stages.append(('correspondence', 'model / oracle disagreement on %d cases, first: %r' % (len(bad), recs[bad[0]])))


def run(ctx):
    fixed = is_fixed_tree()
    ctx.cov['stages']['tree'] = 'fixed (fixes/C26-if-division.diff applied)' if fixed else 'UNFIXED'
    regen(ctx)
    ok, _ = ctx.build(['Proofs/C26_ppif.vo'])
    if ok:
        ctx.check_props('Props/C26.v')
    deep = not ctx.quick()
    cases = gen_if_cases(ctx, 1200 if deep else 250, 5)
    if ctx.build(['Model/PPIf.vo', 'Spec/CPPGrammar.vo', 'Lib/Val.vo'])[0]:
        correspondence(ctx, cases)
    for e, m in cases[:: max(1, len(cases) // 6)]:
        ctx.note_sample({'if': text_of(tokens(fix_min(e), m))})
    search(ctx, cases if not deep else None)
    ctx.cov['exhaustive'] = False


MANIFEST = {
    'text': 'partial: for the #if core of the C preprocessor, Coq theorems (bounded, vm_compute) that the precedence-climbing '
            'parser driven by OP_MAP builds the C-grammar parse for every sequence of <= 3 of its 19 operators (plus unary '
            'prefixes and parenthesised pairs) and that evaluation equals intmax_t arithmetic on all signed expressions of '
            'depth <= 1 over 9 boundary values and a depth-2 family, with / and % truncating (fixes/C26-if-division.diff); '
            'refuted theorems record floor division / Python modulo (fixed) and the missing unsigned arithmetic (known finding). '
            'Macro expansion (hide sets, #, ##, rescanning) is NOT proved: it is validated by a differential test of generated '
            'macro sets against gcc -E -P (search only).',
    'note': 'trusted: Coq kernel; OP_MAP extractor + py2coq (regenerated per run); hand model of parse_expression/_eval_tree '
            'cross-checked per run against the recorded real parse tree and value; gcc as conforming oracle for macros. '
            'Not modelled: macro expansion, includes, pragmas, line splicing, `defined`, identifiers/character constants in #if. No axioms.',
    'technique': 'bounded Coq proof over regenerated operator table + differential correspondence + gcc -E differential (validation)',
}
