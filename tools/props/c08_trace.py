"""C08 exporter: symbolic tracing of Instruction.encode() into write-list descriptors (tie I).

Every operand of an instruction class is replaced by a symbolic value (an int subclass / a register
copy whose .num is symbolic); Token.__setitem__ is replaced by a recorder while the REAL encode()
of the class runs (declarative patterns, bit_concat setters, Transform.forwards, custom encode()
bodies alike).  What reaches the recorder is a list of slice writes whose values are constants or
bit selections of (operand // div - sub).  Anything the abstract domain cannot express raises
TraceFail and the class is exported as `custom` with the reason."""
import sys, copy, itertools, collections
from vlib import ensure_repo_on_path
ensure_repo_on_path()



class TraceFail(Exception):
    pass


# abstract values:  Raw(i, div, sub, shift)  = (ops[i] // div - sub) >> shift   (unbounded, maybe negative)
#                   Bits([...])  non-negative finite; each bit: 0 | 1 | (i, div, sub, k)
class Sym(int):
    def __new__(cls, kind, data):
        o = int.__new__(cls, 0)
        o.kind = kind
        o.data = data
        return o

    @staticmethod
    def raw(i):
        return Sym('raw', (i, 1, 0, 0))

    @staticmethod
    def bits(bl):
        bl = list(bl)
        while bl and bl[-1] == 0:
            bl.pop()
        return Sym('bits', tuple(bl))

    @staticmethod
    def lift(v):
        if isinstance(v, Sym):
            return v
        if isinstance(v, bool):
            v = int(v)
        if type(v) is int:
            if v < 0:
                raise TraceFail('negative constant in bit op')
            return Sym.bits([(v >> k) & 1 for k in range(v.bit_length())])
        raise TraceFail('lift %r' % (v,))

    def _fail(self, *a, **k):
        raise TraceFail('unsupported operation on symbolic value')

    __eq__ = __ne__ = __lt__ = __le__ = __gt__ = __ge__ = _fail
    __bool__ = __index__ = __int__ = __float__ = __hash__ = _fail
    __mul__ = __rmul__ = __mod__ = __rmod__ = __truediv__ = __rtruediv__ = _fail
    __neg__ = __invert__ = __abs__ = __pow__ = __rpow__ = __xor__ = __rxor__ = _fail
    __rfloordiv__ = __rsub__ = __rlshift__ = __rrshift__ = __divmod__ = __rdivmod__ = _fail
    __repr__ = __str__ = lambda self: 'Sym(%s,%r)' % (self.kind, self.data)
    __format__ = lambda self, spec: repr(self)

    def __rshift__(self, s):
        if isinstance(s, Sym) or not isinstance(s, int) or s < 0:
            raise TraceFail('shift by non-constant')
        if self.kind == 'raw':
            i, d, b, sh = self.data
            return Sym('raw', (i, d, b, sh + s))
        return Sym.bits(self.data[s:])

    def __lshift__(self, s):
        if isinstance(s, Sym) or not isinstance(s, int) or s < 0:
            raise TraceFail('shift by non-constant')
        if self.kind == 'raw':
            raise TraceFail('left shift of unbounded operand')
        return Sym.bits((0,) * s + self.data)

    def __and__(self, m):
        if isinstance(m, Sym):
            raise TraceFail('and of two symbolic values')
        if not isinstance(m, int) or m < 0:
            raise TraceFail('and with negative mask')
        if self.kind == 'raw':
            i, d, b, sh = self.data
            return Sym.bits([(i, d, b, sh + k) if (m >> k) & 1 else 0 for k in range(m.bit_length())])
        return Sym.bits([x if (m >> k) & 1 else 0 for k, x in enumerate(self.data)])
    __rand__ = __and__

    def __or__(self, o):
        o = Sym.lift(o)
        if self.kind == 'raw' or o.kind == 'raw':
            raise TraceFail('or with unbounded operand')
        n = max(len(self.data), len(o.data))
        a = self.data + (0,) * (n - len(self.data))
        b = o.data + (0,) * (n - len(o.data))
        out = []
        for x, y in zip(a, b):
            if x == 0:
                out.append(y)
            elif y == 0:
                out.append(x)
            elif x == 1 or y == 1:
                out.append(1) if (x == 1 and y == 1) else (_ for _ in ()).throw(TraceFail('or of const 1 with variable bit'))
            else:
                raise TraceFail('or of overlapping variable bits')
        return Sym.bits(out)
    __ror__ = __or__

    def _affine(self, div, sub):
        if self.kind != 'raw' or self.data[3] != 0:
            raise TraceFail('arithmetic on a partial operand')
        i, d, b, sh = self.data
        # (x//d - b)//div - sub ; only compose when b == 0 or div == 1
        if div != 1 and b != 0:
            raise TraceFail('division after subtraction')
        return Sym('raw', (i, d * div, b + sub, 0))

    def __add__(self, c):
        if isinstance(c, Sym):
            # disjoint add == or
            if self.kind == 'bits' and c.kind == 'bits':
                for x, y in zip(self.data, c.data):
                    if x != 0 and y != 0:
                        raise TraceFail('add of overlapping bits')
                return self | c
            raise TraceFail('add of symbolic values')
        if self.kind == 'bits':
            cc = Sym.lift(c)
            for x, y in zip(self.data, cc.data):
                if x != 0 and y != 0:
                    raise TraceFail('add of overlapping bits')
            return self | cc
        return self._affine(1, -c)
    __radd__ = __add__

    def __sub__(self, c):
        if isinstance(c, Sym):
            raise TraceFail('sub of symbolic values')
        return self._affine(1, c)

    def __floordiv__(self, c):
        if isinstance(c, Sym) or c <= 0:
            raise TraceFail('div by non-constant')
        return self._affine(c, 0)


class Poison:
    def _fail(self, *a, **k):
        raise TraceFail('token read during encode')
    __eq__ = __ne__ = __lt__ = __le__ = __gt__ = __ge__ = __bool__ = __index__ = __int__ = __hash__ = _fail
    def _same(self, *a, **k):
        return self
    __add__ = __radd__ = __sub__ = __rsub__ = __and__ = __rand__ = __or__ = __ror__ = __xor__ = __rxor__ = _same
    __lshift__ = __rlshift__ = __rshift__ = __rrshift__ = __mul__ = __rmul__ = __invert__ = __neg__ = _same
    __str__ = __repr__ = __format__ = _fail


import contextlib
from ppci.arch import token as _tokmod
from ppci.arch.token import Token
from ppci.arch.arch_info import Endianness


@contextlib.contextmanager
def tracing(rec):
    o_init, o_set, o_get, o_bit, o_enc = Token.__init__, Token.__setitem__, Token.__getitem__, Token.set_bit, Token.encode

    def t_init(self, initial_bit_value=0):
        o_init(self, initial_bit_value)
        self._serial = len(rec.created)
        rec.created.append(self)
        if len(rec.created) > 15:
            raise TraceFail('too many tokens')

    def t_set(self, key, value):
        if isinstance(key, slice):
            if key.step is not None or type(key.start) is not int or type(key.stop) is not int:
                raise TraceFail('odd slice')
            lo, w = key.start, key.stop - key.start
        elif type(key) is int:
            lo, w = key, 1
            if isinstance(value, Sym):
                raise TraceFail('set_bit with symbolic value')
            value = 1 if value else 0
        else:
            raise TraceFail('odd key')
        if w <= 0 or lo < 0 or lo + w > self.Info.size:
            raise TraceFail('slice outside token')
        if not isinstance(value, int):
            raise TraceFail('non-int written to token')
        rec.writes.append((self._serial, lo, w, value))

    def t_get(self, key):
        return Poison()      # hasattr(token, field) calls the getter; any real use of the value fails

    def t_bit(self, i, value):
        t_set(self, i, value)

    def t_enc(self):
        n = self.Info.size // 8
        if n > 8:
            raise TraceFail('token larger than 8 bytes')
        return bytes(0x80 | (self._serial << 3) | k for k in range(n))
    Token.__init__, Token.__setitem__, Token.__getitem__, Token.set_bit, Token.encode = t_init, t_set, t_get, t_bit, t_enc
    try:
        yield
    finally:
        Token.__init__, Token.__setitem__, Token.__getitem__, Token.set_bit, Token.encode = o_init, o_set, o_get, o_bit, o_enc


class Rec:
    def __init__(self):
        self.created = []
        self.writes = []


def trace_encode(ins):
    """returns (tokens [(size_bits, 'little'|'big', clsname)], writes [(tokidx, lo, w, value)])"""
    rec = Rec()
    with tracing(rec):
        out = ins.encode()
    if not isinstance(out, (bytes, bytearray)):
        raise TraceFail('encode did not return bytes')
    order = []
    pos = 0
    out = bytes(out)
    while pos < len(out):
        b = out[pos]
        if not (b & 0x80) or (b & 7) != 0:
            raise TraceFail('literal bytes in encode output')
        ser = (b >> 3) & 15
        if ser >= len(rec.created) or ser in order:
            raise TraceFail('unexpected token marker')
        t = rec.created[ser]
        n = t.Info.size // 8
        if out[pos:pos + n] != bytes(0x80 | (ser << 3) | k for k in range(n)):
            raise TraceFail('token bytes split')
        order.append(ser)
        pos += n
    toks = []
    for ser in order:
        t = rec.created[ser]
        toks.append((t.Info.size, 'little' if t.Info.endianness == Endianness.LITTLE else 'big', type(t).__name__))
    idx = {ser: k for k, ser in enumerate(order)}
    writes = []
    for ser, lo, w, v in rec.writes:
        if ser not in idx:
            continue     # written but never emitted
        writes.append((idx[ser], lo, w, v))
    return toks, writes


# ------------------------------------------------------------------ variants (composite operands)
from ppci.arch.encoding import Instruction, Constructor, Operand, VariablePattern
from ppci.arch.registers import Register
from ppci.arch.generic_instructions import VirtualInstruction

MAXCOMB = 400


def sym_reg(regcls, i):
    regs = list(regcls.all_registers())
    r = copy.copy(regs[0])
    r._num = Sym.raw(i)
    r.name = 'op%d' % i
    return r, sorted(set(x.num for x in regs))


def real_reg(regcls, num):
    for r in regcls.all_registers():
        if r.num == num:
            return r
    raise KeyError(num)


def variants(cls, leaves, mk):
    """yield (args, leaves, path) for every combination of composite-operand options.
    mk(kind, operand, index) creates the argument value of a leaf."""
    syn = cls.syntax
    if syn is None:
        raise TraceFail('no syntax')
    fargs = syn.formal_arguments

    def rec(k, args, lv, path):
        if k == len(fargs):
            yield list(args), list(lv), list(path)
            return
        fa = fargs[k]
        c = fa._cls
        if fa.is_constructor:
            opts = list(c) if isinstance(c, tuple) else [c]
            for o in opts:
                for (sub_args, sub_lv, sub_path) in variants(o, lv, mk):
                    inst = o(*sub_args)
                    yield from rec(k + 1, args + [inst], sub_lv, path + [o.__name__] + sub_path)
        else:
            i = len(lv)
            if isinstance(c, type) and issubclass(c, Register):
                nums = sorted(set(x.num for x in c.all_registers()))
                leaf = dict(name=fa._name, kind='reg', cls=c, nums=nums, operand=fa)
            elif c is int:
                leaf = dict(name=fa._name, kind='imm', operand=fa)
            elif c is str:
                leaf = dict(name=fa._name, kind='label', operand=fa)
            else:
                raise TraceFail('operand type %s' % getattr(c, '__name__', c))
            yield from rec(k + 1, args + [mk(leaf, i)], lv + [leaf], path)
    yield from rec(0, [], list(leaves), [])


def mk_sym(leaf, i):
    if leaf['kind'] == 'reg':
        return sym_reg(leaf['cls'], i)[0]
    if leaf['kind'] == 'imm':
        return Sym.raw(i)
    return 'L%d' % i


def signed_fields(ins):
    """set of operand objects bound (declaratively) to a signed token field"""
    out = set()
    toks = []
    for nl in ins.non_leaves:
        toks += list(getattr(nl, 'tokens', []) or [])
    for nl in ins.non_leaves:
        try:
            pats = nl.dict_to_patterns(nl.patterns)
        except Exception:   # noqa: BLE001
            continue
        for p in pats:
            if isinstance(p, VariablePattern):
                for tc in toks:
                    f = getattr(tc, p.field, None)
                    if f is not None and getattr(f, '_signed', False):
                        out.add(id(p.prop.source))
    return out


def normalise(lv, toks, writes, signed_ids):
    """-> dict(tokens, writes [(tok, lo, w, ('c', c) | ('o', i, shift, masked))], ops [...])"""
    out = []
    tr = {}     # operand index -> (div, sub)

    def note_tr(i, d, b):
        if tr.setdefault(i, (d, b)) != (d, b):
            raise TraceFail('operand used under two different transforms')
    for (tok, lo, w, v) in writes:
        if not isinstance(v, Sym):
            out.append((tok, lo, w, ('c', int(v))))
        elif v.kind == 'raw':
            i, d, b, sh = v.data
            note_tr(i, d, b)
            out.append((tok, lo, w, ('o', i, sh, False)))
        else:
            bits = list(v.data)
            if len(bits) > w:
                raise TraceFail('value may exceed the field (no mask of the field width)')
            bits += [0] * (w - len(bits))
            k = 0
            while k < w:
                x = bits[k]
                j = k + 1
                if x in (0, 1):
                    c = x
                    while j < w and bits[j] in (0, 1):
                        c |= bits[j] << (j - k)
                        j += 1
                    out.append((tok, lo + k, j - k, ('c', c)))
                else:
                    i, d, b, sh = x
                    while j < w and bits[j] == (i, d, b, sh + (j - k)):
                        j += 1
                    note_tr(i, d, b)
                    out.append((tok, lo + k, j - k, ('o', i, sh, True)))
                k = j
    # a constant write whose bits are overwritten later is reduced to its surviving bits
    # (constants that fit cannot raise, so dropping overwritten constant bits preserves encode())
    red = []
    for n, (tok, lo, w, s) in enumerate(out):
        if s[0] != 'c' or not (0 <= s[1] < (1 << w)):
            red.append((tok, lo, w, s))
            continue
        later = set()
        for (t2, lo2, w2, _s2) in out[n + 1:]:
            if t2 == tok:
                later.update(range(lo2, lo2 + w2))
        k = 0
        while k < w:
            if (lo + k) in later:
                k += 1
                continue
            j = k
            while j < w and (lo + j) not in later:
                j += 1
            red.append((tok, lo + k, j - k, ('c', (s[1] >> k) & ((1 << (j - k)) - 1))))
            k = j
    out = red
    ops = []
    for i, leaf in enumerate(lv):
        pcs = [(x[3][2], x[2]) for x in out if x[3][0] == 'o' and x[3][1] == i]
        d, b = tr.get(i, (1, 0))
        if pcs:
            m = min(sh for sh, _ in pcs)
            if m > 0 and (d, b) == (1, 0):
                # value >> m on the whole operand is the transform v // 2^m (Shift1/Shift2 style)
                d = 1 << m
                out = [(t, lo, w, (s[0], s[1], s[2] - m, s[3]) if (s[0] == 'o' and s[1] == i) else s)
                       for (t, lo, w, s) in out]
                pcs = [(sh - m, w) for sh, w in pcs]
        width = max([sh + w for sh, w in pcs] + [0])
        if leaf['kind'] == 'reg' and not pcs and len(leaf['nums']) == 1 and (d, b) == (1, 0):
            b = leaf['nums'][0]      # implied register (single-member class): T(v) = v - num = 0, no bits
        if leaf['kind'] == 'label' and pcs:
            raise TraceFail('label operand reaches the tokens')
        ops.append(dict(name=leaf['name'], kind=leaf['kind'], nums=leaf.get('nums'), width=width, div=d, sub=b,
                        signed=(id(leaf['operand']) in signed_ids), cls=leaf.get('cls')))
    return dict(tokens=[(sz, en == 'big') for sz, en, _ in toks], writes=out, ops=ops)


def syntax_list(cls, path_classes):
    out = []
    for e in cls.syntax.syntax:
        out.append(e if isinstance(e, str) else '%' + e._name)
    return out


def describe(cls):
    """list of descriptors of all variants of cls, or raises TraceFail"""
    res = []
    n = 0
    for args, lv, path in variants(cls, [], mk_sym):
        n += 1
        if n > MAXCOMB:
            raise TraceFail('more than %d operand-mode combinations' % MAXCOMB)
        ins = cls(*args)
        toks, writes = trace_encode(ins)
        d = normalise(lv, toks, writes, signed_fields(ins))
        d['cls'] = cls.__name__
        d['variant'] = '/'.join(path)
        d['syntax'] = syntax_list(cls, path)
        d['pycls'] = cls
        d['vindex'] = n - 1
        res.append(d)
    return res


def instantiate(cls, vindex, values):
    """real instance of variant number vindex with concrete operand values"""
    def mk(leaf, i):
        # (variants before vindex are enumerated too and may have more leaves: give them dummies)
        if leaf['kind'] == 'reg':
            return real_reg(leaf['cls'], values[i] if i < len(values) and values[i] in leaf['nums'] else leaf['nums'][0])
        if leaf['kind'] == 'imm':
            return values[i] if i < len(values) else 0
        return 'L%d' % i
    for n, (args, lv, path) in enumerate(variants(cls, [], mk)):
        if n == vindex:
            return cls(*args)
    raise IndexError(vindex)


ARCHS = [('riscv', 'riscv'), ('riscv_rvc', 'riscv:rvc'), ('arm', 'arm'), ('thumb', 'arm:thumb'),
         ('x86_64', 'x86_64'), ('msp430', 'msp430'), ('avr', 'avr'), ('m68k', 'm68k'), ('mips', 'mips'),
         ('or1k', 'or1k'), ('xtensa', 'xtensa'), ('microblaze', 'microblaze')]


def export_arch(archname):
    """-> (descs, custom [(class, reason)], skipped [class]) for one ISA"""
    from ppci.api import get_arch
    isa = get_arch(archname).isa
    descs, custom, skipped = [], [], []
    seen = set()
    for c in isa.instructions:
        if id(c) in seen:
            continue
        seen.add(id(c))
        if c.syntax is None or issubclass(c, VirtualInstruction):
            skipped.append(c.__name__)
            continue
        try:
            descs += describe(c)
        except TraceFail as e:
            custom.append((c.__name__, str(e)))
        except RecursionError:
            custom.append((c.__name__, 'recursion'))
        except Exception as e:   # noqa: BLE001
            custom.append((c.__name__, '%s: %s' % (type(e).__name__, str(e)[:80])))
    return descs, custom, skipped, len(isa.instructions)


# ------------------------------------------------------------------ Coq rendering
def cz(v):
    return str(v) if v >= 0 else '(%d)' % v


def cstr(s):
    return '"' + ''.join(ch if 32 <= ord(ch) < 127 and ch != '"' else ('""' if ch == '"' else '?') for ch in s) + '"'


def render_desc(d, numdefs):
    toks = '; '.join('mkTok %d %s' % (sz, 'true' if big else 'false') for sz, big in d['tokens'])
    ws = []
    for (t, lo, w, s) in d['writes']:
        if s[0] == 'c':
            src = 'SConst %s' % cz(s[1])
        else:
            src = 'SOp %d %d %s' % (s[1], s[2], 'true' if s[3] else 'false')
        ws.append('mkW %d %d %d (%s)' % (t, lo, w, src))
    ops = []
    for o in d['ops']:
        if o['kind'] == 'reg':
            key = tuple(o['nums'])
            if key not in numdefs:
                numdefs[key] = 'nums_%d' % len(numdefs)
            kind = '(KReg %s)' % numdefs[key]
        elif o['kind'] == 'imm':
            kind = '(KImm %s)' % ('true' if o['signed'] else 'false')
        else:
            kind = 'KLabel'
        ops.append('mkOp %s %s %d %d %s' % (cstr(o['name']), kind, o['width'], o['div'], cz(o['sub'])))
    return 'mkDesc %s %s [%s] [%s]\n    [%s]\n    [%s]' % (
        cstr(d['cls']), cstr(d['variant']), '; '.join(cstr(x) for x in d['syntax']), toks,
        '; '.join(ws), '; '.join(ops))


def render_table(name, descs, custom):
    numdefs = {}
    body = [render_desc(d, numdefs) for d in descs]
    out = ['(* generated by tools/props/c08_trace.py from the instruction classes of %s — do not edit *)' % name,
           'From PV Require Import Lib.Py Model.Encode.', 'From Coq Require Import String.',
           'Open Scope Z_scope.', 'Open Scope string_scope.']
    for key, nm in numdefs.items():
        out.append('Definition %s : list Z := [%s].' % (nm, '; '.join(cz(x) for x in key)))
    out.append('Definition table_%s : list instr_desc := [\n  %s].' % (name, ';\n  '.join(body)))
    out.append('Definition custom_%s : list (string * string) := [%s].' % (
        name, '; '.join('(%s, %s)' % (cstr(c), cstr(r)) for c, r in custom)))
    return '\n'.join(out) + '\n'


# ------------------------------------------------------------------ python mirror of wf_desc / compatible
def py_wf(d):
    toks, ws, ops = d['tokens'], d['writes'], d['ops']
    for sz, _big in toks:
        if not (sz > 0 and sz % 8 == 0):
            return False
    for (t, lo, w, s) in ws:
        if not (0 <= t < len(toks)) or not (0 <= lo and 0 < w and lo + w <= toks[t][0]):
            return False
        if s[0] == 'c':
            if not (0 <= s[1] < (1 << w)):
                return False
        else:
            _, i, sh, m = s
            if not (0 <= i < len(ops)) or sh < 0 or ops[i]['kind'] == 'label':
                return False
            if not (m or ops[i]['width'] <= sh + w):
                return False
    for a in range(len(ws)):
        for b in range(a + 1, len(ws)):
            if ws[a][0] == ws[b][0] and not (ws[a][1] + ws[a][2] <= ws[b][1] or ws[b][1] + ws[b][2] <= ws[a][1]):
                return False
    for i, o in enumerate(ops):
        if o['div'] <= 0 or o['width'] < 0:
            return False
        for k in range(o['width']):
            if not any(s[0] == 'o' and s[1] == i and s[2] <= k < s[2] + w for (_t, _lo, w, s) in ws):
                return False
        if o['kind'] == 'reg':
            for v in o['nums']:
                t = v // o['div'] - o['sub']
                if v % o['div'] != 0 or not (0 <= t < (1 << o['width'])):
                    return False
        elif o['kind'] == 'imm':
            if o['signed'] and o['width'] < 1:
                return False
        elif o['width'] != 0:
            return False
    return True


def py_fixed_bytes(d):
    """(mask bytes, bits bytes) of the fixed bits (everything no variable write reaches), emitted byte order"""
    mb, bb = [], []
    for k, (sz, big) in enumerate(d['tokens']):
        var = b = 0
        for (t, lo, w, s) in d['writes']:
            if t != k:
                continue
            fm = ((1 << w) - 1) << lo
            if s[0] == 'c':
                b = (b & ~fm) | ((s[1] & ((1 << w) - 1)) << lo)
            else:
                var |= fm
        m = ((1 << sz) - 1) ^ var
        b &= m
        order = range(sz // 8)
        if big:
            order = reversed(order)
        for x in order:
            mb.append((m >> (8 * x)) & 255)
            bb.append((b >> (8 * x)) & 255)
    return mb, bb


def py_is_data(d):
    return all(s[0] != 'c' for (_t, _lo, _w, s) in d['writes'])


def py_compatible(f1, f2):
    (m1, b1), (m2, b2) = f1, f2
    for x1, y1, x2, y2 in zip(m1, b1, m2, b2):
        if x1 & x2 & (y1 ^ y2):
            return False
    return True


def py_overlaps(descs):
    fx = [py_fixed_bytes(d) for d in descs]
    data = [py_is_data(d) for d in descs]
    out = []
    for i in range(len(descs)):
        for j in range(i + 1, len(descs)):
            if not data[i] and not data[j] and py_compatible(fx[i], fx[j]):
                out.append((i, j))
    return out


def render_arch(name, descs, custom):
    good = [d for d in descs if py_wf(d)]
    bad = [d for d in descs if not py_wf(d)]
    numdefs = {}
    body = [render_desc(d, numdefs) for d in good]
    bbody = [render_desc(d, numdefs) for d in bad]
    ov = py_overlaps(good)
    out = ['(* generated by tools/props/c08_trace.py from the instruction classes of %s — do not edit *)' % name,
           'From PV Require Import Lib.Py Model.Encode.', 'From Coq Require Import String.',
           'Open Scope Z_scope.', 'Open Scope string_scope.']
    for key, nm in numdefs.items():
        out.append('Definition %s : list Z := [%s].' % (nm, '; '.join(cz(x) for x in key)))
    out.append('Definition table_%s : list instr_desc := [\n  %s].' % (name, ';\n  '.join(body)))
    out.append('(* traced classes whose descriptor is not well-formed (an operand is not recoverable from the bytes) *)')
    out.append('Definition nonwf_%s : list instr_desc := [\n  %s].' % (name, ';\n  '.join(bbody)))
    out.append('(* classes the descriptor language cannot express: (class, reason) *)')
    out.append('Definition custom_%s : list (string * string) := [%s].' % (
        name, ';\n  '.join('(%s, %s)' % (cstr(c), cstr(r)) for c, r in custom)))
    out.append('(* index pairs (i < j) of table entries whose fixed bits do not distinguish them *)')
    out.append('Definition overlaps_%s : list (nat * nat) := [%s]%%nat.' % (
        name, '; '.join('(%d, %d)' % p for p in ov)))
    return '\n'.join(out) + '\n', good, bad, ov
