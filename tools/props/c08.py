"""C08 — instruction encodings agree with the architecture reference (DESIGN §4 C08).

tie I: tools/props/c08_trace.py runs the REAL Instruction.encode() of every instruction class of every
ISA on symbolic operands with a recording Token.__setitem__, and exports what it saw as Coq data
(coq/Gen/Tab_isa_<arch>.v: table_<arch>, nonwf_<arch>, custom_<arch>, overlaps_<arch>, and for riscv the
entries on which the independent RV32 reference disagrees).  Theorems (Props/C08.v): the generic
decodability lemma over Model/Encode.v, the reflected per-ISA table theorems, and agreement with the
independently written RV32I/M decoder Spec/RV32Decode.v for RISC-V only.
Correspondence: real encode() vs encode_instr on sampled operands for every traced class variant.
Search: Python read-back of the operands from the real bytes, an independent Python RV32 decoder, a
line-nibble reference for m68k arithmetic, and (tools/props/c08_llvm.py, validation only) llvm-mc as an
independent assembler for riscv(+rvc), arm, thumb, x86_64, msp430, avr, m68k and mips over ALL classes incl. custom.
"""
import json
from vlib import OkV, Diag, Internal

LEVEL = 'proof'
RULE = ('cases: every traced class variant of every ISA x N operand tuples (quick N=8, thorough N=30; quick samples at most '
        '60 variants per ISA, seeded): registers drawn from the class register set (first/last/random), immediates from the '
        'boundaries of the field range, 0, +-1, random in range and ~15%% out-of-range values; non-trivial = distinct '
        '(variant, operand tuple) with at least one operand and an implementation outcome that is bytes')
EXPLANATION = ('(a) all 12 ISA tables: unbounded generic theorem (well-formed descriptor + in-range operands => the model encoder '
               'succeeds, decode_fields returns the operands, fixed fields read back their constants), reflected well-formedness of '
               'every traced class variant, exact list of class pairs not separated by fixed bits. (b) reference agreement '
               '(independent decoder written from the ISA manual) exists ONLY for RISC-V RV32I/M base classes; the other ISAs have '
               'no reference decoder. Classes whose encode() cannot be expressed as slice writes of operand bit selections are '
               'listed as custom_<arch> (counted in evidence) and are covered by no theorem; they (and the RVC classes) are covered '
               'only by the search-only llvm-mc stage: every class of the 8 ISAs LLVM 14 supports x the whole immediate pool, '
               'printed form assembled by llvm-mc and compared with encode() (validation, not proof; lines llvm-mc rejects are '
               'skipped and counted in coverage.stages.llvm_mc).')
TRUSTED = ['tools/props/c08_trace.py (symbolic tracer/exporter; cross-checked against the real encode() on every run)',
           'Python int arithmetic == Coq Z arithmetic',
           'Spec/RV32Decode.v, Spec/RV32Encode.v, Spec/RVCDecode.v are faithful readings of the RISC-V unprivileged ISA manual '
           '(RV32I/M formats and opcode tables; RV32C formats, quadrant listings, register-prime encoding)',
           'the per-mnemonic expectation table rv_expect (assembly operand order, pseudo-instruction expansions mv/nop/j/bgt/ble/bgtu/bleu)']
ASSUMPTIONS = ['RVC reference theorem: bounded to the architectural operand domain (rvc_domain) and to operands for which the '
               'reference instruction exists (rvc_valid); floating-point compressed loads/stores are not decoded',
               'operand ranges of integer operands are the ranges of the token fields they reach (ppci declares none); unencoded '
               'label operands are modelled as 0 and relocations are outside this property',
               'x86_64/arm/thumb/msp430: most classes are custom (data-dependent encode()), see custom counts in coverage.stages']

QUICK_VARIANTS_PER_ISA = 60
M68K_LINE = {'or': 0b1000, 'sub': 0b1001, 'cmp': 0b1011, 'eor': 0b1011, 'and': 0b1100, 'add': 0b1101}


# ------------------------------------------------------------------ independent RV32I/M reference (Python)
def _bits(w, lo, n):
    return (w >> lo) & ((1 << n) - 1)


def _sext(n, v):
    return v - (1 << n) if v >= (1 << (n - 1)) else v


def rv32_decode(bs):
    """independent decoder written from the ISA manual; returns (mnemonic, operands in assembly order) or None"""
    if len(bs) != 4:
        return None
    w = bs[0] | (bs[1] << 8) | (bs[2] << 16) | (bs[3] << 24)
    op, rd, f3, rs1, rs2, f7 = _bits(w, 0, 7), _bits(w, 7, 5), _bits(w, 12, 3), _bits(w, 15, 5), _bits(w, 20, 5), _bits(w, 25, 7)
    imm_i = _sext(12, _bits(w, 20, 12))
    imm_s = _sext(12, (_bits(w, 25, 7) << 5) | _bits(w, 7, 5))
    imm_b = _sext(13, (_bits(w, 31, 1) << 12) | (_bits(w, 7, 1) << 11) | (_bits(w, 25, 6) << 5) | (_bits(w, 8, 4) << 1))
    imm_u = _bits(w, 12, 20)
    imm_j = _sext(21, (_bits(w, 31, 1) << 20) | (_bits(w, 12, 8) << 12) | (_bits(w, 20, 1) << 11) | (_bits(w, 21, 10) << 1))
    if op == 0x37:
        return ('lui', [rd, imm_u])
    if op == 0x17:
        return ('auipc', [rd, imm_u])
    if op == 0x6F:
        return ('jal', [rd, imm_j])
    if op == 0x67 and f3 == 0:
        return ('jalr', [rd, rs1, imm_i])
    if op == 0x63 and f3 in (0, 1, 4, 5, 6, 7):
        return ({0: 'beq', 1: 'bne', 4: 'blt', 5: 'bge', 6: 'bltu', 7: 'bgeu'}[f3], [rs1, rs2, imm_b])
    if op == 0x03 and f3 in (0, 1, 2, 4, 5):
        return ({0: 'lb', 1: 'lh', 2: 'lw', 4: 'lbu', 5: 'lhu'}[f3], [rd, imm_i, rs1])
    if op == 0x23 and f3 in (0, 1, 2):
        return ({0: 'sb', 1: 'sh', 2: 'sw'}[f3], [rs2, imm_s, rs1])
    if op == 0x13:
        if f3 in (0, 2, 3, 4, 6, 7):
            return ({0: 'addi', 2: 'slti', 3: 'sltiu', 4: 'xori', 6: 'ori', 7: 'andi'}[f3], [rd, rs1, imm_i])
        if f3 == 1 and f7 == 0:
            return ('slli', [rd, rs1, rs2])
        if f3 == 5 and f7 == 0:
            return ('srli', [rd, rs1, rs2])
        if f3 == 5 and f7 == 0x20:
            return ('srai', [rd, rs1, rs2])
        return None
    if op == 0x33:
        t = {(0, 0): 'add', (0x20, 0): 'sub', (0, 1): 'sll', (0, 2): 'slt', (0, 3): 'sltu', (0, 4): 'xor', (0, 5): 'srl',
             (0x20, 5): 'sra', (0, 6): 'or', (0, 7): 'and', (1, 0): 'mul', (1, 1): 'mulh', (1, 2): 'mulhsu', (1, 3): 'mulhu',
             (1, 4): 'div', (1, 5): 'divu', (1, 6): 'rem', (1, 7): 'remu'}.get((f7, f3))
        return (t, [rd, rs1, rs2]) if t else None
    if w == 0x73:
        return ('ecall', [])
    if w == 0x100073:
        return ('ebreak', [])
    return None


# expectation: ppci mnemonic, number of operands -> (reference mnemonic, operand view)
# view items: ('op', i) | ('sext', n, i) | ('const', c)
def rv_expect(mn, nops):
    R = [('op', 0), ('op', 1), ('op', 2)]
    if mn in ('add', 'sub', 'sll', 'slt', 'sltu', 'xor', 'srl', 'sra', 'or', 'and', 'mul', 'mulh', 'mulhsu', 'mulhu',
              'div', 'divu', 'rem', 'remu', 'slli', 'srli', 'srai') and nops == 3:
        return (mn, R)
    if mn in ('addi', 'slti', 'sltiu', 'xori', 'ori', 'andi', 'jalr') and nops == 3:
        return (mn, [('op', 0), ('op', 1), ('sext', 12, 2)])
    if mn == 'addi' and nops == 2:
        return ('addi', [('op', 0), ('op', 0), ('const', 0)])
    if mn in ('lui', 'auipc', 'jal') and nops == 2:
        return (mn, [('op', 0), ('op', 1)])
    if mn == 'j' and nops == 1:
        return ('jal', [('const', 0), ('op', 0)])
    if mn in ('beq', 'bne', 'blt', 'bge', 'bltu', 'bgeu') and nops == 3:
        return (mn, R)
    if mn in ('bgt', 'ble', 'bgtu', 'bleu') and nops == 3:
        return ({'bgt': 'blt', 'ble': 'bge', 'bgtu': 'bltu', 'bleu': 'bgeu'}[mn], [('op', 1), ('op', 0), ('op', 2)])
    if mn in ('sb', 'sh', 'sw', 'lb', 'lh', 'lw', 'lbu', 'lhu') and nops == 3:
        return (mn, [('op', 0), ('sext', 12, 1), ('op', 2)])
    if mn == 'mv' and nops == 2:
        return ('addi', [('op', 0), ('op', 1), ('const', 0)])
    if mn == 'nop' and nops == 0:
        return ('addi', [('const', 0), ('const', 0), ('const', 0)])
    if mn in ('ebreak', 'ecall') and nops == 0:
        return (mn, [])
    return None


def apply_view(view, ops):
    out = []
    for it in view:
        if it[0] == 'op':
            out.append(ops[it[1]])
        elif it[0] == 'sext':
            out.append(_sext(it[1], ops[it[2]] % (1 << it[1])))
        else:
            out.append(it[1])
    return out


# ------------------------------------------------------------------ independent RV32C reference (Python)
def rvc_decode16(bs):
    """independent RV32C decoder (integer subset) written from the manual; mirrors Spec/RVCDecode.v conventions"""
    if len(bs) != 2:
        return None
    w = bs[0] | (bs[1] << 8)
    B = lambda lo, n: _bits(w, lo, n)
    op, f3, rd, rs2 = B(0, 2), B(13, 3), B(7, 5), B(2, 5)
    rdp, rs1p, b12 = 8 + B(2, 3), 8 + B(7, 3), B(12, 1)
    uimm6 = b12 * 32 + B(2, 5)
    imm6 = _sext(6, uimm6)
    off_lw = B(10, 3) * 8 + B(6, 1) * 4 + B(5, 1) * 64
    off_j = _sext(12, b12 * 2048 + B(11, 1) * 16 + B(9, 2) * 256 + B(8, 1) * 1024 + B(7, 1) * 64 + B(6, 1) * 128 + B(3, 3) * 2 + B(2, 1) * 32)
    off_b = _sext(9, b12 * 256 + B(10, 2) * 8 + B(5, 2) * 64 + B(3, 2) * 2 + B(2, 1) * 32)
    k = (op, f3)
    if k == (0, 0):
        return ('c.addi4spn', [rdp, B(11, 2) * 16 + B(7, 4) * 64 + B(6, 1) * 4 + B(5, 1) * 8])
    if k == (0, 2):
        return ('c.lw', [rdp, off_lw, rs1p])
    if k == (0, 6):
        return ('c.sw', [rdp, off_lw, rs1p])
    if k == (1, 0):
        return ('c.addi', [rd, rd, imm6])
    if k == (1, 1):
        return ('c.jal', [off_j])
    if k == (1, 2):
        return ('c.li', [rd, imm6])
    if k == (1, 3):
        if rd == 2:
            return ('c.addi16sp', [_sext(10, b12 * 512 + B(6, 1) * 16 + B(5, 1) * 64 + B(3, 2) * 128 + B(2, 1) * 32)])
        return ('c.lui', [rd, uimm6])
    if k == (1, 4):
        sel = B(10, 2)
        if sel == 0:
            return ('c.srli', [rs1p, rs1p, uimm6])
        if sel == 1:
            return ('c.srai', [rs1p, rs1p, uimm6])
        if sel == 2:
            return ('c.andi', [rs1p, rs1p, imm6])
        if b12 == 0:
            return (['c.sub', 'c.xor', 'c.or', 'c.and'][B(5, 2)], [rs1p, rdp])
        return None
    if k == (1, 5):
        return ('c.j', [off_j])
    if k == (1, 6):
        return ('c.beqz', [rs1p, off_b])
    if k == (1, 7):
        return ('c.bnez', [rs1p, off_b])
    if k == (2, 0):
        return ('c.slli', [rd, rd, uimm6])
    if k == (2, 2):
        return ('c.lwsp', [rd, b12 * 32 + B(4, 3) * 4 + B(2, 2) * 64])
    if k == (2, 4):
        if b12 == 0:
            return ('c.jr', [rd]) if rs2 == 0 else ('c.mv', [rd, rs2])
        if rs2 == 0:
            return ('c.ebreak', []) if rd == 0 else ('c.jalr', [rd])
        return ('c.add', [rd, rs2])
    if k == (2, 6):
        return ('c.swsp', [rs2, B(9, 4) * 4 + B(7, 2) * 64])
    return None


def rvc_expect(mn, nops):
    O = lambda i: ('op', i)
    if nops == 0:
        return ('c.addi', [('const', 0)] * 3) if mn == 'c.nop' else (mn, []) if mn == 'c.ebreak' else None
    if nops == 1:
        if mn in ('c.jal', 'c.j', 'c.jr', 'c.jalr'):
            return (mn, [O(0)])
        return (mn, [('sext', 10, 0)]) if mn == 'c.addi16sp' else None
    if nops == 2:
        if mn in ('c.mv', 'c.lwsp', 'c.swsp', 'c.lui', 'c.sub', 'c.xor', 'c.or', 'c.and', 'c.beqz', 'c.addi4spn'):
            return (mn, [O(0), O(1)])
        if mn == 'c.bneqz':
            return ('c.bnez', [O(0), O(1)])
        return (mn, [O(0), ('sext', 6, 1)]) if mn == 'c.li' else None
    if nops == 3:
        if mn in ('c.slli', 'c.srli', 'c.srai', 'c.lw', 'c.sw'):
            return (mn, [O(0), O(1), O(2)])
        if mn == 'c.andi':
            return (mn, [O(0), O(1), ('sext', 6, 2)])
        if mn == 'c.addi':
            return (mn, [O(1), O(1), ('sext', 6, 2)])
    return None


def rvc_op_domain(o, extended=False, signed_view=False):
    """values an operand field can hold (mirror of Proofs/C08_rvc.v op_domain); extended: also what the encoder
    accepts beyond it: negative values of an immediate that is signed in the reference format, any register for an
    operand that is not encoded (range laxness of unsigned fields is C10's subject and not probed here)"""
    if o['kind'] == 'reg':
        dom = [v for v in o['nums'] if v % o['div'] == 0 and 0 <= v // o['div'] - o['sub'] < (1 << o['width'])]
        if extended and o['width'] == 0:
            dom = list(o['nums'])
        return dom
    if o['kind'] == 'imm':
        lo = -(1 << (o['width'] - 1)) if (o['signed'] and o['width'] >= 1) else 0
        ts = list(range(lo, lo + (1 << o['width'])))
        if extended and lo == 0 and signed_view:      # the reference format takes a signed immediate here
            ts += list(range(-(1 << o['width']), 0))
        return [(t + o['sub']) * o['div'] for t in ts]
    return [0]


def rvc_valid(mn, args):
    if mn == 'c.mv':
        return args[1] != 0
    if mn in ('c.jalr', 'c.jr'):
        return args[0] != 0
    if mn == 'c.lui':
        return args[0] not in (0, 2)
    return True


def rvc_disagreements(ctx, T, descs):
    """entries of table_riscv_rvc ++ nonwf_riscv_rvc on which the independent RV32C reference disagrees.
    Exhaustive over the architectural domain; beyond it (negative immediates, unencoded registers) first witness."""
    import itertools
    out, corner, covered = [], [], 0
    for i, d in enumerate(descs):
        if d['tokens'] != [(16, False)] or len(d['syntax']) < 3:
            continue
        exp = rvc_expect(''.join(d['syntax'][:3]), len(d['ops']))
        if exp is None:
            continue
        covered += 1
        found = None
        for ext in (False, True):
            sv = {it[2] for it in exp[1] if it[0] == 'sext'}
            for ops in itertools.product(*[rvc_op_domain(o, ext, k in sv) for k, o in enumerate(d['ops'])]):
                ops = list(ops)
                r = real_encode(T, d, ops)
                if not isinstance(r, OkV):
                    if not ext:
                        found = (ops, r, None)
                    else:
                        continue
                else:
                    got = rvc_decode16(list(r.v))
                    want = (exp[0], apply_view(exp[1], ops))
                    if got is None or (got[0], list(got[1])) != (want[0], list(want[1])):
                        if not rvc_valid(want[0], want[1]):
                            # accepted by ppci although the reference instruction does not exist for these operands
                            if not any(c[0] == i for c in corner):
                                corner.append((i, ops, dict(cls=d['cls'], printed=str(T.instantiate(d['pycls'], d['vindex'], ops)),
                                                            bytes=r.v.hex(), reference=list(got) if got else None, expected=list(want))))
                            continue
                        found = (ops, r, (got, want))
                if found:
                    break
            if found:
                break
        if found:
            ops, r, gw = found
            try:
                printed = str(T.instantiate(d['pycls'], d['vindex'], ops))
            except Exception:   # noqa: BLE001
                printed = '?'
            out.append((i, ops, dict(cls=d['cls'], printed=printed, bytes=r.v.hex() if isinstance(r, OkV) else r.__name__,
                                     reference=list(gw[0]) if gw and gw[0] else None, expected=list(gw[1]) if gw else None)))
    return out, corner, covered


# ------------------------------------------------------------------ operand sampling
def op_range(o):
    """range [lo, hi) of the transformed value t of an operand"""
    if o['kind'] == 'imm' and o['signed'] and o['width'] >= 1:
        return -(1 << (o['width'] - 1)), 1 << (o['width'] - 1)
    return 0, 1 << o['width']


def in_range(d, ops):
    for o, v in zip(d['ops'], ops):
        if o['kind'] == 'reg':
            if v not in o['nums']:
                return False
        elif o['kind'] == 'imm':
            lo, hi = op_range(o)
            if v % o['div'] != 0 or not (lo <= v // o['div'] - o['sub'] < hi):
                return False
        elif v != 0:
            return False
    return True


def sample_ops(rng, d, n, allow_bad=True):
    out = []
    for k in range(n):
        tup = []
        for o in d['ops']:
            if o['kind'] == 'reg':
                nums = o['nums']
                tup.append(nums[0] if k == 0 else nums[-1] if k == 1 else rng.choice(nums))
            elif o['kind'] == 'imm':
                lo, hi = op_range(o)
                pool = [lo, hi - 1, 0, 1, (lo + hi) // 2]
                if lo < 0:
                    pool.append(-1)
                if k < len(pool):
                    t = pool[k]
                elif allow_bad and rng.random() < 0.15:
                    t = rng.choice([hi, lo - 1, hi + rng.randrange(1, 1000), 2 * hi, -hi - 1, lo - rng.randrange(1, 100)])
                else:
                    t = rng.randrange(lo, hi)
                t = min(max(t, lo), hi - 1) if (k < 5) else t
                tup.append((t + o['sub']) * o['div'])
            else:
                tup.append(0)
        out.append(tup)
    return out


def read_back(d, bs):
    """independent (Python) read-back of the operands from emitted bytes"""
    vals, pos = [], 0
    for sz, big in d['tokens']:
        chunk = bs[pos:pos + sz // 8]
        pos += sz // 8
        if big:
            chunk = chunk[::-1]
        vals.append(sum(b << (8 * i) for i, b in enumerate(chunk)))
    if pos != len(bs):
        return None
    out = []
    for i, o in enumerate(d['ops']):
        if o['kind'] == 'label':
            out.append(0)
            continue
        t = 0
        for k in range(o['width']):
            for (tok, lo, w, s) in d['writes']:
                if s[0] == 'o' and s[1] == i and s[2] <= k < s[2] + w:
                    t |= ((vals[tok] >> (lo + k - s[2])) & 1) << k
                    break
        if o['kind'] == 'imm' and o['signed'] and o['width'] >= 1 and t >= (1 << (o['width'] - 1)):
            t -= 1 << o['width']
        out.append((t + o['sub']) * o['div'])
    return out


def real_encode(T, d, ops):
    try:
        ins = T.instantiate(d['pycls'], d['vindex'], ops)
        return OkV(bytes(ins.encode()))
    except ValueError:
        return Diag
    except RecursionError:
        return Internal
    except Exception:   # noqa: BLE001
        return Internal


# ------------------------------------------------------------------ regen
def export_all(ctx):
    from props import c08_trace as T
    info = {}
    for nm, an in T.ARCHS:
        try:
            descs, custom, skipped, ntotal = T.export_arch(an)
        except Exception as ex:   # noqa: BLE001
            ctx.log('ISA %s does not load: %s' % (an, ex))
            descs, custom, skipped, ntotal = [], [('<isa>', 'does not load: %s' % str(ex)[:80])], [], 0
        text, good, bad, ov = T.render_arch(nm, descs, custom)
        extra = ''
        rvbad = []
        if nm == 'riscv':
            rvbad = rv_disagreements(ctx, T, good)
            extra = ('(* table entries on which the independent RV32 reference disagrees, with a witness operand tuple *)\n'
                     'Definition rvref_bad_riscv : list (nat * list Z) := [%s].\n' % '; '.join(
                         '(%d%%nat, [%s])' % (i, '; '.join(T.cz(v) for v in ops)) for i, ops, _ in rvbad))
        rvcbad, rvccorner = [], []
        if nm == 'riscv_rvc':
            rvcbad, rvccorner, ncov = rvc_disagreements(ctx, T, good + bad)
            extra = ('(* entries of table_riscv_rvc ++ nonwf_riscv_rvc on which the independent RV32C reference disagrees, '
                     'with a witness operand tuple the encoder accepts *)\n'
                     'Definition rvcref_bad_riscv_rvc : list (nat * list Z) := [%s].\n' % '; '.join(
                         '(%d%%nat, [%s])' % (i, '; '.join(T.cz(v) for v in ops)) for i, ops, _ in rvcbad))
            extra += ('(* operand tuples ppci accepts although the printed instruction does not exist for them (the bits are '
                      'another instruction) *)\n'
                      'Definition rvcref_corner_riscv_rvc : list (nat * list Z) := [%s].\n' % '; '.join(
                          '(%d%%nat, [%s])' % (i, '; '.join(T.cz(v) for v in ops)) for i, ops, _ in rvccorner))
        ctx.write_gen('Tab_isa_' + nm, text + extra)
        info[nm] = dict(arch=an, good=good, bad=bad, custom=custom, skipped=skipped, total=ntotal, overlaps=ov, rvbad=rvbad,
                        rvcbad=rvcbad, rvccorner=rvccorner)
    return T, info


def rv_disagreements(ctx, T, good):
    """entries of table_riscv whose real bytes the independent reference decodes differently (first witness each)"""
    import random
    rng = random.Random(1234)
    out = []
    for i, d in enumerate(good):
        if len(d['tokens']) != 1 or d['tokens'][0][0] != 32:
            continue
        exp = rv_expect(d['syntax'][0], len(d['ops']))
        if exp is None:
            continue
        for ops in sample_ops(rng, d, 12, allow_bad=False):
            if not in_range(d, ops):
                continue
            r = real_encode(T, d, ops)
            if not isinstance(r, OkV):
                continue
            got = rv32_decode(list(r.v))
            want = (exp[0], apply_view(exp[1], ops))
            if got is None or (got[0], list(got[1])) != (want[0], list(want[1])):
                out.append((i, ops, dict(cls=d['cls'], printed=str(T.instantiate(d['pycls'], d['vindex'], ops)),
                                         bytes=r.v.hex(), reference=list(got) if got else None, expected=list(want))))
                break
    return out


def regen(ctx):
    return export_all(ctx)


# ------------------------------------------------------------------ run
def run(ctx):
    T, info = regen(ctx)
    st = ctx.cov['stages']
    st['isa'] = {nm: dict(instruction_classes=x['total'], skipped_no_syntax_or_virtual=len(x['skipped']),
                          traced_variants=len(x['good']) + len(x['bad']),
                          traced_classes=len({id(d['pycls']) for d in x['good'] + x['bad']}),
                          wf_variants=len(x['good']), nonwf=[d['cls'] + '/' + d['variant'] for d in x['bad']],
                          custom_classes=len(x['custom']), custom=[c for c, _ in x['custom']],
                          overlap_pairs=len(x['overlaps'])) for nm, x in info.items()}
    ok, _ = ctx.build(['Proofs/C08_tables.vo', 'Proofs/C08_rv.vo', 'Proofs/C08_rvfull.vo', 'Proofs/C08_rvc.vo'])
    if ok:
        ctx.check_props('Props/C08.v')
    correspondence(ctx, T, info)
    search(ctx, T, info)
    llvm_stage(ctx)
    ctx.cov['exhaustive'] = False


def correspondence(ctx, T, info):
    n_per = 8 if ctx.quick() else 30
    if ctx.failed_stages and ctx.quick():
        n_per = 24
    cases, recs = [], []
    dist = {}
    if not ctx.build(['Gen/Tab_isa_%s.vo' % nm for nm in info] + ['Lib/Val.vo'])[0]:
        return
    for nm, x in info.items():
        alld = [(k, d) for k, d in enumerate(x['good'] + x['bad'])]
        chosen = alld
        if ctx.quick() and len(alld) > QUICK_VARIANTS_PER_ISA:
            chosen = ctx.rng.sample(alld, QUICK_VARIANTS_PER_ISA)
        dd = dist.setdefault(nm, {'variants': len(chosen), 'ok': 0, 'diag': 0, 'internal': 0})
        for k, d in chosen:
            seen = set()
            for ops in sample_ops(ctx.rng, d, n_per if d['ops'] else 1):
                if tuple(ops) in seen:
                    continue
                seen.add(tuple(ops))
                r = real_encode(T, d, ops)
                term = 'encode_instr (desc_at (table_%s ++ nonwf_%s) %d) [%s]' % (nm, nm, k, '; '.join(T.cz(v) for v in ops))
                cases.append((term, r))
                recs.append((nm, d, ops, r))
                dd['ok' if isinstance(r, OkV) else 'diag' if r is Diag else 'internal'] += 1
    st = ctx.cov['stages']
    st['correspondence_distribution'] = dist
    ctx.cov['distinct_nontrivial'] += sum(1 for (_n, d, _o, r) in recs if d['ops'] and isinstance(r, OkV))
    for r in recs[:: max(1, len(recs) // 8)]:
        ctx.note_sample({'isa': r[0], 'class': r[1]['cls'], 'variant': r[1]['variant'], 'operands': r[2],
                         'impl': r[3].v.hex() if isinstance(r[3], OkV) else r[3].__name__})
    bad = ctx.run_cases('encode', ['Model.Encode'] + ['Gen.Tab_isa_%s' % nm for nm in info], cases, shard=300)
    if bad:
        for i in bad[:5]:
            nm, d, ops, r = recs[i]
            ctx.log('model/implementation disagree on', nm, d['cls'], d['variant'], ops,
                    'impl=', r.v.hex() if isinstance(r, OkV) else r.__name__)
        nm, d, ops, r = recs[bad[0]]
        ctx.failed_stages.append(('correspondence', 'exported descriptor and real encode() disagree on %d cases, first: %s %s %r'
                                  % (len(bad), nm, d['cls'], ops)))


def search(ctx, T=None, info=None):
    """implementation vs independent references: operand read-back, RV32 reference decoder, m68k line nibble"""
    if T is None:
        from props import c08_trace as T
        info = {}
        for nm, an in T.ARCHS:
            try:
                descs, custom, skipped, ntotal = T.export_arch(an)
            except Exception:   # noqa: BLE001
                continue
            good = [d for d in descs if T.py_wf(d)]
            info[nm] = dict(good=good, bad=[], rvbad=rv_disagreements(ctx, T, good) if nm == 'riscv' else [])
            if nm == 'riscv_rvc':
                bad = [d for d in descs if not T.py_wf(d)]
                info[nm]['rvcbad'], info[nm]['rvccorner'], _n = rvc_disagreements(ctx, T, good + bad)
    deep = (not ctx.quick()) or bool(ctx.failed_stages)
    n_per = 40 if deep else 6
    n_eval = 0
    for nm, x in info.items():
        for d in x['good']:
            exp = rv_expect(d['syntax'][0], len(d['ops'])) if nm in ('riscv', 'riscv_rvc') and d['tokens'] == [(32, False)] else None
            for ops in sample_ops(ctx.rng, d, n_per if d['ops'] else 1, allow_bad=False):
                if not in_range(d, ops):
                    continue
                r = real_encode(T, d, ops)
                n_eval += 1
                if not isinstance(r, OkV):
                    ctx.violation({'fn': 'encode', 'isa': nm, 'class': d['cls'], 'variant': d['variant'], 'args': ops,
                                   'key': 'raise:%s:%s' % (nm, d['cls']),
                                   'what': 'encode() raises on operands inside the field ranges', 'actual': r.__name__})
                    continue
                back = read_back(d, list(r.v))
                if back != list(ops):
                    ctx.violation({'fn': 'encode', 'isa': nm, 'class': d['cls'], 'variant': d['variant'], 'args': ops,
                                   'key': 'readback:%s:%s' % (nm, d['cls']), 'bytes': r.v.hex(),
                                   'expected': list(ops), 'actual': back,
                                   'what': 'operands read back from the emitted bytes differ from the operands given'})
                if exp is not None:
                    got = rv32_decode(list(r.v))
                    want = (exp[0], apply_view(exp[1], ops))
                    if got is None or (got[0], list(got[1])) != (want[0], list(want[1])):
                        ins = T.instantiate(d['pycls'], d['vindex'], ops)
                        ctx.violation({'fn': 'encode', 'isa': nm, 'class': d['cls'], 'printed_mnemonic': d['syntax'][0],
                                       'args': ops, 'printed': str(ins), 'bytes': r.v.hex(),
                                       'key': 'rvref:%s:%s:%s' % (nm, d['cls'], ''.join(str(s[1]) for (_t, _l, _w, s) in d['writes'] if s[0] == 'o')),
                                       'expected': [want[0], want[1]], 'actual': list(got) if got else None,
                                       'what': 'independent RV32 decoder reads a different operation/operands than ppci prints',
                                       'how_to_replay': 'PYTHONPATH=/repo python -c "from ppci.arch.riscv import instructions as I, registers as R; '
                                                        'i=[c for c in I.isa.instructions if c.__name__==%r]; print([(str(c(*[R.RiscvRegister.registers[1], R.RiscvRegister.registers[2], \'L\'])), '
                                                        'c(R.RiscvRegister.registers[1], R.RiscvRegister.registers[2], \'L\').encode().hex()) for c in i if len(c.syntax.formal_arguments)==3])"' % d['cls']})
        # traced but not well-formed variants: an operand that never reaches the bytes
        for d in x.get('bad', []):
            names = [o['name'] for o in d['ops']]
            for i, o in enumerate(d['ops']):
                if o['kind'] == 'label' or o['width'] != 0 or names.count(o['name']) > 1:
                    continue
                if o['kind'] == 'reg' and len(o['nums']) < 2:
                    continue
                base = sample_ops(ctx.rng, d, 1, allow_bad=False)[0]
                v1, v2 = (o['nums'][0], o['nums'][-1]) if o['kind'] == 'reg' else (0, 1)
                a, b = list(base), list(base)
                a[i], b[i] = v1, v2
                ra, rb = real_encode(T, d, a), real_encode(T, d, b)
                n_eval += 2
                if isinstance(ra, OkV) and isinstance(rb, OkV) and ra.v == rb.v:
                    ia, ib = T.instantiate(d['pycls'], d['vindex'], a), T.instantiate(d['pycls'], d['vindex'], b)
                    ctx.violation({'fn': 'encode', 'isa': nm, 'class': d['cls'], 'operand': o['name'],
                                   'key': 'unencoded:%s:%s:%s' % (nm, d['cls'], o['name']), 'args': [a, b],
                                   'printed': [str(ia), str(ib)], 'bytes': ra.v.hex(),
                                   'what': 'two instructions that print differently (operand %s) are emitted as the same bytes: '
                                           'the operand never reaches the encoding' % o['name'],
                                   'expected': 'different bytes for different printed operands', 'actual': ra.v.hex()})
        if nm == 'm68k':
            for d in x['good']:
                mn = d['syntax'][0]
                base = mn[:-1] if mn[-1:] in 'bwl' else mn
                if base in M68K_LINE and d['tokens'] and d['tokens'][0][0] == 16:
                    ops = sample_ops(ctx.rng, d, 1, allow_bad=False)[0]
                    r = real_encode(T, d, ops)
                    n_eval += 1
                    if isinstance(r, OkV) and len(r.v) >= 2:
                        line = r.v[0] >> 4 if d['tokens'][0][1] else r.v[1] >> 4
                        if line != M68K_LINE[base]:
                            ctx.violation({'fn': 'encode', 'isa': 'm68k', 'class': d['cls'], 'mnemonic': base,
                                           'key': 'm68k-line:%s' % d['cls'], 'args': ops, 'bytes': r.v.hex(),
                                           'expected': 'operation line (bits 15-12) %s' % bin(M68K_LINE[base]), 'actual': bin(line),
                                           'what': 'M68000 reference: opcode line of %s is %s, the emitted word has %s' % (
                                               base, bin(M68K_LINE[base]), bin(line)),
                                           'how_to_replay': 'PYTHONPATH=/repo python -c "from ppci.arch.m68k import instructions as I; '
                                                            'from ppci.arch.m68k.registers import D1, D2; print(I.%s(I.DataRegEa(D1), D2).encode().hex())"'
                                                            % d['cls'].title()})
    for kind, lst in (('rvc-ref', info.get('riscv_rvc', {}).get('rvcbad', [])),
                      ('rvc-ref-corner', info.get('riscv_rvc', {}).get('rvccorner', []))):
        for (i, ops, r) in lst:
            ctx.violation({'fn': kind, 'isa': 'riscv_rvc', 'class': r['cls'], 'args': ops, 'key': '%s:%s' % (kind, r['cls']),
                           'printed': r['printed'], 'bytes': r['bytes'], 'expected': r['expected'], 'actual': r['reference'],
                           'what': 'independent RV32C decoder (Spec/RVCDecode.v, Python mirror) reads a different '
                                   'operation/operands than ppci prints'})
    ctx.cov['stages']['search_evaluations'] = n_eval
    ctx.cov['evaluations'] += n_eval


def llvm_stage(ctx):
    """search-only: ppci's printed instruction assembled by llvm-mc must give ppci's bytes (validation, not proof)"""
    import shutil
    if shutil.which('llvm-mc') is None:
        ctx.cov['stages']['llvm_mc'] = 'llvm-mc not installed: stage skipped'
        return
    from props import c08_llvm as L
    stats, mm = L.oracle(ctx, quick=ctx.quick() and not ctx.failed_stages)
    ctx.cov['stages']['llvm_mc'] = {'per_isa': stats, 'excluded': {'%s/%s' % k: v for k, v in L.EXCLUDE.items()},
                                    'note': 'validation only; rejected/untranslatable/reinterpreted lines are skipped, never reported'}
    ctx.cov['evaluations'] += sum(st['compared'] for st in stats.values())
    # addressing-mode boundary sweep of build-C04 (read-only import): every x86_64 memory-operand constructor x 16 bases x
    # boundary displacements x 4 carriers, byte-compared with llvm-mc; reported under C08 with C08 replays
    try:
        import importlib
        c04 = importlib.import_module('props.c04')
        c04.x86_addressing_stage(ctx)
    except Exception as ex:   # noqa: BLE001
        ctx.cov['stages']['x86_addressing'] = 'not run: %s' % str(ex)[:200]
    for m in mm:
        ctx.violation({'fn': 'llvm-mc', 'isa': m['arch'], 'class': m['cls'], 'variant': m['variant'], 'args': m['args'],
                       'key': 'llvm:%s:%s' % (m['arch'], m['cls']), 'printed': m['printed'], 'llvm_input': m['llvm_input'],
                       'expected': m['expected'], 'actual': m['actual'],
                       'llvm_reads_ppci_bytes_as': m['llvm_reads_ppci_bytes_as'],
                       'llvm_reads_its_bytes_as': m['llvm_reads_its_bytes_as'],
                       'what': 'llvm-mc assembles the instruction ppci prints to other bytes than ppci emits '
                               '(expected = llvm-mc, actual = ppci)',
                       'how_to_replay': "echo '%s' | llvm-mc -show-encoding <triple of %s>; compare with ins.encode().hex() = %s"
                                        % (m['llvm_input'], m['arch'], m['actual'])})


MANIFEST = {
    'text': 'proof, with partial reference coverage. For all 12 instruction sets (riscv, riscv+rvc, arm, thumb, x86_64, msp430, avr, m68k, '
            'mips, or1k, xtensa, microblaze) the slice writes that the real Instruction.encode() performs are exported per class variant by '
            'symbolic tracing; Coq proves, for every well-formed descriptor and all in-range operands, that the model encoder succeeds, that '
            'the operands are recovered from the emitted bytes and that the fixed (opcode) fields read back their constants; per ISA it '
            'proves by reflection that every exported variant is well-formed (exceptions listed as data and proved non-well-formed) and that '
            'the exported list of class pairs which fixed bits do not separate is exact. Agreement with an INDEPENDENT reference decoder '
            '(written from the RISC-V manual) is proved ONLY for RISC-V: unbounded (all registers, all in-range immediates) for the '
            'RV32I/M base classes and pseudo-instructions of table_riscv - the reference decoder provably inverts the manual\'s field '
            'packing of every format incl. the scrambled B/J offsets, and each ppci descriptor is matched bit by bit with the reference '
            'layout of the mnemonic it prints - and bounded-exhaustive (every encodable register x every immediate value per class) for '
            'the RV32C integer classes, where 5 classes are proved to DISAGREE (c.addi/c.andi sign bit, unencoded rs) and 3 accept '
            'operands for which the bits are another instruction; no reference decoder exists here for the other ISAs (objdump is installed for x86 only and is not used), so for '
            'them only the ppci-internal half (injectivity/decodability of the encoding) is established. Classes with data-dependent '
            'encode() (most of x86_64, arm data processing, thumb, msp430) are listed as custom and are covered by no theorem. '
            'Additionally, as VALIDATION ONLY (search oracle, no proof): for riscv(+rvc), arm, thumb, x86_64, msp430, avr, m68k and mips '
            'every class incl. the custom ones is instantiated over an immediate/register pool, its printed form is assembled by '
            'llvm-mc (LLVM 14) and the bytes are compared with encode(); or1k, xtensa, microblaze have no LLVM target here.',
    'note': 'trusted: Coq kernel; the symbolic tracer/exporter tools/props/c08_trace.py (validated on every run by comparing the real encode() '
            'with the Coq model on sampled operands of the traced variants); the reading of the RISC-V manual in Spec/RV32Decode.v and the '
            'per-mnemonic expectation table (assembly operand order, pseudo-instruction expansions). Relocations/label operands are modelled '
            'as zero fields. Known defects found: m68k sub{b,w,l} emitted with the ADD opcode line; riscv class Ble prints mnemonic bge.',
    'technique': 'Coq proof over introspected encoding tables + reflection + differential correspondence',
}
