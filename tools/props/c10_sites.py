"""C10 — call-site stage: every place in ppci/arch/**.py that relies on wrap_negative / inrange / the token field
setter for ITS OWN range (the helpers accept more than a signed w-bit field holds, see c10_wrap_negative_accepts and
c10_field_accepts). Static: AST scan of the call sites. Dynamic: every pc-relative Relocation subclass of every
architecture is driven through its real calc()/apply() with the displacement placed at 2^(w-1) .. 2^w-1 and
-2^(w-1)-1 .. -2^w (the value handed to wrap_negative is observed by wrapping the module's `wrap_negative`; when a
class does not call it, the value returned by calc() and the width of its token field are used). An accepted
out-of-range displacement aliases another one: violation unless the site is listed in known_findings.json."""
import ast
import importlib
import os
import sys
from fractions import Fraction


def static_sites(repo):
    """[(file, qualified function, callee, bits-argument source)]"""
    out = []
    root = os.path.join(repo, 'ppci', 'arch')
    for d, _dirs, files in sorted(os.walk(root)):
        for fn in sorted(files):
            if not fn.endswith('.py'):
                continue
            path = os.path.join(d, fn)
            try:
                tree = ast.parse(open(path).read())
            except SyntaxError:
                continue
            rel = os.path.relpath(path, repo)

            def walk(node, qual):
                for ch in ast.iter_child_nodes(node):
                    if isinstance(ch, (ast.ClassDef, ast.FunctionDef)):
                        walk(ch, qual + [ch.name])
                    else:
                        for x in ast.walk(ch):
                            if isinstance(x, ast.Call) and isinstance(x.func, ast.Name) and x.func.id in ('wrap_negative', 'inrange'):
                                bits = ast.unparse(x.args[1]) if len(x.args) > 1 else '?'
                                out.append((rel, '.'.join(qual), x.func.id, bits))
            walk(tree, [])
    return out


def all_relocation_classes():
    from ppci.arch.encoding import Relocation

    def subs(c):
        for s in c.__subclasses__():
            yield s
            yield from subs(s)
    return sorted({c for c in subs(Relocation) if getattr(c, 'name', None)}, key=lambda c: (c.__module__, c.__name__))


class Recorder:
    def __init__(self, real):
        self.real = real
        self.calls = []

    def __call__(self, value, bits):
        self.calls.append((value, bits))
        return self.real(value, bits)


def drive(cls, sym, reloc):
    """run the real code once; returns (outcome 'ok'|'error', recorded wrap_negative calls, calc result or None)"""
    from ppci.arch.encoding import Relocation
    mod = sys.modules[cls.__module__]
    real = getattr(mod, 'wrap_negative', None)
    rec = Recorder(real) if real is not None else None
    if rec is not None:
        mod.wrap_negative = rec
    res = None
    try:
        r = cls('s')
        size = max(8, (cls.token.Info.size // 8) if cls.token is not None and cls.token.Info.size else 8)
        if cls.calc is not Relocation.calc:
            res = r.calc(sym, reloc)
            if cls.field is not None and cls.token is not None:
                tsize = cls.token.Info.size // 8
                r.apply(sym, bytearray(tsize), reloc)
        else:
            r.apply(sym, bytearray(size), reloc)
        out = 'ok'
    except Exception:   # noqa: BLE001
        out = 'error'
    finally:
        if rec is not None:
            mod.wrap_negative = real
    return out, (rec.calls if rec is not None else []), res


def written(cls, calls, res):
    """(value, width) the site hands to the range-checking helper"""
    if calls:
        return calls[-1]
    if res is not None and cls.field is not None and cls.token is not None:
        p = getattr(cls.token, cls.field, None)
        w = getattr(p, '_bitsize', None)
        if isinstance(res, int) and isinstance(w, int):
            return (res, w)
    return None


# relocations that store a SLICE of the value by design (the hi20/lo12 pairs are checked for joint reconstruction in c10.reloc_sweep)
PART_SITES = {'ppci.arch.riscv.relocations.RelImm12Relocation': 'lo12 part of a pc-relative hi20/lo12 pair (masked on purpose)'}


def site_stage(ctx, repo):
    n = 0
    sites = static_sites(repo)
    ctx.cov['stages']['callsites_static'] = {'count': len(sites),
                                             'files': sorted({s[0] for s in sites}),
                                             'non_relocation_sites': sorted({'%s:%s' % (s[0], s[1]) for s in sites
                                                                             if 'Relocation' not in s[1] and 'Rel' not in s[1]})[:40]}
    base = 1 << 16
    probed, skipped = [], []
    for cls in all_relocation_classes():
        site = '%s.%s' % (cls.__module__, cls.__name__)
        if site in PART_SITES:
            skipped.append(site + ' (part relocation)')
            continue
        # learn v = v0 + delta / scale from small displacements
        o0, c0, r0 = drive(cls, base, base)
        w0 = written(cls, c0, r0) if o0 == 'ok' else None
        scale = None
        for d in (8, 16, 4, 32):
            o1, c1, r1 = drive(cls, base + d, base)
            w1 = written(cls, c1, r1) if o1 == 'ok' else None
            if w0 and w1 and w1[0] != w0[0] and w1[1] == w0[1]:
                scale = Fraction(d, w1[0] - w0[0])
                break
        if scale is None:
            skipped.append(site)
            continue
        # pc-relative?  (moving the relocation site must move the value)
        o2, c2, r2 = drive(cls, base, base + 8)
        w2 = written(cls, c2, r2) if o2 == 'ok' else None
        if not w2 or w2[0] == w0[0]:
            skipped.append(site + ' (absolute)')
            continue
        w = w0[1]
        h, f = 1 << (w - 1), 1 << w
        probed.append(site)
        for target, lax in [(h, 'positive-in-[2^(w-1),2^w)'), (h + 1, 'positive-in-[2^(w-1),2^w)'), (f - 1, 'positive-in-[2^(w-1),2^w)'),
                            (-h - 1, 'negative-in-[-2^w,-2^(w-1))'), (-f, 'negative-in-[-2^w,-2^(w-1))'),
                            (h - 1, None), (-h, None)]:
            delta = (target - w0[0]) * scale
            if delta.denominator != 1:
                continue
            delta = int(delta)
            o, c, r = drive(cls, base + delta, base)
            n += 1
            wv = written(cls, c, r) if (c or r is not None) else None
            if lax is None:
                continue       # in-range acceptance/exactness is the relocation sweep's and C11's job
            if o == 'ok' and wv and wv[0] == target:
                dec = (target % f) - f if (target % f) >= h else target % f
                ctx.violation({'fn': 'callsite_probe', 'site': site, 'lax': lax, 'width': w, 'value': target,
                               'sym_value': base + delta, 'reloc_value': base, 'key': 'callsite-%s-%s' % (site, lax),
                               'what': '%s: displacement value %d does not fit the signed %d-bit field but is accepted (encodes as %d)'
                                       % (site, target, w, dec),
                               'how_to_replay': 'PYTHONPATH=/repo python -c "from %s import %s as R; r=R(\'s\'); print(r.calc(%d, %d) if hasattr(r,\'calc\') else 0)"'
                                                % (cls.__module__, cls.__name__, base + delta, base)})
    ctx.cov['stages']['callsites_dynamic'] = {'probed': probed, 'skipped': skipped}
    return n
