"""c28_c3 — generator of (mostly) valid C3 modules and of invalid-but-plausible ones, for the C28 search.

C3 (ppci/lang/c3): module m; [import x;] const / var / type / function definitions; statements var, assignment
(= += -= *= /= %= |= &= ^= <<= >>=), call, if/else, while, for, switch/case/default, return, compound; expressions
with or/and/not, comparisons, arithmetic, cast<T>(e), sizeof(T), &x, *p, a[i], s.f, p->f, literals.
"""
import re

BASE = ['int', 'byte', 'int8_t', 'int16_t', 'int32_t', 'int64_t', 'uint8_t', 'uint16_t', 'uint32_t', 'uint64_t']
FLT = ['double', 'float']
BSP = 'module bsp;\npublic function void putc(byte c);\npublic function int getc();\n'


class C3Gen:
    def __init__(self, rng, size=3):
        self.r = rng
        self.size = size
        self.lines = []
        self.n = 0
        self.types = []      # (name, kind, detail)  kind: 'struct' fields | 'arr' (elem, n) | 'ptr' target
        self.structs = {}    # type name -> [(field, type)]
        self.consts = []
        self.globals = []    # (name, type)
        self.funcs = []      # (name, ret, [types])
        self.scopes = []

    def name(self, p):
        self.n += 1
        return '%s%d' % (p, self.n)

    def emit(self, s, ind=0):
        self.lines.append('  ' * ind + s)

    def ch(self, xs):
        return self.r.choice(xs)

    # types are strings: 'int', 'double', 'bool', 'T3' (struct typedef), 'int*', 'T3*', 'int[4]'
    def scalar(self):
        c = self.r.random()
        if c < 0.6:
            return 'int'
        if c < 0.8:
            return self.ch(BASE)
        if c < 0.9:
            return self.ch(FLT)
        return 'bool'

    def any_type(self):
        c = self.r.random()
        if c < 0.6:
            return self.scalar()
        if c < 0.75 and self.structs:
            return self.ch(sorted(self.structs))
        if c < 0.9:
            t = self.scalar() if self.r.random() < 0.6 or not self.structs else self.ch(sorted(self.structs))
            return t + '*'
        return '%s[%d]' % (self.scalar(), self.r.randint(1, 8))

    def vars(self):
        out = list(self.globals)
        for s in self.scopes:
            out += s
        return out

    def places(self):
        out = []
        for (n, t) in self.vars():
            self._paths(n, t, 2, out)
        return out

    def _paths(self, e, t, d, out):
        out.append((e, t))
        if d <= 0:
            return
        if t in self.structs:
            for (f, ft) in self.structs[t]:
                self._paths('%s.%s' % (e, f), ft, d - 1, out)
        elif t.endswith('*'):
            b = t[:-1]
            if b in self.structs:
                for (f, ft) in self.structs[b]:
                    self._paths('%s->%s' % (e, f), ft, d - 1, out)
            else:
                self._paths('(*%s)' % e, b, d - 1, out)
        elif t.endswith(']'):
            b, n = t[:-1].rsplit('[', 1)
            idx = str(self.r.randint(0, int(n) - 1)) if self.r.random() < 0.6 else self.int_expr(0)
            self._paths('%s[%s]' % (e, idx), b, d - 1, out)

    def is_int(self, t):
        return t in BASE

    def lv(self, pred):
        ps = [p for p in self.places() if pred(p[1])]
        return self.ch(ps) if ps else None

    def int_lit(self):
        r = self.r
        v = r.choice([0, 1, 2, 3, 7, 8, 10, 16, 100, 255, 256, 1000, 32767, 65535, 65536, 2147483647])
        return r.choice([str(v), hex(v)]) if r.random() < 0.9 else str(r.randint(0, 1 << 31))

    def int_expr(self, d=2):
        r = self.r
        if d <= 0 or r.random() < 0.3:
            c = r.random()
            if c < 0.55:
                p = self.lv_noloop(lambda t: t == 'int')
                if p:
                    return p
                p = self.lv_noloop(self.is_int)
                if p:
                    return 'cast<int>(%s)' % p
            if c < 0.65 and self.consts:
                return self.ch(self.consts)
            return self.int_lit()
        c = r.random()
        if c < 0.6:
            op = r.choice(['+', '-', '*', '/', '%', '|', '&', '^', '<<', '>>'])
            return '(%s %s %s)' % (self.int_expr(d - 1), op, self.int_expr(d - 1))
        if c < 0.7:
            return '%s(%s)' % (r.choice(['-', '+']), self.int_expr(d - 1))
        if c < 0.8:
            return 'cast<int>(cast<%s>(%s))' % (r.choice(BASE), self.int_expr(d - 1) if r.random() < 0.8 else self.flt_expr(d - 1))
        if c < 0.86:
            return 'sizeof(%s)' % self.any_type()
        fs = [f for f in self.funcs if f[1] == 'int']
        if fs:
            f = r.choice(fs)
            args = [self.expr(t, d - 1) for t in f[2]]
            if None not in args:
                return '%s(%s)' % (f[0], ', '.join(args))
        return self.int_expr(0)

    def lv_noloop(self, pred):
        ps = []
        for (n, t) in self.vars():
            if pred(t):
                ps.append(n)
            elif t in self.structs:
                ps += ['%s.%s' % (n, f) for (f, ft) in self.structs[t] if pred(ft)]
            elif t.endswith('*') and t[:-1] in self.structs:
                ps += ['%s->%s' % (n, f) for (f, ft) in self.structs[t[:-1]] if pred(ft)]
            elif t.endswith('*') and pred(t[:-1]):
                ps.append('*%s' % n)
            elif t.endswith(']') and pred(t[:-1].rsplit('[', 1)[0]):
                ps.append('%s[%d]' % (n, self.r.randint(0, int(t[:-1].rsplit('[', 1)[1]) - 1)))
        return self.ch(ps) if ps else None

    def flt_expr(self, d=2):
        r = self.r
        if d <= 0 or r.random() < 0.35:
            p = self.lv_noloop(lambda t: t in FLT)
            if p and r.random() < 0.6:
                return p
            return r.choice(['0.0', '1.5', '2.0', '3.14', '100.0'])
        c = r.random()
        if c < 0.7:
            return '(%s %s %s)' % (self.flt_expr(d - 1), r.choice(['+', '-', '*', '/']), self.flt_expr(d - 1))
        return 'cast<%s>(%s)' % (r.choice(FLT), self.int_expr(d - 1))

    def bool_expr(self, d=2):
        r = self.r
        c = r.random()
        if d <= 0 or c < 0.5:
            if r.random() < 0.15:
                p = self.lv_noloop(lambda t: t == 'bool')
                return p or r.choice(['true', 'false'])
            if r.random() < 0.15:
                return '(%s %s %s)' % (self.flt_expr(1), r.choice(['<', '>', '<=', '>=']), self.flt_expr(1))
            return '(%s %s %s)' % (self.int_expr(d - 1), r.choice(['<', '>', '<=', '>=', '==', '!=']), self.int_expr(d - 1))
        if c < 0.8:
            return '(%s %s %s)' % (self.bool_expr(d - 1), r.choice(['and', 'or']), self.bool_expr(d - 1))
        return 'not %s' % self.bool_expr(d - 1)

    def expr(self, t, d=2):
        if t in BASE:
            e = self.int_expr(d)
            return e if t == 'int' else 'cast<%s>(%s)' % (t, e)
        if t in FLT:
            return self.flt_expr(d)
        if t == 'bool':
            return self.bool_expr(d)
        if t.endswith('*'):
            b = t[:-1]
            c = [n for (n, vt) in self.vars() if vt == t] + ['&%s' % n for (n, vt) in self.vars() if vt == b]
            c += ['&%s[%d]' % (n, 0) for (n, vt) in self.vars() if vt.endswith(']') and vt[:-1].rsplit('[', 1)[0] == b]
            if c and self.r.random() < 0.9:
                return self.ch(c)
            return 'cast<%s>(%s)' % (t, self.ch(['0', '4096', self.int_expr(1)]))
        c = [n for (n, vt) in self.vars() if vt == t]
        return self.ch(c) if c else None

    # ---------------------------------------------------------------- statements
    def stmt(self, ind, depth):
        r = self.r
        c = r.random()
        if depth <= 0:
            c *= 0.5
        if c < 0.15:
            t = self.any_type()
            n = self.name('v')
            s = 'var %s %s' % (t, n)
            if (t in BASE or t in FLT or t == 'bool') and r.random() < 0.6:
                s += ' = %s' % self.expr(t, 2)
            self.emit(s + ';', ind)
            self.scopes[-1].append((n, t))
            return
        if c < 0.45:
            p = self.lv(lambda t: t in BASE or t in FLT or t == 'bool' or t.endswith('*'))
            if p:
                e = self.expr(p[1], 2)
                if e:
                    op = '='
                    if p[1] == 'int' and r.random() < 0.3:
                        op = r.choice(['+=', '-=', '*=', '|=', '&='])
                    return self.emit('%s %s %s;' % (p[0], op, e), ind)
            return self.emit(';', ind)
        if c < 0.5 and [f for f in self.funcs if f[1] == 'void']:
            f = self.ch([f for f in self.funcs if f[1] == 'void'])
            args = [self.expr(t, 1) for t in f[2]]
            if None not in args:
                return self.emit('%s(%s);' % (f[0], ', '.join(args)), ind)
            return
        if c < 0.52:
            return self.emit('bsp.putc(cast<byte>(%s));' % self.int_expr(1), ind)
        if c < 0.64:
            self.emit('if (%s) {' % self.bool_expr(2), ind)
            self.block(ind + 1, depth - 1)
            if r.random() < 0.4:
                self.emit('} else {', ind)
                self.block(ind + 1, depth - 1)
            return self.emit('}', ind)
        if c < 0.74:
            self.emit('while (%s) {' % self.bool_expr(2), ind)
            self.block(ind + 1, depth - 1)
            return self.emit('}', ind)
        if c < 0.84:
            p = self.lv_noloop(lambda t: t == 'int')
            if p and '[' not in p:
                self.emit('for (%s = %s; %s; %s %s %s) {' % (p, self.int_expr(1), self.bool_expr(1), p,
                                                            r.choice(['+=', '-=']), self.int_lit()), ind)
                self.block(ind + 1, depth - 1)
                return self.emit('}', ind)
            return
        if c < 0.92:
            self.emit('switch (%s) {' % self.int_expr(1), ind)
            used = set()
            for _ in range(r.randint(0, 4)):
                v = r.randint(0, 20)
                if v in used:
                    continue
                used.add(v)
                self.emit('case %d: {' % v, ind + 1)
                self.block(ind + 2, depth - 1)
                self.emit('}', ind + 1)
            if r.random() < 0.97:
                self.emit('default: {', ind + 1)
                self.block(ind + 2, depth - 1)
                self.emit('}', ind + 1)
            return self.emit('}', ind)
        if self.ret == 'void':
            return self.emit('return;', ind)
        e = self.expr(self.ret, 2)
        if e:
            self.emit('return %s;' % e, ind)

    def block(self, ind, depth):
        self.scopes.append([])
        for _ in range(self.r.randint(0, 3)):
            self.stmt(ind, depth)
        self.scopes.pop()

    def module(self):
        r = self.r
        self.emit('module m%d;' % r.randint(0, 9))
        self.emit('import bsp;')
        for _ in range(2 + 2 * self.size):
            c = r.random()
            if c < 0.2:
                tn = self.name('T')
                fs = [(self.name('f'), self.any_type()) for _ in range(r.randint(1, 4))]
                if r.random() < 0.2:
                    fs.append((self.name('f'), tn + '*'))
                self.emit('type struct { %s } %s;' % (' '.join('%s %s;' % (t, f) for f, t in fs), tn))
                self.structs[tn] = fs
            elif c < 0.3:
                n = self.name('C')
                self.emit('const int %s = %s;' % (n, self.int_lit() if r.random() < 0.6 else
                                                   '(%s + %s)' % (self.int_lit(), self.ch(self.consts + ['1']))))
                self.consts.append(n)
            elif c < 0.65:
                t = self.any_type()
                n = self.name('g')
                s = 'var %s %s' % (t, n)
                if t == 'int' and r.random() < 0.5:
                    s += ' = %s' % self.int_lit()
                elif t.endswith(']') and r.random() < 0.3 and t.split('[')[0] == 'int':
                    s += ' = {%s}' % ', '.join(self.int_lit() for _ in range(int(t[:-1].rsplit('[', 1)[1])))
                elif t in self.structs and r.random() < 0.3 and all(ft == 'int' for _, ft in self.structs[t]):
                    s += ' = {%s}' % ', '.join('.%s = %s' % (f, self.int_lit()) for f, _ in self.structs[t])
                self.emit(s + ';')
                self.globals.append((n, t))
            else:
                self.function()
        self.function()
        return '\n'.join(self.lines) + '\n'

    def function(self):
        r = self.r
        n = self.name('fn')
        ret = r.choice(['void', 'int', 'int', self.scalar(), self.scalar()])
        ps = [(self.name('p'), r.choice([self.scalar(), self.scalar(), self.any_type()])) for _ in range(r.randint(0, 4))]
        ps = [(pn, t) for (pn, t) in ps if not t.endswith(']') and t not in self.structs]
        self.funcs.append((n, ret, [t for _, t in ps]))
        self.emit('%sfunction %s %s(%s) {' % ('public ' if r.random() < 0.3 else '', ret, n,
                                               ', '.join('%s %s' % (t, pn) for pn, t in ps)))
        self.scopes = [list(ps)]
        self.ret = ret
        for _ in range(r.randint(1, 2 + 2 * self.size)):
            self.stmt(1, 3)
        if ret != 'void':
            self.emit('return %s;' % (self.expr(ret, 2) or '0'), 1)
        self.emit('}')
        self.scopes = []


def gen_c3(rng, size=None):
    return C3Gen(rng, size if size is not None else rng.choice([1, 2, 3, 3, 4])).module()


C3_PRELUDE = '''module m;
import bsp;
type struct { int a; byte b; int[4] arr; } S_t;
type S_t* SP_t;
const int K = 10;
var int gi;
var byte gb;
var double gd;
var bool gt;
var int* gp;
var S_t gs;
var SP_t gsp;
var int[4] ga;
function int f1(int x) { return x; }
function void f0() { }
'''

C3_GLOBALS = '''
var int gi;
var undefined_t x;
var int x = y;
var int x = 1/0;
var int x = 1%0;
var int x = 1 << 100;
var int x = 1 << -1;
var int x = 1.5;
var byte x = 300;
var byte x = -1;
var int8_t x = 200;
var uint64_t x = 18446744073709551615;
var int64_t x = 9223372036854775808;
var int x = 99999999999999999999999;
var double x = 1;
var double x = 1.0/0.0;
var bool x = 1;
var bool x = true and false;
var int x = true;
var int x = "abc";
var string x = "abc";
var string x = 1;
var int* x = 0;
var int* x = &gi;
var int* x = &x;
var int[4] x = {1, 2, 3, 4};
var int[4] x = {1, 2, 3};
var int[4] x = {1, 2, 3, 4, 5};
var int[4] x = 1;
var int[0] x;
var int[-1] x;
var int[1/0] x;
var int[K] x;
var int[gi] x;
var int[1.5] x;
var int[true] x;
var int[f1(1)] x;
var int[4][4] x;
var int[4]* x;
var int*[4] x;
var S_t x = {1, 2, {1, 2, 3, 4}};
var S_t x = {.a = 1, .b = 2};
var S_t x = {.a = 1, .zz = 2};
var S_t x = {.a = 1, .a = 2};
var S_t x = {1};
var S_t x = 1;
var S_t x = gs;
var int x = {1};
var int x = {.a = 1};
var void x;
var void* x;
var struct { int a; int a; } x;
var struct { } x;
var struct { void a; } x;
var struct { int a; struct { int b; } c; } x;
var int volatile x;
var int volatile * volatile x;
var int x, y, z = 1;
var int x = 1, x = 2;
var enum x;
var struct x;
const int C = 1/0;
const int C = C;
const int C = D; const int D = C;
const int C = gi;
const int C = f1(1);
const int C = 1.5;
const double C = 1;
const double C = 1.5 * 2.0 + 1;
const bool C = true;
const byte C = 300;
const int C = 1 << 33;
const int C = -1 >> 1;
const int C = sizeof(int);
const int C = sizeof(S_t);
const int C = sizeof(undefined_t);
const int C = cast<int>(1.5);
const int C = cast<byte>(300);
const int C = "s";
const string C = "s";
const int[2] C = {1, 2};
const S_t C = {1, 2, {1, 2, 3, 4}};
const int C;
const int C = ;
type int myint; var myint x = 1;
type int T; type byte T;
type T T;
type T* T;
type struct { T* next; } T;
type struct { T inner; } T;
type struct { int a; } S2; var S2 a; var S_t b; function void t() { a = b; }
type undefined_t T;
type int[K] T; var T x;
type int[gi] T; var T x;
type void T; var T x;
type T2 T; type T T2; var T x;
type enum { A, B } T;
type int int;
type int K;
type int f1;
function int f1(int x) { return x; }
function int K() { return 1; }
function int f(int a, int a) { return a; }
function int f(int a) { var int a; return a; }
function int f() { }
function int f() { return; }
function void f() { return 1; }
function int f() { return 1.5; }
function int f() { return true; }
function bool f() { return 1; }
function double f() { return 1; }
function byte f() { return 300; }
function S_t f() { return gs; }
function int[4] f() { return ga; }
function int* f() { return &gi; }
function int* f() { var int x; return &x; }
function void f(S_t s) { }
function void f(int[4] a) { }
function void f(void v) { }
function void f(undefined_t v) { }
function undefined_t f() { }
function void f(int) { }
function void f(int a,) { }
function void f(, int a) { }
function void f(int a; int b) { }
function void f();
function void f(); function void g() { f(); }
function void f() function void g() { }
function f() { }
function void () { }
function void f { }
function void f() { function void g() { } }
function void f() { import bsp; }
function void f() { type int T; }
function void f() { const int C = 1; }
function void f() { public var int x; }
public var int x;
public const int C = 1;
public type int T;
public import bsp;
public public function void f() { }
import bsp;
import nonexistent;
import m;
import;
import 1;
module other;
module;
garbage
1
;
{
}
(
function
var
const
type
function void f() { } }
function void f() { {{{ }}} }
function void f() { /* unterminated
function void f() { // comment
}
function void f() { @ }
function void f() { $ }
function void f() { ` }
function void f() { # }
function void f() { \\ }
function void f() { ? }
function void f() { ! }
function void f() { ~ }
function void f() { var int x = 'a'; }
function void f() { var int x = "a; }
function void f() { var int x = 0x; }
function void f() { var int x = 0xg; }
function void f() { var int x = 0b101; }
function void f() { var int x = 08; }
function void f() { var int x = 1_000; }
function void f() { var int x = 1e5; }
function void f() { var double x = 1e5; }
function void f() { var double x = 1.e5; }
function void f() { var double x = 1.5e-3; }
function void f() { var double x = .5; }
function void f() { var double x = 5.; }
function void f() { var double x = 1.2.3; }
function void f() { var int x = 123abc; }
function void f() { var int x = 1 2; }
'''

C3_STMTS = '''
gi = undefined;
undefined = 1;
undefined();
undefined.a = 1;
bsp.undefined();
bsp.putc();
bsp.putc(1, 2);
bsp.putc(300);
bsp.putc(gi);
bsp.putc(gd);
bsp.putc(gt);
bsp.putc("s");
bsp.putc = 1;
bsp = 1;
gi = bsp;
gi = bsp.getc();
gi = bsp.putc(1);
nonexistent.f();
m.f0();
m.gi = 1;
gi = f1();
gi = f1(1, 2);
gi = f1(gd);
gi = f1(gt);
gi = f1(gp);
gi = f1(gs);
gi = f1(ga);
gi = f1("s");
gi = f1(f1);
gi = f0();
f0(1);
f1(1);
f1;
gi;
1;
gi + 1;
gi = f1;
f1 = 1;
f1 = f0;
gi = gi(1);
gi = ga(1);
gi = gs.a(1);
gi = K(1);
K = 1;
K += 1;
gi = K;
gi = int;
gi = S_t;
int = 1;
S_t = gs;
gi = gd;
gd = gi;
gi = gt;
gt = gi;
gt = gd;
gb = gi;
gi = gb;
gb = 300;
gb = -1;
gb = gb + 1;
gb = gb + gb;
gb += 1;
gi = gp;
gp = gi;
gp = 0;
gp = &gi;
gp = &gb;
gp = &gs;
gp = &gs.a;
gp = &ga;
gp = &ga[1];
gp = ga;
gp = &gp;
gp = &f1;
gp = &K;
gp = &1;
gp = &(gi + 1);
gp = gp + 1;
gp = gp - gp;
gp = gp * 2;
gp += 1;
gi = *gp;
*gp = 1;
*gi = 1;
*gs = 1;
*ga = 1;
*f1 = 1;
*1 = 1;
gi = **gp;
gi = *&gi;
gi = *&*&gi;
gi = &*gp;
gs = gs;
gs = *gsp;
*gsp = gs;
gsp = &gs;
gsp = gs;
gs = gsp;
gs = 1;
gi = gs;
gs.a = 1;
gs.zz = 1;
gs.a.b = 1;
gs->a = 1;
gsp->a = 1;
gsp.a = 1;
gsp->zz = 1;
gi.a = 1;
gp->a = 1;
ga.a = 1;
f1.a = 1;
gs.arr[1] = 1;
gs.arr = ga;
ga = gs.arr;
ga = ga;
ga = 1;
ga[1] = 1;
ga[4] = 1;
ga[-1] = 1;
ga[gd] = 1;
ga[gt] = 1;
ga[gp] = 1;
ga[ga] = 1;
ga[1][1] = 1;
gi[1] = 1;
gp[1] = 1;
gs[1] = 1;
f1[1] = 1;
gi = ga;
gi = ga[gi];
gi = ga[f1(1)];
gi = gi / 0;
gi = gi % 0;
gi = 1 / 0;
gi = 1 % 0;
gi = gi << 100;
gi = 1 << 100;
gi = 1 << -1;
gi = gi >> gi;
gi = gi ^ gi | gi & gi;
gi = -gi;
gi = +gi;
gi = - - gi;
gi = -gd;
gd = -gd;
gd = gd / 0.0;
gd = gd % 2.0;
gd = gd | 1;
gd = gd << 1;
gd = gd * gi;
gd = gi * gd;
gd = gd + 1;
gd = 1;
gd += 1;
gd += gd;
gd = gd and gd;
gi = gi and gi;
gi = not gi;
gt = not gt;
gt = not gi;
gt = gt and gt or gt;
gt = gt and gi;
gt = gi < gi;
gt = gi < gd;
gt = gd < gd;
gt = gt < gt;
gt = gt == gt;
gt = gp == gp;
gt = gp == 0;
gt = gs == gs;
gt = ga == ga;
gt = "a" == "a";
gt = true;
gt = false + 1;
gt = -true;
gi = true + 1;
gi = gt + 1;
gi = cast<int>(gd);
gi = cast<int>(gt);
gi = cast<int>(gp);
gi = cast<int>(gs);
gi = cast<int>(ga);
gi = cast<int>("s");
gi = cast<int>(f1);
gi = cast<undefined_t>(gi);
gi = cast<void>(gi);
gi = cast<S_t>(gi).a;
gi = cast<int[4]>(gi)[0];
gi = cast<byte>(gi);
gb = cast<byte>(gi);
gb = cast<byte>(gd);
gd = cast<double>(gi);
gd = cast<double>(gp);
gd = cast<float>(gd);
gp = cast<int*>(gi);
gp = cast<int*>(gd);
gp = cast<int*>(gsp);
gsp = cast<SP_t>(gp);
gp = cast<int*>(0);
gt = cast<bool>(gi);
gi = cast<int>(cast<int*>(cast<int>(gp)));
gi = cast<int>gi;
gi = cast<>(gi);
gi = cast(gi);
gi = cast<int>();
gi = sizeof(int);
gi = sizeof(S_t);
gi = sizeof(int[4]);
gi = sizeof(int*);
gi = sizeof(void);
gi = sizeof(undefined_t);
gi = sizeof(gi);
gi = sizeof(1);
gi = sizeof();
gi = sizeof int;
gi = "s";
gi = "s"[0];
gi = "s"->len;
gi = "s".len;
gb = "s"->txt[0];
gi = (gi;
gi = gi);
gi = ();
gi = (gi)(gi);
gi = gi gi;
gi = gi +;
gi = + ;
gi = * ;
gi = ;
= gi;
gi == gi;
gi = gi = gi;
gi += ;
gi ++ ;
gi++;
++gi;
gi--;
gi = gi++;
gi = gi ? 1 : 2;
gi = gi, gi;
gi = !gi;
gi = ~gi;
gi = gi && gi;
gi = gi || gi;
gi = gi != gi;
gi <<= gd;
gi /= 0;
gi %= 0;
gi >>= -1;
gs += 1;
ga += 1;
gp *= 2;
gt += 1;
gt = gt + gt;
gi = 99999999999999999999999;
gi = 4294967296;
gi = 2147483648;
gi = -2147483648;
gi = 0xffffffff;
gi = 0x1ffffffff;
var int x; var int x;
var int x; { var int x; x = 1; }
var int x = x;
var int gi; gi = 1;
var int f1; f1 = 1;
var int K;
var int int;
var int S_t;
var S_t S_t;
var int x = 1, y = x;
var int x = gd;
var double x = gi;
var bool x = gi;
var byte x = 300;
var int[4] x = ga;
var int[4] x = {1, 2, 3, 4};
var S_t x = gs;
var S_t x = {1, 2, {1, 2, 3, 4}};
var int* x = &x;
var int[gi] x;
var int[K] x; x[0] = 1;
var int[0] x; x[0] = 1;
var int[-1] x;
var int[1/0] x;
var int[100000000] x; x[0] = 1;
var void x;
var undefined_t x;
var struct { int a; } x; x.a = 1;
var struct { int a; }* x; x->a = 1;
var int volatile x; x = x + 1;
var x;
var int;
var int 1;
var int x y;
var int x =;
if (gi) { }
if (gt) { }
if (gd) { }
if (gp) { }
if (gs) { }
if (1) { }
if (true) { } else { }
if (gi < 1) gi = 1; else gi = 2;
if (gi < 1) if (gi < 2) gi = 1; else gi = 2;
if gi < 1 { }
if () { }
if (gi < 1) else { }
if (gi < 1) { } else
if (gi < 1) { } else else { }
else { }
while (gi) { }
while (1) { }
while (true) { }
while (gi < 1) gi += 1;
while () { }
while (gi < 1);
while (gi < 1)
for (gi = 0; gi < 10; gi += 1) { }
for (gi = 0; gi; gi += 1) { }
for (; gi < 10; ) { }
for (;;) { }
for (gi = 0; gi < 10) { }
for (gi = 0, gb = 1; gi < 10; gi += 1) { }
for (var int i = 0; i < 10; i += 1) { }
for (var int i = 0; i < 10; i += 1) { var int i; }
for (gi = 0; gi < 10; gi += 1;) { }
for (gi < 1; gi < 10; gi < 3) { }
for (f0(); gt; f0()) { }
for (if (gt) { }; gt; ) { }
for ({ }; gt; { }) { }
for (return; gt; ) { }
for gi = 0; gi < 10; gi += 1 { }
switch (gi) { }
switch (gi) { case 1: { } }
switch (gi) { case 1: { } case 1: { } }
switch (gi) { case 1: { } default: { } }
switch (gi) { default: { } default: { } }
switch (gi) { default: { } case 1: { } }
switch (gi) { case gi: { } default: { } }
switch (gi) { case K: { } default: { } }
switch (gi) { case 1/0: { } default: { } }
switch (gi) { case 1.5: { } default: { } }
switch (gi) { case true: { } default: { } }
switch (gi) { case "s": { } default: { } }
switch (gi) { case 1 + 1: { } case 2: { } default: { } }
switch (gi) { case -1: { } case 4294967295: { } default: { } }
switch (gi) { case 99999999999999999999: { } default: { } }
switch (gi) { case 1: gi = 1; case 2: gi = 2; default: gi = 3; }
switch (gi) { case 1: case 2: { } default: { } }
switch (gi) { case 1: { return; } default: { } }
switch (gi) { case 1: { break; } default: { } }
switch (gi) { gi = 1; }
switch (gi) { case: { } }
switch (gi) { case 1 { } }
switch (gi) { default { } }
switch (gd) { default: { } }
switch (gt) { case true: { } default: { } }
switch (gp) { default: { } }
switch (gs) { default: { } }
switch (gb) { case 300: { } default: { } }
switch (gb) { case 1: { } default: { } }
switch (f1(1)) { case 1: { switch (gi) { case 1: { } default: { } } } default: { } }
switch () { }
switch gi { }
switch (gi) case 1: { }
case 1: { }
default: { }
break;
continue;
goto x;
return;
return 1;
return gi;
return return;
{ return; } gi = 1;
while (true) { return; } gi = 1;
if (gt) { return; } else { return; } gi = 1;
{ { { gi = 1; } } }
{ var int a; } a = 1;
;;;;
'''


def _lines(b):
    return [l for l in b.split('\n') if l.strip()]


def c3_templates():
    out = []
    for l in _lines(C3_GLOBALS):
        out.append(('c3-global', C3_PRELUDE + l + '\n'))
    for l in _lines(C3_STMTS):
        out.append(('c3-stmt', C3_PRELUDE + 'function void test(int x, int* p, double d) {\n  %s\n}\n' % l))
        out.append(('c3-stmt-int', C3_PRELUDE + 'function int test2(int x) {\n  %s\n  return x;\n}\n' % l))
    return out


TOK = re.compile(r'"(?:[^"\\\n]|\\.)*"|[A-Za-z_][A-Za-z_0-9]*|\d[\w.]*|<<=|>>=|->|[-+*/%&|^<>=!]=|<<|>>|\n|\S')
KW = ['and', 'or', 'not', 'true', 'false', 'else', 'if', 'while', 'for', 'switch', 'case', 'default', 'break', 'return',
      'function', 'var', 'type', 'const', 'volatile', 'struct', 'cast', 'sizeof', 'enum', 'import', 'module', 'public',
      'int', 'byte', 'double', 'bool', 'void', 'string']
PUNCT = ['(', ')', '{', '}', '[', ']', ';', ',', '.', '->', '*', '&', '=', ':', '<', '>', '+', '-']


def mutate_c3(rng, src):
    toks = TOK.findall(src)
    idx = [i for i, t in enumerate(toks) if t != '\n']
    for _ in range(rng.choice([1, 1, 2, 3])):
        i = rng.choice(idx)
        c = rng.random()
        ids = [j for j in idx if re.match(r'[A-Za-z_]\w*$', toks[j]) and toks[j] not in KW]
        nums = [j for j in idx if re.match(r'\d', toks[j])]
        if c < 0.2 and ids:
            toks[rng.choice(ids)] = rng.choice(['undefined_name', toks[rng.choice(ids)], rng.choice(KW)])
        elif c < 0.32 and nums:
            toks[rng.choice(nums)] = rng.choice(['(1/0)', '-1', '0', '1.5', 'true', '"s"', '99999999999999999999',
                                                 '(1 << 100)', '0x', 'K'])
        elif c < 0.5:
            toks[i] = ''
        elif c < 0.6:
            toks[i] = toks[i] + ' ' + toks[i]
        elif c < 0.7:
            j = rng.choice(idx)
            toks[i], toks[j] = toks[j], toks[i]
        elif c < 0.85:
            toks[i] = toks[i] + ' ' + rng.choice(PUNCT + KW)
        else:
            toks[i] = rng.choice(PUNCT + KW)
    return ''.join('\n' if t == '\n' else t + ' ' for t in toks)


C3_INT_TYPES = [('int', 32, True), ('byte', 8, False), ('int8_t', 8, True), ('int16_t', 16, True), ('int32_t', 32, True),
                ('int64_t', 64, True), ('uint8_t', 8, False), ('uint16_t', 16, False), ('uint32_t', 32, False),
                ('uint64_t', 64, False)]
C3_B_CTX = ['var T x = @;', 'const T C = @;', 'const T K = @ - 1; var T x = K + 1;', 'const int K = 1; var T x = @ - K + K;',
            'var T x = cast<T>(@);', 'var T[2] x = {@, 1};', 'function void t() { var T x = @; }',
            'function void t() { var T x; x = @; }', 'function T t() { return @; }',
            'type struct { T a; } S; var S s = {.a = @};']
C3_B_INT = ['var int[@] x;', 'function void t(int v) { switch (v) { case @: { } default: { } } }',
            'function int t(int v) { return v + @; }', 'function bool t(int v) { return v < @; }', 'var int x = 1 << @;',
            'var int x = @ / 1;', 'var int x = @ % 7;', 'var int x = -(@);']


def c3_boundary():
    """[(kind, text)]: integer constants at max, max+1, min, min-1 of every C3 integer type, written directly and
    through constant expressions, in every place a constant can initialise or be converted to that type"""
    out = []
    for (t, bits, signed) in C3_INT_TYPES:
        hi = (1 << (bits - 1)) - 1 if signed else (1 << bits) - 1
        lo = -(1 << (bits - 1)) if signed else 0
        for v in (hi - 1, hi, hi + 1, hi + 2, lo + 1, lo, lo - 1, lo - 2, 2 * hi + 1, 2 * hi + 2):
            lit = str(v) if v >= 0 else '(-%d)' % -v
            forms = [lit, hex(v) if v >= 0 else lit, '(%s + 0)' % lit]
            if v > 0:
                forms.append('(%d + 1)' % (v - 1))
            else:
                forms.append('(%s - 1)' % (str(v + 1) if v + 1 >= 0 else '(-%d)' % -(v + 1)))
            for f in forms:
                for c in C3_B_CTX:
                    out.append(('c3-boundary', 'module m;\n' + c.replace('T', t).replace('@', f) + '\n'))
    for v in (0, 1, 31, 32, 33, 63, 64, 65, 255, 256, 65535, 65536, 2147483647, 2147483648, 2147483649, 4294967295,
              4294967296, 9223372036854775807, 9223372036854775808, 18446744073709551615, 18446744073709551616):
        for c in C3_B_INT:
            if v > 70000 and ('[@]' in c or '<< @' in c):
                continue      # no multi-gigabyte objects / numbers
            out.append(('c3-boundary', 'module m;\n' + c.replace('@', str(v)) + '\n'))
            out.append(('c3-boundary', 'module m;\nconst int K = 1;\n' + c.replace('@', '(%d - K + K)' % v) + '\n'))
    seen, res = set(), []
    for k, s in out:
        if s not in seen:
            seen.add(s)
            res.append((k, s))
    return res


C3_BINOPS = ['+', '-', '*', '/', '%', '<<', '>>', '|', '&', '^', '==', '!=', '<', '>', '<=', '>=', 'and', 'or']
C3_ZEROS = ['0', '0.0', '-0.0', '(1 - 1)', '(2.5 - 2.5)', 'Z', 'ZF', 'cast<int>(0.4)']
C3_LHS = ['7', '7.25', '-1.5', 'K', 'KF']
C3_OP_CTX = ['const int C = @;', 'const double C = @;', 'var int x = @;', 'var double x = @;', 'var int[@] a;',
             'function void t(int v) { switch (v) { case @: { } default: { } } }',
             'function void t() { var double d = @; }', 'function void t() { var int i = @; }']


def c3_const_ops():
    """[(kind, text)]: every C3 binary operator x {int, float, mixed} operands x a right operand that is a zero
    (literal 0, 0.0, -0.0, constant expressions evaluating to zero) in every constant context"""
    pre = 'module m;\nconst int Z = 0;\nconst double ZF = 0.0;\nconst int K = 7;\nconst double KF = 7.25;\n'
    out = []
    for op in C3_BINOPS:
        for a in C3_LHS:
            for z in C3_ZEROS:
                for c in C3_OP_CTX:
                    out.append(('c3-boundary', pre + c.replace('@', '%s %s %s' % (a, op, z)) + '\n'))
    return out
