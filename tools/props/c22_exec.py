"""C22 helpers: independent Python oracle of WasmNumSpec (integer part), operand pools, execution of
one-instruction modules through the real ppci targets, float boundary tests (tests only)."""
import math
import struct


# ---------------------------------------------------------------- independent oracle (bit-string style)
def _u(n, s):
    return s & ((1 << n) - 1)


def _s(n, u):
    return u - (1 << n) if u >> (n - 1) else u


def _bits(n, u):
    return format(u, '0%db' % n)          # msb first


def _trunc_div(a, b):
    q = abs(a) // abs(b)
    return q if (a < 0) == (b < 0) else -q


def oracle(op, args):
    """op = 'i32.add' ..., args = signed ints. Returns signed result, or 'trap'."""
    ty, name = op.split('.')
    n = 32 if ty == 'i32' else 64
    if name == 'wrap_i64':
        return _s(32, _u(32, _u(64, args[0])))
    if name == 'extend_i32_s':
        return _s(64, _u(64, _s(32, _u(32, args[0]))))
    if name == 'extend_i32_u':
        return _s(64, _u(32, args[0]))
    ua = _u(n, args[0])
    sa = _s(n, ua)
    if len(args) == 2:
        ub = _u(n, args[1])
        sb = _s(n, ub)
        k = ub % n
    bs = _bits(n, ua)
    if name == 'add':
        r = _u(n, ua + ub)
    elif name == 'sub':
        r = _u(n, ua - ub + (1 << n))
    elif name == 'mul':
        r = _u(n, ua * ub)
    elif name == 'div_u':
        if ub == 0:
            return 'trap'
        r = ua // ub
    elif name == 'rem_u':
        if ub == 0:
            return 'trap'
        r = ua - ub * (ua // ub)
    elif name == 'div_s':
        if sb == 0:
            return 'trap'
        q = _trunc_div(sa, sb)
        if q == 1 << (n - 1):
            return 'trap'
        r = _u(n, q)
    elif name == 'rem_s':
        if sb == 0:
            return 'trap'
        r = _u(n, sa - sb * _trunc_div(sa, sb))
    elif name in ('and', 'or', 'xor'):
        bb = _bits(n, ub)
        f = {'and': lambda p, q: p == '1' and q == '1', 'or': lambda p, q: p == '1' or q == '1',
             'xor': lambda p, q: p != q}[name]
        r = int(''.join('1' if f(p, q) else '0' for p, q in zip(bs, bb)), 2)
    elif name == 'shl':
        r = int((bs + '0' * k)[-n:], 2)
    elif name == 'shr_u':
        r = int(('0' * k + bs)[:n], 2)
    elif name == 'shr_s':
        r = int((bs[0] * k + bs)[:n], 2)
    elif name == 'rotl':
        r = int(bs[k:] + bs[:k], 2)
    elif name == 'rotr':
        r = int(bs[n - k:] + bs[:n - k], 2)
    elif name == 'clz':
        r = len(bs) - len(bs.lstrip('0'))
    elif name == 'ctz':
        r = len(bs) - len(bs.rstrip('0'))
    elif name == 'popcnt':
        r = bs.count('1')
    elif name in ('extend8_s', 'extend16_s', 'extend32_s'):
        m = int(name[6:-2])
        r = _u(n, _s(m, _u(m, ua)))
    elif name == 'eqz':
        return int(ua == 0)
    elif name in ('eq', 'ne', 'lt_s', 'lt_u', 'gt_s', 'gt_u', 'le_s', 'le_u', 'ge_s', 'ge_u'):
        x, y = (sa, sb) if name.endswith('_s') else (ua, ub)
        return int({'eq': x == y, 'ne': x != y, 'lt': x < y, 'gt': x > y, 'le': x <= y, 'ge': x >= y}[name[:2]])
    else:
        raise KeyError(op)
    return _s(n, r)


# ---------------------------------------------------------------- operand pools
def value_pool(n, rng, extra_random=3):
    mn, mx = -(1 << (n - 1)), (1 << (n - 1)) - 1
    vals = [0, 1, -1, 2, -2, 3, mn, mx, mn + 1, mx - 1, n - 1, n, n + 1, 2 * n - 1, 2 * n, 2 * n + 1, -n, -(n - 1),
            0x55555555 if n == 32 else 0x5555555555555555, -0x55555556 if n == 32 else -0x5555555555555556]
    for k in (7, 8, 15, 16, 31, 32, 33, 62):
        if k < n - 1:
            vals += [1 << k, (1 << k) - 1, (1 << k) + 1, -(1 << k), -(1 << k) - 1]
    for _ in range(extra_random):
        vals.append(rng.randrange(mn, mx + 1))
    out = []
    for v in vals:
        if mn <= v <= mx and v not in out:
            out.append(v)
    return out


def operand_tuples(op, tys, rng, per_op):
    """boundary tuples for one opcode; per_op bounds the number for binary opcodes (None = full product)"""
    pools = [value_pool(32 if t == 'i32' else 64, rng) for t in tys]
    if len(tys) == 1:
        return [(v,) for v in pools[0]]
    full = [(a, b) for a in pools[0] for b in pools[1]]
    if per_op is None or per_op >= len(full):
        return full
    n = 32 if tys[0] == 'i32' else 64
    mn = -(1 << (n - 1))
    must = [(mn, -1), (mn, 0), (0, 0), (1, 0), (-1, 0), (mn, 1), (mn, mn), (-1, -1), (7, -2), (-7, 2), (-7, -2), (7, 2),
            (1, n), (1, n + 1), (1, n - 1), (-1, n), (-8, -(n - 1)), (mn, 2 * n + 1), (3, -n)]
    pick = [t for t in must if t in set(full)]
    rest = [t for t in full if t not in set(pick)]
    rng.shuffle(rest)
    return pick + rest[:max(0, per_op - len(pick))]


# ---------------------------------------------------------------- execution through ppci
def instantiate_ops(module_text, target='python'):
    from ppci.wasm import Module, instantiate
    return instantiate(Module(module_text), {}, target=target)


def run_export(inst, name, args):
    """('ok', value) | ('trap', msg) | ('exc', 'Type: msg')"""
    from ppci.wasm.execution._base_instance import WasmTrapException
    try:
        return ('ok', getattr(inst.exports, name)(*args))
    except WasmTrapException as ex:
        return ('trap', str(ex))
    except Exception as ex:   # noqa: BLE001
        return ('exc', '%s: %s' % (type(ex).__name__, str(ex)[:80]))


# ---------------------------------------------------------------- float boundary tests (tests, not proofs)
def f64_of(bits):
    return struct.unpack('<d', struct.pack('<Q', bits))[0]


def bits_of(x):
    return struct.unpack('<Q', struct.pack('<d', x))[0]


NAN, PINF, NINF = 0x7ff8000000000000, 0x7ff0000000000000, 0xfff0000000000000
NZERO = 0x8000000000000000
FLOAT_POOL = [0x0, NZERO, NAN, PINF, bits_of(0.5), bits_of(-0.5), bits_of(1.5), bits_of(2.5), bits_of(-1.0),
              bits_of(2147483647.0), bits_of(2147483648.0), bits_of(-2147483648.0), bits_of(-2147483649.0),
              bits_of(4294967295.0), bits_of(4294967296.0), bits_of(9.3e18), bits_of(1.9e19)]
FLOAT_UNOPS = ['f64.nearest', 'f64.trunc', 'f64.ceil', 'f64.floor']
FLOAT_BINOPS = ['f64.min', 'f64.max']
FLOAT_TRUNC = ['i32.trunc_f64_s', 'i32.trunc_f64_u', 'i64.trunc_f64_s', 'i64.trunc_f64_u',
               'i32.trunc_sat_f64_s', 'i32.trunc_sat_f64_u', 'i64.trunc_sat_f64_s', 'i64.trunc_sat_f64_u']
FLOAT_BIN_POOL = [0x0, NZERO, NAN, bits_of(1.0)]


def float_oracle(op, xs):
    """expected ('ok', float bits | int) or ('trap',) per the WebAssembly spec 4.3.3 / 4.3.4; NaN -> ('nan',)"""
    x = xs[0]
    name = op.split('.')[1]
    if op in FLOAT_UNOPS:
        if math.isnan(x):
            return ('nan',)
        if math.isinf(x):
            return ('ok', bits_of(x))
        if name == 'nearest':
            r = float(round(x))         # Python round = half to even on floats
        elif name == 'trunc':
            r = float(math.trunc(x))
        elif name == 'ceil':
            r = float(math.ceil(x))
        else:
            r = float(math.floor(x))
        if r == 0.0:
            r = math.copysign(0.0, x)
        return ('ok', bits_of(r))
    if op in FLOAT_BINOPS:
        y = xs[1]
        if math.isnan(x) or math.isnan(y):
            return ('nan',)
        if x == y == 0.0:
            neg = math.copysign(1, x) < 0 or math.copysign(1, y) < 0 if name == 'min' else \
                math.copysign(1, x) < 0 and math.copysign(1, y) < 0
            return ('ok', NZERO if neg else 0)
        return ('ok', bits_of(min(x, y) if name == 'min' else max(x, y)))
    # truncations
    n = 32 if op.startswith('i32') else 64
    signed = op.endswith('_s')
    lo, hi = (-(1 << (n - 1)), (1 << (n - 1)) - 1) if signed else (0, (1 << n) - 1)
    sat = 'sat' in op
    if math.isnan(x):
        return ('ok', 0) if sat else ('trap',)
    if math.isinf(x):
        return ('ok', _s(n, _u(n, hi if x > 0 else lo))) if sat else ('trap',)
    t = math.trunc(x)
    if t < lo or t > hi:
        return ('ok', _s(n, _u(n, min(max(t, lo), hi)))) if sat else ('trap',)
    return ('ok', _s(n, _u(n, t)))


def float_cases():
    """[(op, [operand bits])]"""
    out = []
    for op in FLOAT_UNOPS + FLOAT_TRUNC:
        for b in FLOAT_POOL:
            out.append((op, [b]))
    for op in FLOAT_BINOPS:
        for a in FLOAT_BIN_POOL:
            for b in FLOAT_BIN_POOL:
                out.append((op, [a, b]))
    return out


def float_module_text():
    funcs = []
    for op in FLOAT_UNOPS:
        funcs.append('(func $f (export "%s") (param f64) (result f64) (local.get 0) (%s))' % (op.replace('.', '_'), op))
    for op in FLOAT_BINOPS:
        funcs.append('(func $f (export "%s") (param f64) (param f64) (result f64) (local.get 0) (local.get 1) (%s))'
                     % (op.replace('.', '_'), op))
    for op in FLOAT_TRUNC:
        funcs.append('(func $f (export "%s") (param f64) (result %s) (local.get 0) (%s))'
                     % (op.replace('.', '_'), op[:3], op))
    # distinct $ids
    funcs = [f.replace('$f ', '$g%d ' % i) for i, f in enumerate(funcs)]
    return '(module\n' + '\n'.join(funcs) + ')'


def float_check(outcome, expected):
    """does the implementation outcome satisfy the expectation?"""
    if expected[0] == 'trap':
        return outcome[0] == 'trap'
    if outcome[0] != 'ok':
        return False
    v = outcome[1]
    if expected[0] == 'nan':
        return isinstance(v, float) and math.isnan(v)
    if isinstance(v, float):
        return bits_of(v) == expected[1]
    return v == expected[1]
