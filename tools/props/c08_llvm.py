"""C08 search-only oracle: ppci's printed instruction, assembled by llvm-mc, must give ppci's bytes.

Validation, not proof.  For every instruction class (traced AND custom, incl. RVC) of the ISAs that
llvm-mc (LLVM 14) supports, concrete operand tuples are instantiated, str(ins) is translated to the
LLVM dialect by a small per-ISA normaliser, assembled with `llvm-mc -show-encoding` (one batch per
ISA) and compared with ins.encode().  Lines llvm-mc rejects, encodings with fixups, and classes in
EXCLUDE are skipped and counted, never reported.
"""
import os
import re
import subprocess
from props import c08_trace as T
from ppci.arch.encoding import Constructor, Operand

LLVM_MC = 'llvm-mc'

# arch key -> (ppci arch name, llvm-mc arguments, prologue lines)
TARGETS = {
    'riscv_rvc': ('riscv:rvc', ['-triple=riscv32', '-mattr=+c,+m,+f,+d'], []),
    'arm': ('arm', ['-triple=armv7a-none-eabi', '-mattr=+hwdiv-arm'], []),
    'thumb': ('arm:thumb', ['-triple=thumbv6m-none-eabi'], ['.syntax unified']),
    'x86_64': ('x86_64', ['-triple=x86_64-unknown-linux'], ['.intel_syntax noprefix']),
    'msp430': ('msp430', ['-triple=msp430'], []),
    'avr': ('avr', ['-triple=avr', '-mcpu=atmega328p'], []),
    'm68k': ('m68k', ['-triple=m68k'], []),
    'mips': ('mips', ['-triple=mipsel', '-mcpu=mips32'], ['.set noreorder', '.set noat']),
}

# (arch, class name) -> reason: dialect / semantic differences triaged on the unchanged tree; not compared
EXCLUDE = {
    ('msp430', 'Call'): 'call #N: ppci uses the constant generator (call r3/As) for small N, llvm-mc the immediate form; '
                        'both are valid encodings, llvm disassembles them differently',
}

DATA_CLASSES = ('Db', 'Dw', 'Dw2', 'Dd', 'Dq', 'Dq2', 'Ds', 'DZero', 'Dcd2', 'DByte', 'Dcd')

INT_POOL = sorted(set(
    [0, 1, 2, 3, 5, 7, 9, 10, 12, 18, 21, 30, 33, 40, 42, 60, 85, 100, 124, 127, 128, 129, 170, 200, 252, 255, 256, 257,
     0x123, 0x555, 0x7FF, 0x800, 0xABC, 0xFFF, 0x1234, 0x5555, 0x7FFF, 0x8000, 0xFFFF, 0x12345, 0x7FFFF, 0xFFFFF,
     0x12345678, 0x7FFFFFFF, 0xFFFFFFFF]
    + [1 << k for k in range(0, 21)] + [(1 << k) - 4 for k in range(3, 13)] + [4 * x for x in (3, 5, 9, 10, 17, 33, 43)]
    + [126, 127, 128, 129, 254, 255, 256, 32766, 32767, 32768, 32769, 65535, 65536, (1 << 31) - 2, (1 << 31) - 1, 1 << 31,
       (1 << 32) - 1, -126, -127, -128, -129, -130, -32767, -32768, -32769, -(1 << 31) + 1, -(1 << 31), -(1 << 31) - 1]
    + [-1, -2, -3, -4, -5, -8, -12, -16, -18, -30, -33, -64, -100, -128, -129, -255, -256, -1000, -2048, -2049, -4095]))


def render(obj):
    """like Syntax.render but with a blank between syntax elements (ppci omits them in several classes)"""
    parts = []
    for e in obj.syntax.syntax:
        if isinstance(e, str):
            parts.append(e)
        else:
            v = e.__get__(obj)
            parts.append(render(v) if isinstance(v, Constructor) and v.syntax else str(v))
    s = ' '.join(p for p in parts if p.strip() != '')
    s = re.sub(r'\s*\.\s*', '.', s) if re.match(r'^\s*[a-z]+\s*\.', s) else s
    return s


# ------------------------------------------------------------------ per-ISA dialect normalisers
def n_riscv(s, ins):
    if not s.startswith('c.'):
        return '.option norvc\n' + s       # do not let llvm-mc pick the compressed form of a base instruction
    m = re.match(r'^(c\.(?:srli|srai|andi|slli|addi))\s+(\w+)\s*,\s*(\w+)\s*,\s*(.+)$', s)
    if m:
        if m.group(2) != m.group(3):
            return None           # rd != rs: known finding, not an LLVM-expressible instruction
        s = '%s %s, %s' % (m.group(1), m.group(2), m.group(4))
    return '.option rvc\n' + s


def n_arm(s, ins):
    return s


THUMB_S = ('mov', 'add', 'sub', 'and', 'orr', 'eor', 'lsl', 'lsr', 'asr', 'rsb', 'mul', 'adc', 'sbc', 'ror', 'bic', 'mvn', 'neg')


def n_thumb(s, ins):
    # ppci's thumb dialect is pre-UAL: the 16-bit ALU forms set the flags (UAL: adds/movs/...)
    head, _, rest = s.partition(' ')
    if head in THUMB_S and not re.search(r'\b(sp|pc|SP|PC|R8|R9|R1[0-5]|LR)\b', rest):
        if head == 'mov' and re.search(r',\s*[Rr]\d+\s*$', rest):
            return s
        if head == 'neg':
            return 'rsbs %s, #0' % rest
        if head == 'rsb':
            return 'rsbs %s, #0' % rest
        if head == 'mul':
            a = [x.strip() for x in rest.split(',')]
            if len(a) == 2:
                return 'muls %s, %s, %s' % (a[1], a[0], a[1])
        return head + 's ' + rest
    return s


def n_x86(s, ins):
    # ppci prints memory operands as [base, disp] / [base, index, disp]; intel syntax wants sums
    def mem(m):
        parts = [x.strip() for x in m.group(1).split(',')]
        out = parts[0]
        for x in parts[1:]:
            out += (' - ' + x[1:].strip()) if x.startswith('-') else (' + ' + x)
        return '[' + out + ']'
    return re.sub(r'\[([^\]]*,[^\]]*)\]', mem, s)


def n_msp430(s, ins):
    return s


def n_avr(s, ins):
    s = re.sub(r'\b([xyz])\b', lambda m: m.group(1).upper(), s)
    return s


def n_m68k(s, ins):
    m = re.match(r'^([a-z]+?)([bwl])\s+(.*)$', s)
    if m and m.group(1) in ('add', 'sub', 'and', 'or', 'eor', 'cmp', 'move', 'movea', 'neg', 'not', 'clr', 'tst',
                            'adda', 'suba', 'muls', 'mulu', 'divs', 'divu', 'ext', 'asl', 'asr', 'lsl', 'lsr'):
        s = '%s.%s %s' % (m.group(1), m.group(2), m.group(3))
    s = re.sub(r'\b([DA])([0-7])\b', lambda x: '%%%s%s' % (x.group(1).lower(), x.group(2)), s)
    s = re.sub(r'\bSP\b', '%sp', s)
    return s


def n_mips(s, ins):
    head, _, rest = s.partition(' ')
    rest = re.sub(r'\br(\d+)\b', r'$\1', rest)
    rest = re.sub(r'(?<![\w$])(zero|at|v[01]|a[0-3]|t[0-9]|s[0-8]|k[01]|gp|sp|fp|ra)\b', r'$\1', rest)
    return head + ' ' + rest


NORMALISE = {'riscv_rvc': n_riscv, 'arm': n_arm, 'thumb': n_thumb, 'x86_64': n_x86, 'msp430': n_msp430, 'avr': n_avr,
             'm68k': n_m68k, 'mips': n_mips}


# ------------------------------------------------------------------ instances
def instances(rng, cls, extra_random, max_variants):
    """yield (variant path, operand values, instance) for concrete operand tuples of every variant.
    DETERMINISTIC part (independent of the seed, so that a class with a defect always shows it): the variants are
    evenly spaced; every immediate operand runs through the whole INT_POOL four times: with all register operands
    equal (register position 0 and len/4 of the class register list) and with pairwise different registers
    (starting at position len/4 and at the last position).  Only the `extra_random` additional tuples use the seed."""
    holder = {}

    def mk(leaf, i):
        return holder['mk'](leaf, i)
    holder['mk'] = lambda leaf, i: (T.real_reg(leaf['cls'], leaf['nums'][0]) if leaf['kind'] == 'reg'
                                    else 0 if leaf['kind'] == 'imm' else 'lab')
    shapes = []
    for args, lv, path in T.variants(cls, [], mk):
        shapes.append((lv, path))
        if len(shapes) >= T.MAXCOMB:
            break
    if len(shapes) > max_variants:
        shapes_idx = sorted({(k * len(shapes)) // max_variants for k in range(max_variants)})
    else:
        shapes_idx = list(range(len(shapes)))
    P = len(INT_POOL)
    for vi in shapes_idx:
        lv, path = shapes[vi]
        n_imm = sum(1 for l in lv if l['kind'] == 'imm')
        plans = []          # (register mode, start position selector, k)
        if not lv:
            plans = [('same', 0, 0)]
        elif n_imm:
            for mode, sel in (('same', 0), ('same', 1), ('diff', 1), ('diff', 2)):
                plans += [(mode, sel, k) for k in range(P)]
        else:
            for mode, sel in (('same', 0), ('same', 1), ('diff', 1), ('diff', 2)):
                plans += [(mode, sel, k) for k in range(6)]
        tuples = []
        for mode, sel, k in plans:
            vals, jr = [], 0
            for j, leaf in enumerate(lv):
                if leaf['kind'] == 'reg':
                    nums = leaf['nums']
                    start = (0, len(nums) // 4, len(nums) - 1)[sel]
                    if n_imm == 0:
                        start += k * 5          # register-only classes: walk through the register list
                    vals.append(nums[(start + (jr if mode == 'diff' else 0)) % len(nums)])
                    jr += 1
                elif leaf['kind'] == 'imm':
                    vals.append(INT_POOL[(k + j * 13) % P])
                else:
                    vals.append(0)
            tuples.append(vals)
        for _ in range(extra_random if lv else 0):
            tuples.append([rng.choice(l['nums']) if l['kind'] == 'reg' else rng.choice(INT_POOL) if l['kind'] == 'imm' else 0
                           for l in lv])
        seen = set()
        for vals in tuples:
            if tuple(vals) in seen:
                continue
            seen.add(tuple(vals))
            try:
                ins = build(cls, iter(path), iter(zip(lv, vals)))
            except Exception:   # noqa: BLE001
                continue
            yield '/'.join(path), vals, ins


def build(cls, path_it, val_it):
    """instance of cls for the composite-option choices in path_it (DFS order) and the leaf values in val_it"""
    args = []
    for fa in cls.syntax.formal_arguments:
        c = fa._cls
        if fa.is_constructor:
            name = next(path_it)
            opts = list(c) if isinstance(c, tuple) else [c]
            opt = [o for o in opts if o.__name__ == name][0]
            args.append(build(opt, path_it, val_it))
        else:
            leaf, v = next(val_it)
            args.append(T.real_reg(leaf['cls'], v) if leaf['kind'] == 'reg' else v if leaf['kind'] == 'imm' else 'lab')
    return cls(*args)


def run_llvm(args, prologue, lines, timeout=300):
    """assemble lines (one instruction each); returns list of bytes | None (rejected / fixup)"""
    src = list(prologue)
    for k, l in enumerate(lines):
        src.append('Lq%d:' % k)
        src.append(l)
    src.append('Lq%d:' % len(lines))
    p = subprocess.run(['timeout', str(timeout), LLVM_MC] + args + ['-show-encoding'], input='\n'.join(src) + '\n',
                       stdout=subprocess.PIPE, stderr=subprocess.DEVNULL, text=True)
    out = [None] * len(lines)
    cur, acc, bad = None, [], False
    for ln in p.stdout.splitlines():
        m = re.match(r'^\.?Lq(\d+):', ln.strip())
        if m:
            if cur is not None and cur < len(lines) and acc and not bad:
                out[cur] = bytes(acc)
            cur, acc, bad = int(m.group(1)), [], False
            continue
        m = re.search(r'encoding: \[(.*)\]', ln)
        if m and cur is not None:
            for tok in m.group(1).split(','):
                tok = tok.strip()
                if re.fullmatch(r'0x[0-9a-fA-F]{2}', tok):
                    acc.append(int(tok, 16))
                else:
                    bad = True      # fixup placeholder (A, 0bAAAA..., 'A')
    return out


DISASM_ARGS = {'x86_64': ['--output-asm-variant=1']}
# the LLVM 14 AVR disassembler crashes when printing displacement operands: byte differences of these mnemonics cannot
# be classified (equivalent encoding / llvm truncation / defect) and are skipped and counted
NO_DISASM = {'avr': ('ldd', 'std')}


def _disasm_run(args, extra, blobs):
    inp = '\n'.join(' '.join('0x%02x' % x for x in b) for b in blobs) + '\n'
    env = dict(os.environ, LLVM_DISABLE_SYMBOLIZATION='1', LLVM_DISABLE_CRASH_REPORT='1')
    p = subprocess.run(['timeout', '120', LLVM_MC, '--disassemble', '-show-encoding'] + args + extra, input=inp,
                       stdout=subprocess.PIPE, stderr=subprocess.PIPE, text=True, env=env)
    badlines = sorted({int(m.group(1)) - 1 for m in re.finditer(r'<stdin>:(\d+):\d+: (?:warning|error)', p.stderr)})
    items = []
    for l in p.stdout.splitlines():
        m = re.search(r'^(.*?)\s*[#@;/|]+\s*encoding: \[(.*)\]', l)
        if m:
            items.append(re.sub(r'\s+', ' ', m.group(1).strip()))
    return items, badlines, p.returncode


def disasm_many(args, extra, blobs, chunk=400):
    """-> {bytes: llvm disassembly text | None}.  Batched: items llvm reports as invalid are dropped and the batch is
    re-run; a batch whose instruction count differs from its item count (an item decoding to several instructions; the
    printed encodings drop redundant prefixes, so lengths cannot be used to cut the stream) is halved."""
    out = {}
    todo = sorted(set(b for b in blobs if b))

    def go(lst, depth=0):
        while lst:
            items, bad, rc = _disasm_run(args, extra, lst)
            bad = [k for k in bad if 0 <= k < len(lst)]
            if not bad:
                break
            for k in bad:
                out[lst[k]] = None
            keep = set(range(len(lst))) - set(bad)
            lst = [x for k, x in enumerate(lst) if k in keep]
        if not lst:
            return
        if len(lst) == 1:
            out[lst[0]] = ' ; '.join(items) if items else None
        elif len(items) == len(lst):
            out.update(zip(lst, items))
        elif depth > 12:
            for x in lst:
                out[x] = None
        else:
            go(lst[:len(lst) // 2], depth + 1)
            go(lst[len(lst) // 2:], depth + 1)
    for i in range(0, len(todo), chunk):
        go(todo[i:i + chunk])
    return out


def ints_of(text):
    out = set()
    for m in re.finditer(r'(?<![\w$%.])(-?\s*(?:0x[0-9a-fA-F]+|\d+))\b', text):
        try:
            out.add(int(m.group(1).replace(' ', ''), 0))
        except ValueError:
            pass
    return out


def same_ints(src_text, dis_text):
    """every integer literal of the assembler input shows up (mod 2^8/16/32/64 two's complement) in llvm's own
    disassembly of what it assembled: otherwise llvm truncated/re-interpreted the operand and is no reference"""
    have = ints_of(dis_text)
    ext = set(have)
    for v in have:
        for w in (8, 16, 32, 64):
            ext.add(v % (1 << w))
            ext.add(v % (1 << w) - (1 << w))
    return all(v in ext for v in ints_of(src_text))


def issue_class(key, cn, text, ref, bs):
    """systematic families are reported under one class name (one known-finding entry each)"""
    if key == 'x86_64' and re.search(r'\b[abcd]h\b', text):
        return '*high-byte-register*'
    if key == 'm68k' and cn.endswith('l') and len(ref) == len(bs) + 2:
        return '*long-immediate-16bit*'
    return cn


def benign(key, cn, text, ref, bs):
    """differences that are not encoding defects"""
    if (key == 'm68k' and cn.endswith('b') and re.match(r'^\S+\s+#', text) and len(ref) == len(bs) >= 4
            and all(x == y for i, (x, y) in enumerate(zip(ref, bs)) if i != 2)):
        return 'byte immediate: the upper byte of the extension word is ignored by the CPU'
    return None


def canon(key, text):
    """alternative encodings of the same instruction disassemble to the same text (up to these aliases)"""
    t = text.lower()
    if key == 'x86_64':
        t = t.replace('movabs', 'mov')
    if key == 'msp430':     # 16-bit machine: #-1 and #65535 are the same immediate
        t = re.sub(r'(?<![a-z])-?\d+', lambda m: str(int(m.group(0)) % 65536), t)
        t = re.sub(r'^br (.*)$', r'mov \1, r0', t).replace('pc', 'r0')      # br x is the alias of mov x, pc
    return t


def oracle(ctx, quick, classes_per_isa=None):
    """returns (stats per arch, mismatches [dict])"""
    from ppci.api import get_arch
    from ppci.arch.generic_instructions import VirtualInstruction
    stats, mismatches = {}, []
    for key, (an, args, prologue) in TARGETS.items():
        st = dict(classes=0, lines=0, compared=0, agree=0, rejected_by_llvm=0, ppci_raises=0, excluded_classes=0,
                  untranslatable=0, mismatch_classes=0)
        stats[key] = st
        try:
            isa = get_arch(an).isa
        except Exception:   # noqa: BLE001
            continue
        classes, seen = [], set()
        for c in isa.instructions:
            if id(c) in seen or c.syntax is None or issubclass(c, VirtualInstruction):
                continue
            seen.add(id(c))
            if c.__module__.endswith('data_instructions') or c.__name__ in DATA_CLASSES:
                continue
            if (key, c.__name__) in EXCLUDE:
                st['excluded_classes'] += 1
                continue
            classes.append(c)
        if classes_per_isa and len(classes) > classes_per_isa:
            classes = ctx.rng.sample(classes, classes_per_isa)
        recs, lines = [], []
        for c in classes:
            st['classes'] += 1
            try:
                gen = list(instances(ctx.rng, c, 0 if quick else 2 * len(INT_POOL), 8 if quick else 16))
            except Exception:   # noqa: BLE001
                st['untranslatable'] += 1
                continue
            for path, vals, ins in gen:
                try:
                    bs = bytes(ins.encode())
                    printed = str(ins)
                    text = NORMALISE[key](render(ins), ins)
                except Exception:   # noqa: BLE001
                    st['ppci_raises'] += 1
                    continue
                if text is None or not bs:
                    st['untranslatable'] += 1
                    continue
                recs.append((c.__name__, path, vals, printed, text, bs))
                lines.append(text)
        st['lines'] = len(lines)
        res = run_llvm(args, prologue, lines) if lines else []
        badcls = set()
        cand = []
        for (cn, path, vals, printed, text, bs), ref in zip(recs, res):
            if ref is None:
                st['rejected_by_llvm'] += 1
                continue
            st['compared'] += 1
            if ref == bs:
                st['agree'] += 1
            else:
                cand.append((cn, path, vals, printed, text, bs, ref))
        nd = [c for c in cand if c[4].split('\n')[-1].split(' ')[0] in NO_DISASM.get(key, ())]
        if nd:
            st['undecidable_without_disassembler'] = len(nd)
            cand = [c for c in cand if c not in nd]
        dis = disasm_many(args, DISASM_ARGS.get(key, []), [c[6] for c in cand]) if cand else {}
        live = [c for c in cand if dis.get(c[6]) is not None and same_ints(c[4].split('\n')[-1], dis[c[6]])]
        if live:
            dis.update(disasm_many(args, DISASM_ARGS.get(key, []), [c[5] for c in live if c[5] not in dis]))
        for (cn, path, vals, printed, text, bs, ref) in cand:
            d_ppci, d_ref = dis.get(bs), dis.get(ref)
            src = text.split('\n')[-1]
            if d_ref is None or not same_ints(src, d_ref):
                st['llvm_reinterprets_operand'] = st.get('llvm_reinterprets_operand', 0) + 1
                continue
            if ' ; ' in d_ref:
                st['llvm_macro_expansion'] = st.get('llvm_macro_expansion', 0) + 1
                continue
            if d_ppci is not None and canon(key, d_ppci) == canon(key, d_ref):
                st['equivalent_encoding'] = st.get('equivalent_encoding', 0) + 1
                continue
            if benign(key, cn, src, ref, bs):
                st['benign_difference'] = st.get('benign_difference', 0) + 1
                continue
            cn = issue_class(key, cn, src, ref, bs)
            badcls.add(cn)
            mismatches.append(dict(arch=key, cls=cn, variant=path, args=vals, printed=printed, llvm_input=src,
                                   expected=ref.hex(), actual=bs.hex(), llvm_reads_ppci_bytes_as=d_ppci,
                                   llvm_reads_its_bytes_as=d_ref))
        st['mismatch_classes'] = len(badcls)
    return stats, mismatches
