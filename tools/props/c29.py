"""C29 — code generation succeeds for supported IR on mature targets (DESIGN §4 C29).  PARTIAL (LEVEL other).

Proved core (tie I + H): cover completeness of the tree grammar of x86_64, arm, thumb, riscv, riscv+rvc.
  regen      exports the BurgSystem that InstructionSelector1 really builds (isa.patterns + CALL/ASM/UND rules)
             and the target description (pointer type, value types, register classes) to Gen/Tab_burg_<t>.v
  Coq        Model/BurgCover.v (labeller model + closure check), Spec/IRTrees.v (language of trees irdag/dagsplit
             build), Spec/C29Known.v (known uncovered operators / leaf-value restrictions), Proofs/C29_*.v, Props/C29.v
  corr       every tree handed to TreeSelector.gen while compiling generated IR + C samples must be in the
             modelled language (in_langb) and the labeller model must derive exactly what the real
             TreeSelector.burm_label derives on the usable rules; a tree the real selector rejects must be
             rejected by the model (otherwise the theorem would be contradicted)
  search     ppci.api.ir_to_object on generated IR per target / optimisation level: every exception is
             classified (known finding or violation); every known uncovered operator is re-executed on a
             one-instruction IR function on every run.
"""
import io
import os
import re
import traceback

from vlib import TieBroken, COQ

from . import c29_export as ex
from . import c29_replay as rp

LEVEL = 'other'
RULE = ('per target (x86_64, arm, thumb, riscv, riscv+rvc): irgen modules (integer types restricted to the value '
        'types of the target, all binops/unops/casts/loads/stores/globals/calls/CopyBlob/floats where supported) at '
        'optimize level 0 and 2 x opt=speed/size, plus C samples through api.cc; one evaluation = one function '
        'compiled; distinct non-trivial = distinct selection-tree shapes (operator names, no values) handed to '
        'TreeSelector.gen that have at least one operator child')
EXPLANATION = ('Proved: for each target, every statement tree of the hand-modelled language of selection trees '
               '(Spec/IRTrees.v, minus the known uncovered operators of Spec/C29Known.v, with i8 constants >= 0 on arm '
               'and frames < 2 KiB on riscv) has a cover deriving stm from the rules without a condition; '
               'the labeller model is sound (label_sound) and the closure check is sound (closure_ok_complete). '
               'NOT modelled/proved: rule conditions (treated as absent), costs and the choice of the cheapest '
               'rule, the pattern emit methods, gen_call/gen_function_enter, register allocation (give-up after 30 '
               'spill rounds), peephole, assembling/relocation/object output, blob-typed values, the optimizer: all '
               'of these are searched only (exceptions from ir_to_object).')
TRUSTED = ['tools/props/c29_export.py: exporter of the BurgSystem and arch.info (tie I); re-run on every check',
           'Spec/IRTrees.v is a hand model of irdag.SelectionGraphBuilder + dagsplit.DagSplitter.make_trees; it is '
           'cross-checked on every run against every tree shape seen while compiling the corpus',
           'kind-2 rules: a condition on a CONST leaf of an 8/16-bit type that the exporter evaluated to True on '
           'every in-range constant is treated as no condition',
           'Python matching (zip over children, conditions ignored on chain rules) derives at least what the model derives']
ASSUMPTIONS = ['IR constants lie in the range of their type; floating-point types only use + - * / and unary -',
               'arm: i8 constants are >= 0 (rule reg <- CONSTI8 has condition value in range(256)); '
               'riscv/riscv+rvc: frame offsets within +-2048 (rule reg <- FPRELU32); the complements are known findings',
               'blob-typed loads/stores/arguments are outside the modelled language']

TARGETS = ex.TARGETS

C_SRC = r'''
struct S { int a; char b; short c; long d; };
struct S gs; int garr[10]; char gbuf[16];
int add(int a, int b) { return a + b; }
unsigned char uc(unsigned char a, unsigned char b) { return a + (a >> 2) - (b & 3); }
short sh(short a, short b) { return a + b - 3; }
long lg(long a, long b) { return (a << 3) ^ (b >> 1) | (a & b); }
void copy(struct S *d, struct S *s) { d->a = s->a; d->b = s->b; d->c = s->c; d->d = s->d; }
int arr(int i) { int loc[8]; loc[i & 7] = i; garr[i] = loc[(i+1)&7]; return garr[i] + gbuf[i & 15]; }
int sw(int x) { switch (x) { case 1: return 5; case 2: return 7; case 9: return 1; default: return -1; } }
int loop(int n) { int s = 0; for (int i = 0; i < n; i++) { s += i * n; if (s > 1000) break; } return s; }
int fp(int (*f)(int,int), int a) { return f(a, 3) + add(a, 4); }
int cmp(int a, int b) { return (a < b) + (a == b) * 2 + (a >= b && b != 0); }
int dv(int a, int b) { return a / b; }
'''
C_SRC2 = r'''
struct S { int a; char b; short c; long d; };
struct S gs;
void copy2(struct S *d, struct S *s) { *d = *s; gs = *s; }
unsigned int un(unsigned int a, unsigned int b) { return a / b + a % b + (a > b ? a : b); }
int inv(int a) { return ~a; }
char cc(char a) { return -a; }
'''
C_PTR = r'''
int garr2[10];
int idf(int x) { return x; }
long pdiff(char *a, char *b) { return a - b; }
long idiff(int *a, int *b) { return a - b; }
long p2l(void *p) { return (long)p; }
unsigned long pmask(void *p) { return (unsigned long)p & 3; }
void *l2p(long x) { return (void*)x; }
int pcmp(int *a, int *b) { return (a < b) + (a == b) + (a >= b); }
unsigned long fp2i(void) { return (unsigned long)idf; }
char p2c(void *p) { return (char)(long)p; }
int p2i(void *p) { return (int)(long)p; }
long aligned(int *p) { return ((unsigned long)p + 7) & ~7ul; }
int *idx(int i) { return &garr2[i]; }
void *slot; long asint(void) { return (long)slot; } void setp(long v) { slot = (void*)v; }
'''
C_UND = r'''
int pick(int c, int d) { int x; unsigned char y; if (c) { x = d + 1; y = 7; } return x + y; }
long pickl(int c, long d) { long x; short s; if (c) { x = d | 1; s = 3; } return x + s; }
'''
C_UNDF = r'''
double pickd(int c, double d) { double x; float f; if (c) { x = d + 1.0; f = 2.0; } return x + f; }
'''
C_FLOAT = r'''
double gd; float gf;
double fd(double a, double b) { return a * b + a / b - (a - b); }
float ff(float a, float b) { return a * b + a / b - (a - b); }
int f2i(double a) { return (int)a; }
double i2f(int a) { return a; }
float d2f(double a) { return (float)a; }
double f2d(float a) { return a; }
int fcmp(double a, double b) { return a < b; }
void fst(double a) { gd = a; gf = (float)a; }
'''


# ---------------------------------------------------------------- regeneration (tie I)
def regen(ctx):
    info = {}
    for tname, march in TARGETS:
        try:
            arch, sys_ = ex.build_system(march)
            rules = ex.export_rules(sys_)
            desc = ex.export_desc(arch)
            synth = ex.export_synth(arch, sys_)
        except Exception as e:   # noqa: BLE001
            ctx.log('cannot export the burg system of %s: %r' % (march, e))
            ctx.failed_stages.append(('export', '%s: %r' % (march, e)))
            raise TieBroken(str(e))
        changed = ctx.write_gen('Tab_burg_' + tname, ex.table_text(tname, march, rules, desc, synth))
        cond_chain = [r['idx'] for r in rules if r['kind'] == 1 and r['pat'][0] == 'nt']
        info[tname] = {'march': march, 'rules': rules, 'desc': desc, 'sys': sys_, 'arch': arch, 'synth': synth}
        ctx.cov['stages']['gen_Tab_burg_' + tname] = {
            'synthesized_rules': len(synth[0]),
            'rules': len(rules), 'conditional': sum(1 for r in rules if r['kind'] == 1),
            'cond_total_on_range': sum(1 for r in rules if r['kind'] == 2),
            'conditional_chain_rules(applied unconditionally by mark_tree)': cond_chain,
            'types': [t['name'] for t in desc['types']], 'ptr': desc['ptr'], 'changed_on_disk': changed}
    return info


def known_lists():
    """excl_<t> / assume_<t> parsed from the hand-written Spec/C29Known.v (single source of truth)"""
    src = open(os.path.join(COQ, 'Spec', 'C29Known.v')).read()
    src = re.sub(r'\(\*.*?\*\)', '', src, flags=re.S)
    excl, assume = {}, {}
    for m in re.finditer(r'Definition excl_(\w+)\s*:\s*list string\s*:=\s*\[(.*?)\]\.', src, re.S):
        excl[m.group(1)] = re.findall(r'"([A-Z0-9]+)"', m.group(2))
    for m in re.finditer(r'Definition assume_(\w+)\s*:[^=]*:=\s*\[(.*?)\]\.', src, re.S):
        assume[m.group(1)] = re.findall(r'\("(\w+)",\s*POp\s*"(\w+)"\s*\[\]\)', m.group(2))
    return excl, assume


# ---------------------------------------------------------------- helpers: trees, usable system
def shape(t):
    return (t.name, tuple(shape(c) for c in t.children))


def shape_coq(s):
    return 'T "%s" [%s]' % (s[0], '; '.join(shape_coq(k) for k in s[1]))


def shape_str(s):
    return s[0] + ('(' + ','.join(shape_str(k) for k in s[1]) + ')' if s[1] else '')


def shape_ops(s, out=None):
    out = set() if out is None else out
    out.add(s[0])
    for k in s[1]:
        shape_ops(k, out)
    return out


def usable_rules(rules, assume):
    out = []
    for r in rules:
        ok = r['kind'] in (0, 2) or (r['pat'][0] == 'op' and not r['pat'][2] and (r['nt'], r['pat'][1]) in assume)
        if ok:
            out.append(r)
    return out


def stripped_system(info, assume):
    """a BurgSystem (real burg.py code) holding only the usable rules, without conditions"""
    from ppci.codegen.burg import BurgSystem
    from ppci.codegen.instructionselector import TreeSelector
    from ppci.utils.tree import Tree
    s2 = BurgSystem()
    for t in sorted(info['sys'].terminals):
        s2.add_terminal(t)

    def mk(p):
        return Tree(p[1]) if p[0] == 'nt' else Tree(p[1], *[mk(c) for c in p[2]])
    us = usable_rules(info['rules'], assume)
    # non-terminals must exist before a pattern mentions them as open ends
    for n in sorted(info['sys'].non_terminals):
        s2.non_term(n)
    for r in us:
        s2.add_rule(r['nt'], mk(r['pat']), r['cost'], None, None)
    order = []
    for r in us:
        if r['nt'] not in order:
            order.append(r['nt'])
    return TreeSelector(s2), order


def py_labels(sel, order, s):
    from ppci.utils.tree import Tree

    def mk(x):
        return Tree(x[0], *[mk(k) for k in x[1]])
    t = mk(s)
    try:
        sel.sys.check_tree_defined(t)      # TreeSelector.gen does this first (BurgError: name not defined)
    except Exception:   # noqa: BLE001
        return []
    sel.burm_label(t)
    return [n for n in order if t.state.has_goal(n)]


# ---------------------------------------------------------------- compile harness
class Harness:
    """hooks TreeSelector.gen (records shapes / failures) and CodeGenerator.generate_function (continues with
    the next function after an exception so that one known gap does not hide the rest of the module)"""

    def __init__(self):
        self.shapes = {}          # shape -> count
        self.failed_shapes = {}   # shape -> example tree text, values
        self.errors = []          # (function name, exception, traceback text, shape or None)
        self.nfunc = 0

    def __enter__(self):
        from ppci.codegen import instructionselector as isel
        from ppci.codegen import codegen as cg
        h = self
        self._isel, self._cg = isel, cg
        self._gen, self._gf = isel.TreeSelector.gen, cg.CodeGenerator.generate_function

        def gen(sel, context, tree):
            s = shape(tree)
            h.shapes[s] = h.shapes.get(s, 0) + 1
            try:
                return h._gen(sel, context, tree)
            except RuntimeError as e:
                if 'not covered' in str(e):
                    e.c29_shape = s
                    e.c29_tree = tree
                    h.failed_shapes.setdefault(s, tree)
                raise

        def generate_function(cgen, ir_function, output_stream, debug=False):
            h.nfunc += 1
            try:
                return h._gf(cgen, ir_function, output_stream, debug=debug)
            except Exception as e:   # noqa: BLE001
                h.errors.append((ir_function.name, e, traceback.format_exc(), getattr(e, 'c29_shape', None),
                                 getattr(e, 'c29_tree', None)))
        isel.TreeSelector.gen = gen
        cg.CodeGenerator.generate_function = generate_function
        return self

    def __exit__(self, *a):
        self._isel.TreeSelector.gen = self._gen
        self._cg.CodeGenerator.generate_function = self._gf


def gen_module_for(rng, size, feats, types):
    """irgen with its integer type pool restricted to the target's value types"""
    from gen import irgen
    from ppci import ir
    ints = [t for t in types if t.is_integer]
    old, oldp = irgen.INT_TYPES, irgen.FnGen.ptr_at
    irgen.INT_TYPES = ints
    if ir.i64 not in ints:
        def ptr_at(self, base, off):
            if off == 0 or 'ptrarith' not in self.feats:
                return base
            o = self.const(self.rng.choice([ir.i32, ir.u32]), off)
            op = self.emit(ir.Cast(o, self.nm('off'), ir.ptr))
            return self.emit(ir.Binop(base, '+', op, self.nm('p'), ir.ptr))
        irgen.FnGen.ptr_at = ptr_at
    try:
        return irgen.gen_module(rng, size, feats)
    finally:
        irgen.INT_TYPES, irgen.FnGen.ptr_at = old, oldp


def origin_of(tb):
    """last ppci frame of a traceback text: file:function"""
    fr = re.findall(r'File "[^"]*?/ppci/([^"]+)", line \d+, in (\w+)', tb)
    return '%s:%s' % fr[-1] if fr else '?'


def classify(tname, info, excl, err):
    """-> (record for ctx.violation, is_cover_failure)"""
    fname, e, tb, shp, tree = err
    rec = {'fn': 'ir_to_object', 'target': tname, 'exception': type(e).__name__, 'message': str(e)[:300],
           'origin': origin_of(tb), 'function': fname}
    if shp is not None:
        rec['fn'] = 'select'
        rec['tree'] = shape_str(shp)
        ops = shape_ops(shp)
        bad = sorted(ops & set(excl.get(tname, [])))
        if bad:
            rec['class'] = 'uncovered-excluded-op'
            rec['ops'] = bad
        elif tname == 'arm' and any(x.name == 'CONSTI8' and isinstance(x.value, int) and x.value < 0
                                    for x in walk(tree)):
            rec['class'] = 'consti8-negative'
        elif tname.startswith('riscv') and any(x.name == 'FPRELU32' and
                                                getattr(x.value, 'offset', 0) not in range(-2048, 2048)
                                                for x in walk(tree)):
            rec['class'] = 'fprel-large-frame'
        else:
            rec['class'] = 'uncovered-tree'
            rec['key'] = 'uncovered %s %s' % (tname, shape_str(shp))
            rec['how_to_replay'] = ('PYTHONPATH=/repo:/verif/tools python -c "from props import c29_replay as r; '
                                    'print(r.try_compile(r.build_module(r.parse_tree(%r)), %r))"'
                                    % (shape_str(shp), info['march']))
        return rec, True
    rec['class'] = '%s@%s' % (type(e).__name__, rec['origin'])
    rec['key'] = '%s %s' % (tname, rec['class'])
    return rec, False


def violates_assumption(tname, tree):
    """the tree has a leaf whose value lies outside the restriction stated in Spec/C29Known.v"""
    if tname == 'arm' and any(x.name == 'CONSTI8' and isinstance(x.value, int) and x.value not in range(256)
                              for x in walk(tree)):
        return True
    if tname.startswith('riscv') and any(x.name == 'FPRELU32' and
                                         getattr(x.value, 'offset', 0) not in range(-2048, 2048) for x in walk(tree)):
        return True
    return False


def walk(tree):
    yield tree
    for c in tree.children:
        yield from walk(c)


def compile_corpus(ctx, tname, info, excl, nmods, levels, opts, with_c=True):
    """returns harness; reports violations / known findings"""
    import logging
    from ppci import api, ir
    from ppci.irutils.verify import verify_module
    from gen import irgen
    logging.disable(logging.CRITICAL)
    arch = info['arch']
    types = [t for t in ir.value_types if t in arch.info.value_classes]
    feats = [f for f in irgen.ALL_FEATURES if f not in ('rot', 'ub', 'bigconst')]
    if not any(not t.is_integer for t in types):
        feats = [f for f in feats if f != 'floats']
    h = Harness()
    skipped = {'optimizer_exception': 0, 'optimizer_output_invalid': 0}
    per_class = {}
    with h:
        for i in range(nmods):
            seed = ctx.rng.randrange(1 << 30)
            import random
            m = gen_module_for(random.Random(seed), 1 + i % 3, feats, types)
            for lvl in levels:
                if lvl:
                    try:
                        api.optimize(m, level=lvl)
                    except Exception:   # noqa: BLE001  (optimizer defects belong to C03)
                        skipped['optimizer_exception'] += 1
                        break
                    try:
                        verify_module(m)
                    except Exception:   # noqa: BLE001
                        skipped['optimizer_output_invalid'] += 1
                        break
                opt = opts[(i + lvl) % len(opts)]
                n0 = len(h.errors)
                try:
                    api.ir_to_object([m], info['march'], opt=opt)
                except Exception as e:   # noqa: BLE001   (outside generate_function: globals, object output)
                    h.errors.append(('<module>', e, traceback.format_exc(), None, None))
                for err in h.errors[n0:]:
                    rec, _ = classify(tname, info, excl, err)
                    rec.update({'module_seed': seed, 'size': 1 + i % 3, 'opt_level': lvl, 'opt': opt})
                    per_class[rec['class']] = per_class.get(rec['class'], 0) + 1
                    ctx.violation(rec)
        # pointer <-> integer traffic (hand-built IR), levels 0 and 2
        ints = [t for t in types if t.is_integer]
        pbits = int(info['desc']['ptr'][1:])
        for lvl in levels:
            m = rp.ptr_module(ints, pbits)
            try:
                verify_module(m)
                if lvl:
                    api.optimize(m, level=lvl)
                    verify_module(m)
            except Exception:   # noqa: BLE001
                skipped['optimizer_exception'] += 1
                continue
            n0 = len(h.errors)
            try:
                api.ir_to_object([m], info['march'])
            except Exception as e:   # noqa: BLE001
                h.errors.append(('<module ptrs>', e, traceback.format_exc(), None, None))
            for err in h.errors[n0:]:
                rec, _ = classify(tname, info, excl, err)
                rec.update({'ir': 'props.c29_replay.ptr_module', 'opt_level': lvl})
                per_class[rec['class']] = per_class.get(rec['class'], 0) + 1
                ctx.violation(rec)
        # used Undefined values of every value type (hand-built IR), levels 0, 1, 2
        for lvl in (0, 1, 2):
            m = rp.und_module(types)
            try:
                verify_module(m)
                if lvl:
                    api.optimize(m, level=lvl)
                    verify_module(m)
            except Exception:   # noqa: BLE001
                skipped['optimizer_exception'] += 1
                continue
            n0 = len(h.errors)
            try:
                api.ir_to_object([m], info['march'])
            except Exception as e:   # noqa: BLE001
                h.errors.append(('<module unds>', e, traceback.format_exc(), None, None))
            for err in h.errors[n0:]:
                rec, _ = classify(tname, info, excl, err)
                rec.update({'ir': 'props.c29_replay.und_module', 'opt_level': lvl})
                per_class[rec['class']] = per_class.get(rec['class'], 0) + 1
                ctx.violation(rec)
        if with_c:
            # the C idiom that makes mem2reg leave a used Undefined (local not assigned on every path)
            for nm, src in [('cu', C_UND)] + ([('cuf', C_UNDF)] if any(not t.is_integer for t in types) else []):
                for lvl in (1, 2):
                    n0 = len(h.errors)
                    try:
                        api.cc(io.StringIO(src), info['march'], opt_level=lvl)
                    except Exception as e:   # noqa: BLE001
                        h.errors.append(('<cc %s -O%d>' % (nm, lvl), e, traceback.format_exc(), None, None))
                    for err in h.errors[n0:]:
                        rec, _ = classify(tname, info, excl, err)
                        rec.update({'c_sample': nm, 'opt_level': lvl})
                        per_class[rec['class']] = per_class.get(rec['class'], 0) + 1
                        ctx.violation(rec)
            srcs = [('c1', C_SRC), ('c2', C_SRC2), ('cp', C_PTR)] + ([('cf', C_FLOAT)] if any(not t.is_integer for t in types) else [])
            for nm, src in srcs:
                n0 = len(h.errors)
                try:
                    api.cc(io.StringIO(src), info['march'])
                except Exception as e:   # noqa: BLE001
                    h.errors.append(('<cc %s>' % nm, e, traceback.format_exc(), None, None))
                for err in h.errors[n0:]:
                    rec, _ = classify(tname, info, excl, err)
                    rec.update({'c_sample': nm})
                    per_class[rec['class']] = per_class.get(rec['class'], 0) + 1
                    ctx.violation(rec)
    logging.disable(logging.NOTSET)
    ctx.cov['stages'].setdefault('search', {})[tname] = {
        'modules': nmods, 'functions_compiled': h.nfunc, 'exceptions_by_class': per_class, 'skipped': skipped,
        'tree_shapes': len(h.shapes), 'rejected_shapes': len(h.failed_shapes)}
    ctx.cov['evaluations'] += h.nfunc
    return h


# ---------------------------------------------------------------- known findings re-executed on every run
def replay_known(ctx, info_all, excl, assume):
    n = 0
    stale = {}
    for tname, march in TARGETS:
        info = info_all[tname]
        tys = {t['name']: t for t in info['desc']['types']}
        for op in excl.get(tname, []):
            tree = witness_for(op, tys, info['desc']['ptr'])
            if tree is None:
                continue
            n += 1
            res = try_tree(tree, march)
            if res is not None and res[0] == 'RuntimeError' and 'not covered' in res[1]:
                ctx.violation({'fn': 'select', 'target': tname, 'class': 'uncovered-excluded-op', 'ops': [op],
                               'tree': tree, 'exception': res[0], 'message': res[1]})
            elif res is None:
                stale.setdefault(tname, []).append(op)
            else:
                ctx.violation({'fn': 'ir_to_object', 'target': tname, 'class': '%s on witness of %s' % (res[0], op),
                               'key': '%s %s %s' % (tname, op, res[0]), 'tree': tree, 'message': res[1]})
    # leaf-value restrictions: the complement still fails
    for tname, march in TARGETS:
        for nt, leaf in assume.get(tname, []):
            if leaf == 'CONSTI8':
                m = rp.build_module(rp.parse_tree('CONSTI8'), const_value=-1)
                cls = 'consti8-negative'
            elif leaf.startswith('FPREL'):
                m = rp.build_module(rp.parse_tree(leaf), fprel_pad=4096)
                cls = 'fprel-large-frame'
            else:
                continue
            n += 1
            res = rp.try_compile(m, march)
            if res is not None:
                ctx.violation({'fn': 'select', 'target': tname, 'class': cls, 'exception': res[0], 'message': res[1]})
            else:
                stale.setdefault(tname, []).append('assume:' + leaf)
    # every target: ir.Binop 'rol'/'ror' (valid operator of ir.Binop.ops) has no selection-graph name
    from ppci import ir
    for tname, march in TARGETS[:1] + TARGETS[1:2] + TARGETS[3:4]:
        m = ir.Module('rot')
        f = ir.Function('f', ir.Binding.GLOBAL, ir.i32)
        m.add_function(f)
        a = ir.Parameter('a', ir.i32)
        f.add_parameter(a)
        b = ir.Block('entry')
        f.add_block(b)
        f.entry = b
        x = ir.Binop(a, 'rol', a, 'x', ir.i32)
        b.add_instruction(x)
        b.add_instruction(ir.Return(x))
        n += 1
        res = rp.try_compile(m, march)
        if res is not None:
            ctx.violation({'fn': 'do_binop', 'class': 'rol-ror', 'target': tname, 'exception': res[0], 'message': res[1]})
    # thumb: signed conditional jump with '<='
    for cond in ('<=',):
        m = ir.Module('cj')
        f = ir.Procedure('f', ir.Binding.GLOBAL)
        m.add_function(f)
        a = ir.Parameter('a', ir.i32)
        f.add_parameter(a)
        b, y, no = ir.Block('entry'), ir.Block('yes'), ir.Block('no')
        for blk in (b, y, no):
            f.add_block(blk)
        f.entry = b
        b.add_instruction(ir.CJump(a, cond, a, y, no))
        y.add_instruction(ir.Exit())
        no.add_instruction(ir.Exit())
        n += 1
        res = rp.try_compile(m, 'arm:thumb')
        if res is not None:
            ctx.violation({'fn': 'pattern_cjmp_signed', 'target': 'thumb', 'class': 'cjmp-signed-le',
                           'exception': res[0], 'message': res[1]})
    # riscv+rvc: negative constant as left operand of >> (rule reg <- SHRI32(CONSTI32, reg), condition value < 16)
    n += 1
    res = rp.try_compile(rp.build_module(rp.parse_tree('SHRI32(CONSTI32,REGI32)'), const_value=-2049), 'riscv:rvc')
    if res is not None:
        ctx.violation({'fn': 'ir_to_object', 'target': 'riscv_rvc', 'class': 'AssertionError@arch/token.py:__setitem__',
                       'exception': res[0], 'message': res[1], 'ir': 'i32 a = -2049; return a >> x'})
    # register pressure: 16..100 live values across a call, every target (spill code generation)
    for tname, march in TARGETS:
        for (k, na) in ((16, 0), (64, 6), (100, 8)):
            n += 1
            res = rp.try_compile(rp.pressure_module(k, na), march)
            if res is not None:
                ctx.violation({'fn': 'alloc_frame', 'target': tname, 'class': '%s under register pressure' % res[0],
                               'key': 'pressure %s %s' % (tname, res[0]), 'exception': res[0], 'message': res[1],
                               'ir': 'props.c29_replay.pressure_module(%d, %d)' % (k, na)})
    ctx.cov['stages']['known_witnesses_reexecuted'] = n
    if stale:
        ctx.cov['stages']['stale_exclusions(now compile)'] = stale
        ctx.log('note: entries of Spec/C29Known.v that now compile (exclusion no longer needed):', stale)
    ctx.cov['evaluations'] += n


def witness_for(op, tys, ptr):
    """one-instruction tree with register operands for an operator name"""
    m = re.fullmatch(rp.TY_RE + 'TO' + rp.TY_RE, op)
    if m:
        return '%s(REG%s)' % (op, m.group(1))
    if op == 'MOVB':
        return 'MOVB(REG%s,REG%s)' % (ptr, ptr)
    m = re.fullmatch(r'([A-Z]+?)' + rp.TY_RE, op)
    if not m:
        return None
    o, t = m.group(1), m.group(2)
    if o in rp.BINOPS:
        return '%s(REG%s,REG%s)' % (op, t, t)
    if o in rp.UNOPS:
        return '%s(REG%s)' % (op, t)
    if o in ('CONST', 'UND', 'FPREL'):
        return op
    if o in ('LDR',):
        return '%s(REG%s)' % (op, ptr)
    if o in ('STR',):
        return '%s(REG%s,REG%s)' % (op, ptr, t)
    if o in ('CJMP',):
        return '%s(REG%s,REG%s)' % (op, t, t)
    if o == 'MOV':
        return '%s(REG%s)' % (op, t)
    return None


def ptr_like(desc):
    """names of the integer types as wide as a pointer (a REG leaf of such a type may hold an ir.ptr value)"""
    bits = int(desc['ptr'][1:])
    return {t['name'] for t in desc['types'] if t['int'] and t['bits'] == bits}


def try_tree(tree_text, march):
    try:
        m = rp.build_module(rp.parse_tree(tree_text))
    except Exception as e:   # noqa: BLE001
        return ('BuildError', repr(e))
    return rp.try_compile(m, march)


# ---------------------------------------------------------------- diagnosis of a failed closure lemma
def diagnose(ctx, info_all, excl, build_out='', built=False):
    """which operator became uncovered?  Evaluate Model.C29Cases.diag_<t>, replay each tree on the implementation"""
    if not built and not ctx.build(['Model/C29Cases.vo'])[0]:
        return
    for tname, march in TARGETS:
        info = info_all[tname]
        rows, clsnt = info['synth']
        for op in ex.synth_bad(rows, clsnt, info['desc']):
            row = [r for r in rows if r[0] == op][0]
            ctx.log('%s: synthesized rule %s <- %s produces a register of class %r (value_classes: %r)'
                    % (tname, row[2], op, row[3], {t['name']: t['cls'] for t in info['desc']['types']}.get(row[1])))
            tr = '%s(%s,REG%s)' % (('OR' if row[1][0] in 'IU' else 'ADD') + row[1], op, row[1])
            res = try_tree(tr, march)
            rec = {'fn': 'und_pattern', 'target': tname, 'class': 'synthesized-rule-wrong-class', 'rule': '%s <- %s' % (row[2], op),
                   'produced_class': row[3], 'tree': tr, 'key': 'synth %s %s' % (tname, op),
                   'how_to_replay': ('PYTHONPATH=/repo:/verif/tools python -c "from props import c29_replay as r; '
                                     'print(r.try_compile(r.build_module(r.parse_tree(%r)), %r))"' % (tr, march))}
            if res is not None:
                rec.update({'exception': res[0], 'message': res[1]})
                ctx.violation(rec)
            else:
                ctx.log('  %s: %s still compiles: no concrete failing input from this witness' % (tname, tr))
    failing = set(re.findall(r'Proofs/C29_(\w+)\.v"', build_out)) & {t for t, _ in TARGETS}
    for tname, march in TARGETS:
        if failing and tname not in failing:
            continue
        out = ctx.eval_terms('diag_' + tname, ['Model.C29Cases'], ['diag_' + tname], timeout=900)
        trees = re.findall(r'VS\s+"([A-Z0-9(),]+)"', out)
        if not trees:
            continue
        ctx.log('%s: closure check fails; minimal uncovered trees of the model: %s' % (tname, trees[:8]))
        for tr in trees[:12]:
            res = try_tree(tr, march)
            if res is None:      # the operator may only arise from a ptr-typed operand (do_cast): retry with ptr registers
                try:
                    res = rp.try_compile(rp.build_module(rp.parse_tree(tr), reg_as_ptr=ptr_like(info_all[tname]['desc'])), march)
                except Exception:   # noqa: BLE001
                    res = None
            rec = {'fn': 'select', 'target': tname, 'class': 'uncovered-tree', 'tree': tr,
                   'key': 'uncovered %s %s' % (tname, tr.split('(')[0]),
                   'model': 'no cover from unconditional rules (Model.BurgCover.uncovered)',
                   'how_to_replay': ('PYTHONPATH=/repo:/verif/tools python -c "from props import c29_replay as r; '
                                     'print(r.try_compile(r.build_module(r.parse_tree(%r)), %r))"' % (tr, march))}
            if res is not None:
                rec.update({'exception': res[0], 'message': res[1]})
                ctx.violation(rec)
            else:
                ctx.log('  %s: %s compiles on the implementation with register/constant-1 operands (only a '
                        'conditional rule covers it): no concrete failing input from this witness' % (tname, tr))


# ---------------------------------------------------------------- correspondence
def correspondence(ctx, tname, info, assume, h):
    sel, order = stripped_system(info, assume.get(tname, []))
    shapes = sorted(h.shapes, key=lambda s: (-h.shapes[s], shape_str(s)))
    limit = 400 if ctx.quick() else 4000
    chosen = shapes[:limit]
    for s in h.failed_shapes:
        if s not in chosen:
            chosen.append(s)
    cases, recs = [], []
    for s in chosen:
        labels = py_labels(sel, order, s)
        cases.append(('case_%s (%s)' % (tname, shape_coq(s)), (True, labels)))
        recs.append((s, labels))
    bad = ctx.run_cases('trees_' + tname, ['Spec.BurgCoverSpec', 'Model.C29Cases'], cases)
    nontriv = sum(1 for s in chosen if s[1] and any(k[1] for k in s[1]))
    ctx.cov['distinct_nontrivial'] += nontriv
    # a tree the real selector rejected must not be selected by the model (would contradict the theorem)
    for s, tree in h.failed_shapes.items():
        labels = py_labels(sel, order, s)
        if 'stm' in labels and not violates_assumption(tname, tree):
            ctx.violation({'fn': 'select', 'target': tname, 'class': 'model-selects-but-implementation-rejects',
                           'key': 'contradiction %s' % tname, 'tree': shape_str(s), 'example': str(tree)[:300]})
    if bad:
        for i in bad[:6]:
            s, labels = recs[i]
            ctx.log('%s: model disagrees on %s (python labels on usable rules: %s; expected in language)'
                    % (tname, shape_str(s), labels))
        ctx.failed_stages.append(('correspondence_' + tname,
                                  '%d observed tree shapes are outside Spec/IRTrees.v or labelled differently, first: %s'
                                  % (len(bad), shape_str(recs[bad[0]][0]))))
    for s in chosen[:: max(1, len(chosen) // 3)][:2]:
        ctx.note_sample({'target': tname, 'tree': shape_str(s), 'seen': h.shapes.get(s, 0)})
    return bad


# ---------------------------------------------------------------- entry points
def run(ctx):
    info_all = regen(ctx)
    excl, assume = known_lists()
    proofs = ['Proofs/C29_cover.vo'] + ['Proofs/C29_%s.vo' % t for t, _ in TARGETS] + ['Proofs/C29_refuted.vo']
    ok, out = ctx.build(proofs + ['Model/C29Cases.vo'])     # one make call: the build lock is shared
    cases_ok = os.path.exists(os.path.join(COQ, 'Model', 'C29Cases.vo')) and 'Model/C29Cases.v"' not in out
    if ok:
        ctx.check_props('Props/C29.v')
    else:
        diagnose(ctx, info_all, excl, out, built=cases_ok)
    # known witnesses (cheap) and the corpus
    replay_known(ctx, info_all, excl, assume)
    deep = (not ctx.quick()) or bool(ctx.failed_stages)
    nmods = 600 if not ctx.quick() else 50
    import time
    for tname, march in TARGETS:
        t0 = time.time()
        h = compile_corpus(ctx, tname, info_all[tname], excl, nmods, [0, 2], ['speed', 'size', 'co2'])
        t1 = time.time()
        if cases_ok:
            correspondence(ctx, tname, info_all[tname], assume, h)
        ctx.cov['stages']['search'][tname]['wall_s'] = {'compile': round(t1 - t0, 1),
                                                       'correspondence': round(time.time() - t1, 1)}
    ctx.cov['exhaustive'] = False
    ctx.cov['stages']['deep'] = deep


def search(ctx):
    """called by the driver when run() aborted (tie broken): implementation-only search"""
    try:
        excl, assume = known_lists()
    except OSError:
        excl, assume = {}, {}
    info_all = {}
    for tname, march in TARGETS:
        try:
            arch, sys_ = ex.build_system(march)
            info_all[tname] = {'march': march, 'rules': ex.export_rules(sys_), 'desc': ex.export_desc(arch),
                               'sys': sys_, 'arch': arch, 'synth': ex.export_synth(arch, sys_)}
        except Exception:   # noqa: BLE001
            continue
    if len(info_all) == len(TARGETS):
        replay_known(ctx, info_all, excl, assume)
    for tname, march in TARGETS:
        if tname in info_all:
            compile_corpus(ctx, tname, info_all[tname], excl, 120, [0, 2], ['speed', 'size'])


MANIFEST = {
    'text': 'partial: for x86_64, arm, thumb, riscv and riscv+rvc a machine-checked proof that the tree grammar of the '
            'instruction selector (the BurgSystem InstructionSelector1 builds, re-exported from the source on every run) '
            'covers every statement tree of a hand-modelled regular tree language of what irdag/dagsplit can emit (all '
            'integer/float value types of the target, all binops, unops, casts, loads, stores, conditional jumps, moves, '
            'labels, frame slots, CopyBlob, calls), using only rules without a condition, outside an explicit list of '
            'operators per target that have no rule at all (e.g. 8/16-bit multiply/divide, float<->small-int casts, thumb '
            'CopyBlob; each re-executed on the real compiler on every run as known finding) and assuming i8 constants >= 0 '
            'on arm and frames < 2 KiB on riscv. Generic theorems: the labeller model only derives what has a cover; the '
            'closure check implies coverage of the whole (infinite) language. Everything after tree selection (emit '
            'methods, register allocation, assembling) is only searched by compiling generated IR and C samples.',
    'note': 'trusted: Coq kernel, the table exporter, the hand model of irdag/dagsplit (cross-checked against every tree '
            'shape seen in the corpus), the claim that Python matching derives at least what the model derives (checked on '
            'the corpus by running the real burm_label on the usable rules). Conditions, costs, emit methods, register '
            'allocator, peephole and object output are not modelled.',
    'technique': 'reflexive tree-automaton closure check (vm_compute) + soundness proof + differential search',
}
