"""C37 -- C3 front-end computes the values C3 semantics prescribe (PARTIAL, LEVEL 'other').

tie H: coq/Model/C3Lower.v models the expression path of the C3 front-end on int/byte/bool
       (typechecker.check_expr/check_condition/do_coerce, context.get_common_type,
       codegenerator.gen_expr_code/gen_cond_code/gen_bool_expr); Props/C37.v states the theorems
       against coq/Spec/C3Spec.v using IRSem.eval_binop/eval_unop/eval_cond/wrap_ty.
Correspondence: generated expressions -> C3 source -> c3_to_ir (arm / x86_64: 32-bit int,
       msp430: 16-bit int) -> tools/irsem_py vs the Coq model evaluated in coqc.
Statements (locals, assignment with implicit coercion, if/while/for/switch, calls) have NO
theorem: differential execution only: generated C3 modules -> c3_to_ir -> irsem_py vs the
independent Python evaluator below (a twin of C3Spec plus a statement interpreter).
"""
import contextlib
import io
import json
import os
import sys

import vlib
from vlib import OkV, Diag, Internal, TieBroken

LEVEL = 'other'
RULE = ('expression correspondence: seeded random expressions (depth <= 5) over int/byte/bool parameters with all C3 '
        'arithmetic, comparison and logical operators, casts and unary minus, on boundary/random arguments, for '
        'arm, x86_64 (int = 32 bit) and msp430 (int = 16 bit): Coq model outcome vs c3_to_ir + irsem_py outcome, plus '
        'ill-typed forms both must reject; differential search: generated modules (helper function, locals of the three '
        'types, assignments with implicit byte<->int conversions, if/else, bounded while/for, switch, early return, '
        'calls) x 6 argument vectors x the three targets vs the Python evaluator; undefined cases (division by zero, '
        'INT_MIN/-1, shift count out of range, step budget) are filtered; distinct non-trivial = accepted '
        '(function, target, arguments) triples with control flow and a non-zero result')
EXPLANATION = ('PARTIAL. Statement level (added): c37_stmt_exact / c37_body_exact / c37_switch_dispatch prove, by rule induction '
               'over a relational big-step semantics (Spec/C3StmtSpec.v: assignment with implicit conversion, compound, if/else, '
               'while, for, switch, return, shorthand assignment x o= e for + - * & |), that the code gen_stmt is modelled to emit (Model/C3Stmt.v) returns the prescribed '
               'value; the CFG is represented unfolded along forward edges (Model/StmtCode.v), executed with IRSem arithmetic but '
               'NOT with IRSem.run_function on numbered blocks/byte memory; model CFG vs decompiled c3_to_ir output compared '
               'structurally every run. Expression level: theorems (unbounded in values, int width 16/32/64) cover expressions over int/byte/bool: '
               'typing, inserted conversions, arithmetic, comparisons, short-circuit logic as condition and as value. '
               'NOT proved: statements, locals/stack slots, calls, switch dispatch, pointers, structs, arrays, sized '
               'integer types, floats, strings, constant evaluation (const declarations, case labels); these are differential-execution validated only '
               '(or not at all for pointers/structs/arrays/floats/strings).')
TRUSTED = ['hand transcription Model/C3Lower.v (cross-checked against c3_to_ir + irsem_py on every run)',
           'Spec/C3Spec.v as the reading of C3 semantics (byte + byte stays byte and wraps; / and % truncate)',
           'the Python evaluator in tools/props/c37.py as executable twin of C3Spec (cross-checked against the Coq '
           'spec through the model correspondence: model == implementation == evaluator on the same cases)',
           'coq/Spec/IRSem.v and tools/irsem_py.py (shared IR hub)']
ASSUMPTIONS = ['defined cases only: no division by zero, no INT_MIN / -1, shift counts in 0..bits-1, literals 0 <= z < 2^(w-1)',
               'int width w in {16, 32, 64} (ppci targets have 16 or 32)',
               'values of variables within the range of their declared type']

ARCHS = [('arm', 32, 4), ('x86_64', 32, 8), ('msp430', 16, 2)]
BINOPS = {'BAdd': '+', 'BSub': '-', 'BMul': '*', 'BDiv': '/', 'BRem': '%', 'BShl': '<<', 'BShr': '>>',
          'BAnd': '&', 'BOr': '|', 'BXor': '^'}
CMPS = {'KEq': '==', 'KNe': '!=', 'KLt': '<', 'KLe': '<=', 'KGt': '>', 'KGe': '>='}
PARAM_TYPES = ['int', 'int', 'byte', 'byte', 'bool', 'bool']
TY_COQ = {'int': 'CInt', 'byte': 'CByte', 'bool': 'CBool'}


def _impl():
    vlib.ensure_repo_on_path()
    if os.path.dirname(os.path.abspath(__file__)) not in sys.path:
        sys.path.insert(0, os.path.dirname(os.path.abspath(__file__)))
    from ppci.lang.c3 import c3_to_ir
    import irsem_py
    import logging
    logging.getLogger('c3c').setLevel(logging.CRITICAL)
    logging.getLogger('c3').setLevel(logging.CRITICAL)
    return c3_to_ir, irsem_py


# ------------------------------------------------------------------ Python twin of Spec/C3Spec.v
class Undef(Exception):
    pass


def norm(bits, signed, z):
    if signed:
        return (z + (1 << (bits - 1))) % (1 << bits) - (1 << (bits - 1))
    return z % (1 << bits)


def bits_of(w, t):
    return 8 if t == 'byte' else w


def common(a, b):
    if a == 'bool' or b == 'bool' or a is None or b is None:
        return None
    return 'byte' if a == b == 'byte' else 'int'


def typeof(e):
    k = e[0]
    if k == 'lit':
        return 'int'
    if k == 'bool':
        return 'bool'
    if k == 'var':
        return e[1]
    if k == 'bin':
        return common(typeof(e[2]), typeof(e[3]))
    if k == 'neg':
        t = typeof(e[1])
        return t if t in ('int', 'byte') else None
    if k == 'cast':
        t = typeof(e[2])
        return e[1] if t in ('int', 'byte') and e[1] in ('int', 'byte') else None
    if k == 'cmp':
        return 'bool' if common(typeof(e[2]), typeof(e[3])) else None
    if k in ('and', 'or'):
        return 'bool' if typeof(e[1]) == typeof(e[2]) == 'bool' else None
    if k == 'not':
        return 'bool' if typeof(e[1]) == 'bool' else None
    if k == 'call':
        return 'int'
    raise AssertionError(k)


def quot(a, b):
    q = abs(a) // abs(b)
    return q if (a < 0) == (b < 0) else -q


def arith(bits, sg, op, a, b):
    if op in ('/', '%'):
        if b == 0 or (sg and a == -(1 << (bits - 1)) and b == -1):
            raise Undef('div')
        r = quot(a, b) if op == '/' else a - b * quot(a, b)
    elif op in ('<<', '>>'):
        if not 0 <= b < bits:
            raise Undef('shift')
        r = a << b if op == '<<' else a >> b
    else:
        r = {'+': a + b, '-': a - b, '*': a * b, '&': a & b, '|': a | b, '^': a ^ b}[op]
    return norm(bits, sg, r)


def ev(w, env, e):
    """value of expression e (env: name/index -> value); Undef when C3 leaves it undefined"""
    k = e[0]
    if k == 'lit':
        if not 0 <= e[1] < (1 << (w - 1)):
            raise Undef('literal')
        return e[1]
    if k == 'bool':
        return int(e[1])
    if k == 'var':
        return env[e[2]]
    if k == 'bin':
        t = typeof(e)
        return arith(bits_of(w, t), t != 'byte', e[1], ev(w, env, e[2]), ev(w, env, e[3]))
    if k == 'neg':
        t = typeof(e)
        return norm(bits_of(w, t), t != 'byte', -ev(w, env, e[1]))
    if k == 'cast':
        return norm(bits_of(w, e[1]), e[1] != 'byte', ev(w, env, e[2]))
    if k == 'cmp':
        a, b = ev(w, env, e[2]), ev(w, env, e[3])
        return int({'==': a == b, '!=': a != b, '<': a < b, '<=': a <= b, '>': a > b, '>=': a >= b}[e[1]])
    if k == 'and':
        return ev(w, env, e[2]) if ev(w, env, e[1]) else 0
    if k == 'or':
        return 1 if ev(w, env, e[1]) else ev(w, env, e[2])
    if k == 'not':
        return 1 - ev(w, env, e[1])
    if k == 'call':
        return call_helper(w, [ev(w, env, a) for a in e[1:]])
    raise AssertionError(k)


# ------------------------------------------------------------------ rendering
def e_src(e, names=None):
    k = e[0]
    if k == 'lit':
        return str(e[1])
    if k == 'bool':
        return 'true' if e[1] else 'false'
    if k == 'var':
        return e[2] if isinstance(e[2], str) else 'p%d' % e[2]
    if k == 'bin':
        return '(%s %s %s)' % (e_src(e[2]), e[1], e_src(e[3]))
    if k == 'neg':
        return '(-%s)' % e_src(e[1])
    if k == 'cast':
        return 'cast<%s>(%s)' % (e[1], e_src(e[2]))
    if k == 'cmp':
        return '(%s %s %s)' % (e_src(e[2]), e[1], e_src(e[3]))
    if k in ('and', 'or'):
        return '(%s %s %s)' % (e_src(e[1]), k, e_src(e[2]))
    if k == 'not':
        return '(not %s)' % e_src(e[1])
    if k == 'call':
        return 'h(%s)' % ', '.join(e_src(a) for a in e[1:])
    raise AssertionError(k)


INV_BIN = {v: k for k, v in BINOPS.items()}
INV_CMP = {v: k for k, v in CMPS.items()}


def e_coq(e):
    k = e[0]
    if k == 'lit':
        return '(ELit %s)' % vlib.coq_z(e[1])
    if k == 'bool':
        return '(EBool %s)' % ('true' if e[1] else 'false')
    if k == 'var':
        return '(EVar %s %d)' % (TY_COQ[e[1]], e[2])
    if k == 'bin':
        return '(EBin %s %s %s)' % (INV_BIN[e[1]], e_coq(e[2]), e_coq(e[3]))
    if k == 'neg':
        return '(ENeg %s)' % e_coq(e[1])
    if k == 'cast':
        return '(ECast %s %s)' % (TY_COQ[e[1]], e_coq(e[2]))
    if k == 'cmp':
        return '(ECmp %s %s %s)' % (INV_CMP[e[1]], e_coq(e[2]), e_coq(e[3]))
    if k in ('and', 'or'):
        return '(%s %s %s)' % ('EAnd' if k == 'and' else 'EOr', e_coq(e[1]), e_coq(e[2]))
    if k == 'not':
        return '(ENot %s)' % e_coq(e[1])
    raise AssertionError(k)


# ------------------------------------------------------------------ generators
LITS = [0, 1, 2, 3, 5, 7, 8, 15, 16, 31, 100, 127, 128, 200, 255, 256, 1000, 32767]


def gen_num(rng, depth, want, vars_of):
    """numeric expression; want = 'int' | 'byte' | None (either)"""
    if depth == 0 or rng.random() < 0.22:
        r = rng.random()
        if r < 0.3 and want != 'byte':
            return ('lit', rng.choice(LITS))
        t = want or rng.choice(['int', 'byte'])
        if want == 'byte' and r < 0.1:
            return ('cast', 'byte', ('lit', rng.choice(LITS)))
        return ('var', t, rng.choice(vars_of(t)))
    r = rng.random()
    if r < 0.08:
        return ('neg', gen_num(rng, depth - 1, want, vars_of))
    if r < 0.2:
        t = want or rng.choice(['int', 'byte'])
        return ('cast', t, gen_num(rng, depth - 1, None, vars_of))
    op = rng.choice(list(BINOPS.values()))
    if want == 'byte':
        a, b = gen_num(rng, depth - 1, 'byte', vars_of), gen_num(rng, depth - 1, 'byte', vars_of)
    elif want == 'int':
        a, b = gen_num(rng, depth - 1, None, vars_of), gen_num(rng, depth - 1, 'int', vars_of)
        if rng.random() < 0.5:
            a, b = b, a
    else:
        a, b = gen_num(rng, depth - 1, None, vars_of), gen_num(rng, depth - 1, None, vars_of)
    if op in ('<<', '>>') and rng.random() < 0.8:
        b = ('lit', rng.choice([0, 1, 2, 3, 4, 7])) if typeof(a) != 'byte' or typeof(b) != 'byte' else \
            ('cast', 'byte', ('lit', rng.choice([0, 1, 2, 3, 7])))
    return ('bin', op, a, b)


def gen_bool(rng, depth, vars_of):
    if depth == 0 or rng.random() < 0.35:
        r = rng.random()
        if r < 0.12:
            return ('bool', rng.random() < 0.5)
        if r < 0.3 and vars_of('bool'):
            return ('var', 'bool', rng.choice(vars_of('bool')))
        return ('cmp', rng.choice(list(CMPS.values())), gen_num(rng, max(depth - 1, 1), None, vars_of),
                gen_num(rng, 1, None, vars_of))
    r = rng.random()
    if r < 0.2:
        return ('not', gen_bool(rng, depth - 1, vars_of))
    return ('and' if r < 0.6 else 'or', gen_bool(rng, depth - 1, vars_of), gen_bool(rng, depth - 1, vars_of))


def param_vars(t):
    return [i for i, pt in enumerate(PARAM_TYPES) if pt == t]


def value_pool(w, t):
    if t == 'bool':
        return [0, 1]
    if t == 'byte':
        return [0, 1, 2, 7, 8, 100, 127, 128, 200, 254, 255]
    m = 1 << (w - 1)
    return [0, 1, -1, 2, -2, 3, -7, 7, 8, 15, 16, 100, -100, 255, 256, -256, m - 1, -m, m - 2, -m + 1, m // 2, -(m // 2)]


def gen_env(rng, w):
    return [rng.choice(value_pool(w, t)) if rng.random() < 0.8 else
            (rng.randrange(-50, 50) if t == 'int' else rng.randrange(0, 256) if t == 'byte' else rng.randrange(2))
            for t in PARAM_TYPES]


PARAMS_SRC = ', '.join('%s p%d' % (t, i) for i, t in enumerate(PARAM_TYPES))
ILL_TYPED = [('bin', '+', ('var', 'bool', 4), ('var', 'int', 0)), ('not', ('var', 'int', 0)),
             ('and', ('var', 'int', 0), ('var', 'bool', 4)), ('cmp', '<', ('var', 'bool', 4), ('var', 'byte', 2)),
             ('or', ('var', 'bool', 4), ('lit', 1))]


# ------------------------------------------------------------------ implementation runner
def compile_c3(src, march):
    """(module, None) | (None, 'diag' | 'internal:<type>')"""
    c3_to_ir, _ = _impl()
    from ppci.common import CompilerError
    try:
        from ppci.utils.tasks import TaskError
    except ImportError:        # location differs between ppci versions
        from ppci.build.tasks import TaskError
    buf = io.StringIO()
    try:
        with contextlib.redirect_stdout(buf), contextlib.redirect_stderr(buf):
            return c3_to_ir([io.StringIO(src)], [], march), None
    except (TaskError, CompilerError):
        return None, 'diag'
    except Exception as ex:       # noqa: BLE001
        return None, 'internal:' + type(ex).__name__


def ir_outcome(m, fname, args, ptr, fuel=20000):
    import irsem_py
    r = irsem_py.run_main(m, fname, list(args), fuel, cfg=(ptr, 65536, 16777216))
    if isinstance(r, OkV):
        return OkV(r.v[0])
    return r


def fn_name(m, name):
    for f in m.functions:
        if f.name == name or f.name.endswith('_' + name):
            return f.name
    raise KeyError(name)


def expr_cases(ctx, n_expr, n_cond, n_env):
    rng = ctx.rng
    cases, meta = [], []
    for k in range(n_expr + n_cond + len(ILL_TYPED)):
        if k < n_expr:
            e = gen_num(rng, rng.choice([1, 2, 3, 4, 5]), None, param_vars) if rng.random() < 0.6 else \
                gen_bool(rng, rng.choice([1, 2, 3]), param_vars)
            kind = 'value'
        elif k < n_expr + n_cond:
            e = gen_bool(rng, rng.choice([1, 2, 3]), param_vars)
            kind = 'cond'
        else:
            e = ILL_TYPED[k - n_expr - n_cond]
            kind = 'ill'
        t = typeof(e)
        if kind == 'cond':
            src = 'module m;\nfunction int f(%s) {\n  if (%s) { return 1; }\n  return 0;\n}\n' % (PARAMS_SRC, e_src(e))
        else:
            src = 'module m;\nfunction %s f(%s) {\n  return %s;\n}\n' % (t or 'int', PARAMS_SRC, e_src(e))
        for (march, w, ptr) in (ARCHS if k % 3 == 0 or kind == 'ill' else [ARCHS[k % 3]]):
            m, err = compile_c3(src, march)
            for _ in range(n_env):
                env = gen_env(rng, w)
                if err == 'diag':
                    val = Diag
                elif err:
                    val = Internal
                else:
                    val = ir_outcome(m, fn_name(m, 'f'), env, ptr)
                    if kind == 'cond':
                        val = OkV(bool(val.v)) if isinstance(val, OkV) else val
                    else:
                        val = (t, val)
                fn = 'cond_outcome' if kind == 'cond' else 'lower_outcome'
                cases.append(('%s %d %s %s' % (fn, w, vlib.to_term(env), e_coq(e)), val))
                # the evaluator twin must agree wherever the value is defined
                twin = None
                try:
                    twin = ev(w, env, e) if t else None
                except Undef:
                    pass
                meta.append({'src': src, 'march': march, 'env': env, 'impl': val, 'twin': twin, 'kind': kind})
                if err:
                    break
    return cases, meta


# ------------------------------------------------------------------ statements: generator + interpreter (differential only)
HELPER_SRC = ('function int h(int p, byte q) {\n  if (p < q) { return q - p; }\n  return p + q * 2;\n}\n')


def call_helper(w, args):
    p, q = args
    if p < q:
        return norm(w, True, q - p)
    return norm(w, True, p + norm(w, True, q * 2))


class _Return(Exception):
    def __init__(self, v):
        self.v = v


class SGen:
    """statements as tuples: ('assign', name, type, expr) ('if', c, s1, s2) ('while', k, bound, body)
    ('for', i, bound, body) ('switch', e, [(val, body)], default) ('ret', e)"""
    VARS = {'int': ['a', 'b', 'n', 'x', 'y'], 'byte': ['c', 'd', 'u'], 'bool': ['f']}
    ASSIGNABLE = {'int': ['x', 'y'], 'byte': ['u'], 'bool': ['f']}

    def __init__(self, rng):
        self.rng = rng
        self.nloop = 0
        self.feats = set()
        self.extra_int = []

    def vars_of(self, t):
        return self.VARS[t] + (self.extra_int if t == 'int' else [])

    def num(self, depth, want=None):
        e = gen_num(self.rng, depth, want, self.vars_of)
        if self.rng.random() < 0.08:
            self.feats.add('call')
            e = ('bin', '+', ('call', gen_num(self.rng, 1, 'int', self.vars_of), gen_num(self.rng, 1, 'byte', self.vars_of)), e) \
                if typeof(e) == 'int' else e
        return e

    def cond(self, depth):
        return gen_bool(self.rng, depth, self.vars_of)

    def block(self, depth, n=None):
        return [self.stmt(depth) for _ in range(n or self.rng.choice([1, 2, 2, 3]))]

    def stmt(self, depth):
        r = self.rng.random()
        if depth > 0 and r < 0.22:
            self.feats.add('if')
            return ('if', self.cond(2), self.block(depth - 1), self.block(depth - 1) if self.rng.random() < 0.6 else [])
        if depth > 0 and r < 0.32 and self.nloop < 2:
            self.nloop += 1
            self.feats.add('while')
            k = 'k%d' % self.nloop
            self.extra_int.append(k)
            body = self.block(depth - 1)
            self.extra_int.pop()
            return ('while', k, self.rng.choice(['n', '3', '4']), body)
        if depth > 0 and r < 0.42 and self.nloop < 2:
            self.nloop += 1
            self.feats.add('for')
            k = 'k%d' % self.nloop
            self.extra_int.append(k)
            body = self.block(depth - 1)
            self.extra_int.pop()
            return ('for', k, self.rng.choice(['n', '2', '5']), body)
        if depth > 0 and r < 0.5:
            self.feats.add('switch')
            vals = self.rng.sample([0, 1, 2, 3, 5, 255], self.rng.choice([1, 2, 3]))
            return ('switch', self.num(1, 'int'), [(v, self.block(depth - 1, 1)) for v in vals], self.block(depth - 1, 1))
        if r < 0.58:
            self.feats.add('return')
            return ('if', self.cond(1), [('ret', self.num(2))], [])
        if r < 0.66:
            return ('assign', 'f', 'bool', self.cond(2))
        if r < 0.72:
            self.feats.add('shorthand')
            t = self.rng.choice(['int', 'byte'])
            return ('aop', {'int': self.rng.choice(['x', 'y']), 'byte': 'u'}[t], t, self.rng.choice(SHORTHAND), self.num(2))
        if r < 0.82:
            self.feats.add('byte-assign')
            # byte variable: byte expression, or int expression narrowed implicitly
            return ('assign', 'u', 'byte', self.num(2, self.rng.choice(['byte', 'int'])))
        return ('assign', self.rng.choice(['x', 'y']), 'int', self.num(3, self.rng.choice(['int', 'byte', 'int'])))


def s_src(s, ind):
    p = ' ' * ind
    k = s[0]
    if k == 'assign':
        return [p + '%s = %s;' % (s[1], e_src(s[3]))]
    if k == 'aop':
        return [p + '%s %s= %s;' % (s[1], s[3], e_src(s[4]))]
    if k == 'ret':
        return [p + 'return %s;' % e_src(s[1])]
    if k == 'if':
        out = [p + 'if (%s) {' % e_src(s[1])] + [l for x in s[2] for l in s_src(x, ind + 2)] + [p + '}']
        if s[3]:
            out[-1] = p + '} else {'
            out += [l for x in s[3] for l in s_src(x, ind + 2)] + [p + '}']
        return out
    if k == 'while':
        return ([p + '%s = 0;' % s[1], p + 'while (%s < %s) {' % (s[1], s[2]), p + '  %s = %s + 1;' % (s[1], s[1])]
                + [l for x in s[3] for l in s_src(x, ind + 2)] + [p + '}'])
    if k == 'for':
        return ([p + 'for (%s = 0; %s < %s; %s = %s + 1) {' % (s[1], s[1], s[2], s[1], s[1])]
                + [l for x in s[3] for l in s_src(x, ind + 2)] + [p + '}'])
    if k == 'switch':
        out = [p + 'switch (%s) {' % e_src(s[1])]
        for v, body in s[2]:
            out += [p + '  case %d: {' % v] + [l for x in body for l in s_src(x, ind + 4)] + [p + '  }']
        out += [p + '  default: {'] + [l for x in s[3] for l in s_src(x, ind + 4)] + [p + '  }', p + '}']
        return out
    raise AssertionError(k)


def coerce(w, to, frm, v):
    """implicit conversion as the language defines it for int/byte (value kept when widening,
    modulo 2^bits when narrowing)"""
    if to == frm:
        return v
    if to in ('int', 'byte') and frm in ('int', 'byte'):
        return norm(bits_of(w, to), to != 'byte', v)
    raise Undef('coerce %s->%s' % (frm, to))


def s_run(w, env, stmts, budget):
    for s in stmts:
        k = s[0]
        if k == 'assign':
            env[s[1]] = coerce(w, s[2], typeof(s[3]), ev(w, env, s[3]))
        elif k == 'aop':
            rhs = coerce(w, s[2], typeof(s[4]), ev(w, env, s[4]))
            env[s[1]] = arith(bits_of(w, s[2]), s[2] != 'byte', s[3], env[s[1]], rhs)
        elif k == 'ret':
            raise _Return(coerce(w, 'int', typeof(s[1]), ev(w, env, s[1])))
        elif k == 'if':
            s_run(w, env, s[2] if ev(w, env, s[1]) else s[3], budget)
        elif k in ('while', 'for'):
            env[s[1]] = 0
            bound = (lambda: env['n']) if s[2] == 'n' else (lambda v=int(s[2]): v)
            while env[s[1]] < bound():
                budget[0] -= 1
                if budget[0] < 0:
                    raise Undef('budget')
                if k == 'while':
                    env[s[1]] = norm(w, True, env[s[1]] + 1)
                s_run(w, env, s[3], budget)
                if k == 'for':
                    env[s[1]] = norm(w, True, env[s[1]] + 1)
        elif k == 'switch':
            v = ev(w, env, s[1])
            for val, body in s[2]:
                if v == val:
                    s_run(w, env, body, budget)
                    break
            else:
                s_run(w, env, s[3], budget)
        else:
            raise AssertionError(k)


def gen_module(rng):
    g = SGen(rng)
    body = g.block(3, rng.choice([2, 3, 4]))
    final = g.num(2)
    src = ['module m;', HELPER_SRC, 'function int g(int a, int b, byte c, byte d, int n) {',
           '  var int x = a;', '  var int y = 1;', '  var byte u = d;', '  var bool f = false;',
           '  var int k1 = 0;', '  var int k2 = 0;']
    for s in body:
        src += s_src(s, 2)
    src += ['  return %s;' % e_src(final), '}', '']
    return '\n'.join(src), body, final, sorted(g.feats)


def run_module(w, body, final, args):
    a, b, c, d, n = args
    env = {'a': a, 'b': b, 'c': c, 'd': d, 'n': n, 'x': a, 'y': 1, 'u': d, 'f': 0, 'k1': 0, 'k2': 0}
    try:
        s_run(w, env, body, [3000])
        return ('ok', coerce(w, 'int', typeof(final), ev(w, env, final)))
    except _Return as r:
        return ('ok', r.v)
    except Undef as ex:
        return ('reject', str(ex).split()[0])


def gen_args(rng, w, k):
    out = [(0, 0, 0, 0, 0), (-7, 2, 200, 100, 3)]
    ip, bp = value_pool(w, 'int'), value_pool(w, 'byte')
    small = [-9, -3, -2, -1, 0, 1, 2, 3, 4, 5, 7, 10, 100]
    while len(out) < k:
        big = rng.random() < 0.35
        out.append((rng.choice(ip if big else small), rng.choice(ip if big else small), rng.choice(bp), rng.choice(bp),
                    rng.choice([-1, 0, 1, 2, 3, 4, 5])))
    return out


def diff_module(ctx, src, body, final, feats, st, nvec):
    for (march, w, ptr) in ARCHS:
        m, err = compile_c3(src, march)
        for args in gen_args(ctx.rng, w, nvec):
            ref = run_module(w, body, final, args)
            st['runs'] += 1
            if ref[0] != 'ok':
                st['rejected'][ref[1]] = st['rejected'].get(ref[1], 0) + 1
                continue
            st['accepted'] += 1
            if err:
                actual = err
            else:
                actual = ir_outcome(m, fn_name(m, 'g'), args, ptr)
                actual = actual.v if isinstance(actual, OkV) else actual
            if actual != ref[1]:
                st['mismatch'] += 1
                ctx.violation({'fn': 'c3_to_ir', 'key': ('compile-' + err) if err else 'value-' + '+'.join(feats),
                               'src': src, 'march': march, 'args': list(args), 'expected': ref[1],
                               'actual': repr(actual), 'features': feats,
                               'how_to_replay': 'compile src with ppci.lang.c3.c3_to_ir for march, run g(*args) with '
                                                'tools/irsem_py.run_main, compare with the C3Spec evaluator '
                                                '(python tools/props/c37.py replay <this file> needs body: re-run the '
                                                'check with the same seed)'})
            elif feats and ref[1] != 0:
                st['nontrivial'] += 1
            if err:
                break


# ------------------------------------------------------------------ statements: model CFG vs decompiled c3_to_ir output (tie H)
TVARS = {'int': [0, 1], 'byte': [2, 3]}


def tgen_block(rng, depth, n=None):
    return [tgen_stmt(rng, depth) for _ in range(n or rng.choice([1, 1, 2]))]


SHORTHAND = ['+', '-', '*', '&', '|']


def tgen_assign(rng):
    r = rng.random()
    if r < 0.25:
        t = rng.choice(['int', 'byte'])
        return ('aop', rng.choice(TVARS[t]), t, rng.choice(SHORTHAND), gen_num(rng, 1, rng.choice(['int', 'byte']) if t == 'byte' else None, param_vars))
    r = rng.random()
    if r < 0.1:
        return ('assign', 4, 'bool', ('bool', rng.random() < 0.5))
    if r < 0.4:
        return ('assign', rng.choice(TVARS['byte']), 'byte', gen_num(rng, 2, rng.choice(['byte', 'int']), param_vars))
    return ('assign', rng.choice(TVARS['int']), 'int', gen_num(rng, 2, rng.choice(['int', 'byte', None]), param_vars))


def has_bool_lit(c):
    return c[0] == 'bool' or any(has_bool_lit(x) for x in c[1:] if isinstance(x, tuple))


def loop_cond(rng, depth):
    """loop conditions without true/false literals: a constant-false operand makes the body unreachable, and
    the decompiler (which only sees reachable back edges) then has no loop where the model has one"""
    while True:
        c = gen_bool(rng, depth, param_vars)
        if not has_bool_lit(c):
            return c


def tgen_stmt(rng, depth):
    r = rng.random()
    if depth > 0 and r < 0.2:
        return ('if', loop_cond(rng, rng.choice([0, 1, 2])), tgen_block(rng, depth - 1),
                tgen_block(rng, depth - 1) if rng.random() < 0.6 else [])
    if depth > 0 and r < 0.32:
        return ('while', loop_cond(rng, rng.choice([0, 1])), tgen_block(rng, depth - 1))
    if depth > 0 and r < 0.44:
        return ('for', tgen_assign(rng), loop_cond(rng, rng.choice([0, 1])), tgen_assign(rng),
                tgen_block(rng, depth - 1))
    if depth > 0 and r < 0.56:
        labels = rng.sample([0, 1, 2, 3, 7, 100, 255], rng.choice([1, 2, 3]))
        return ('switch', gen_num(rng, 1, 'int', param_vars), [(z, tgen_block(rng, depth - 1, 1)) for z in labels],
                tgen_block(rng, depth - 1, 1))
    if r < 0.64:
        return ('if', loop_cond(rng, 1), [('ret', gen_num(rng, 1, None, param_vars))], [])
    return tgen_assign(rng)


def t_src(s, ind):
    p = ' ' * ind
    k = s[0]
    if k == 'assign':
        return [p + 'p%d = %s;' % (s[1], e_src(s[3]))]
    if k == 'aop':
        return [p + 'p%d %s= %s;' % (s[1], s[3], e_src(s[4]))]
    if k == 'ret':
        return [p + 'return %s;' % e_src(s[1])]
    if k == 'if':
        out = [p + 'if (%s) {' % e_src(s[1])] + tb_src(s[2], ind + 2) + [p + '}']
        if s[3]:
            out[-1] = p + '} else {'
            out += tb_src(s[3], ind + 2) + [p + '}']
        return out
    if k == 'while':
        return [p + 'while (%s) {' % e_src(s[1])] + tb_src(s[2], ind + 2) + [p + '}']
    if k == 'for':
        return ([p + 'for (%s %s; %s) {' % (t_src(s[1], 0)[0], e_src(s[2]), t_src(s[3], 0)[0].rstrip(';'))]
                + tb_src(s[4], ind + 2) + [p + '}'])
    if k == 'switch':
        out = [p + 'switch (%s) {' % e_src(s[1])]
        for z, body in s[2]:
            out += [p + '  case %d: {' % z] + tb_src(body, ind + 4) + [p + '  }']
        return out + [p + '  default: {'] + tb_src(s[3], ind + 4) + [p + '  }', p + '}']
    raise AssertionError(k)


def tb_src(b, ind):
    return [l for s in b for l in t_src(s, ind)]


def t_coq(s):
    k = s[0]
    if k == 'assign':
        return '(SAssign %d %s %s)' % (s[1], TY_COQ[s[2]], e_coq(s[3]))
    if k == 'aop':
        return '(SAssignOp %d %s %s %s)' % (s[1], TY_COQ[s[2]], INV_BIN[s[3]], e_coq(s[4]))
    if k == 'ret':
        return '(SRet %s)' % e_coq(s[1])
    if k == 'if':
        return '(SIf %s %s %s)' % (e_coq(s[1]), tb_coq(s[2]), tb_coq(s[3]))
    if k == 'while':
        return '(SWhile %s %s)' % (e_coq(s[1]), tb_coq(s[2]))
    if k == 'for':
        return '(SFor %s %s %s %s)' % (t_coq(s[1]), e_coq(s[2]), t_coq(s[3]), tb_coq(s[4]))
    if k == 'switch':
        return '(SSwitch %s [%s] %s)' % (e_coq(s[1]), '; '.join('(%d, %s)' % (z, tb_coq(b)) for z, b in s[2]), tb_coq(s[3]))
    raise AssertionError(k)


def tb_coq(b):
    if not b:
        return 'SSkip'
    if len(b) == 1:
        return t_coq(b[0])
    return '(SSeq %s %s)' % (t_coq(b[0]), tb_coq(b[1:]))


def stmt_cases(ctx, n):
    """(Coq term, decompiled real CFG) pairs"""
    import stmt_decomp
    cases, meta = [], []
    var_index = {'p%d' % i: i for i in range(len(PARAM_TYPES))}
    tries = 0
    while len(cases) < n and tries < 4 * n:
        tries += 1
        body = tgen_block(ctx.rng, 2, ctx.rng.choice([1, 2, 3])) + [('ret', gen_num(ctx.rng, 1, None, param_vars))]
        src = 'module m;\nfunction int f(%s) {\n%s\n}\n' % (PARAMS_SRC, '\n'.join(tb_src(body, 2)))
        march, w, ptr = ARCHS[0] if tries % 2 else ARCHS[2]
        m, err = compile_c3(src, march)
        if err == 'diag':
            val = Diag
        elif err:
            val = Internal
        else:
            f = [x for x in m.functions if x.name == fn_name(m, 'f')][0]
            try:
                val = stmt_decomp.decompile(f, var_index, True, lambda d: 2 * d)
            except stmt_decomp.Unexpected as ex:
                if str(ex) == 'too large':
                    continue
                val = 'decompile: %s' % ex
        cases.append(('compile_val %d CInt %s' % (w, tb_coq(body)), val))
        meta.append((march, src))
    return cases, meta


# ------------------------------------------------------------------ constant expressions (context.eval_const; differential only)
def gen_const(rng, depth, ext=False):
    """ext: also << >> & | ^ and unary minus (only when the front-end's eval_const has them)"""
    if depth == 0 or rng.random() < 0.3:
        k = ('lit', rng.choice([0, 1, 2, 3, 5, 7, 10, 13, 100, 255, 1000]))
        if ext and rng.random() < 0.3:
            return ('neg', k)
        return k if rng.random() < 0.7 else ('bin', '-', ('lit', 0), k)
    ops = ['+', '-', '*', '/', '%', '/', '%'] + (['<<', '>>', '&', '|', '^'] if ext else [])
    op = rng.choice(ops)
    b = gen_const(rng, depth - 1, ext)
    if op in ('<<', '>>') and rng.random() < 0.8:
        b = ('lit', rng.choice([0, 1, 2, 3, 7]))
    return ('bin', op, gen_const(rng, depth - 1, ext), b)


def cev(w, e):
    """value of an int constant expression; Undef on division by zero, a shift count outside 0..w-1, or when an
    intermediate value leaves the int range (the compile-time evaluator works on unbounded integers)"""
    if e[0] == 'lit':
        return e[1]
    if e[0] == 'neg':
        r = -cev(w, e[1])
        if norm(w, True, r) != r:
            raise Undef('overflow')
        return r
    a, b = cev(w, e[2]), cev(w, e[3])
    r = arith(w, True, e[1], a, b)
    if r != arith(256, True, e[1], a, b):
        raise Undef('overflow')
    return r


CONST_WITNESSES = [
    {'id': 'const-truediv', 'expr': ('bin', '/', ('lit', 7), ('lit', 2))},
    {'id': 'const-floormod', 'expr': ('bin', '%', ('bin', '-', ('lit', 0), ('lit', 7)), ('lit', 2))},
    {'id': 'const-shift', 'expr': ('bin', '<<', ('lit', 1), ('lit', 3))},
    {'id': 'const-bitand', 'expr': ('bin', '&', ('lit', 6), ('lit', 3))},
    {'id': 'const-unary-minus', 'expr': ('neg', ('lit', 7)), 'diag_ok': True},
]


def const_outcome(e, march, ptr, as_case=False):
    if as_case:
        src = ('module m;\nfunction int f(int a) {\n  switch (a) {\n    case %s: { return 1; }\n'
               '    default: { return 0; }\n  }\n}\n' % e_src(e))
    else:
        src = 'module m;\nconst int c = %s;\nfunction int f(int a) {\n  return c;\n}\n' % e_src(e)
    m, err = compile_c3(src, march)
    if err:
        return src, err
    return src, m


def const_one(ctx, st, wid, e, diag_ok=False):
    ok_all = True
    for march, w, ptr in (ARCHS[0], ARCHS[2]):
        try:
            exp = cev(w, e)
        except Undef:
            st['rejected'] += 1
            continue
        st['checked'] += 1
        src, m = const_outcome(e, march, ptr)
        if isinstance(m, str):
            act = m
        else:
            act = ir_outcome(m, fn_name(m, 'f'), [0], ptr)
            act = act.v if isinstance(act, OkV) else act
        src2, m2 = const_outcome(e, march, ptr, as_case=True)
        if isinstance(m2, str):
            act2 = m2
        else:
            act2 = ir_outcome(m2, fn_name(m2, 'f'), [exp], ptr)
            act2 = act2.v if isinstance(act2, OkV) else act2
        ok = act == exp and act2 == 1
        if diag_ok and act == 'diag' and act2 == 'diag':
            if wid:
                st['witnesses'][wid + '@' + march] = 'rejected by the front-end (diagnostic)'
            ok_all = False
            continue
        if wid:
            st['witnesses'][wid + '@' + march] = 'passes' if ok else 'fails'
        if not ok:
            ok_all = False
            st['mismatch'] += 1
            rec = {'fn': 'c3_to_ir', 'key': 'const-' + (wid or e[1]), 'src': src if act != exp else src2,
                   'march': march, 'args': [0] if act != exp else [exp], 'expected': exp if act != exp else 1,
                   'actual': repr(act if act != exp else act2),
                   'how_to_replay': 'python tools/props/c37.py replay <this file>'}
            if wid:
                rec['witness'] = wid
            ctx.violation(rec)
    return ok_all


def const_stage(ctx, n):
    st = {'checked': 0, 'rejected': 0, 'mismatch': 0, 'witnesses': {}}
    res = {}
    for w_ in CONST_WITNESSES:
        res[w_['id']] = const_one(ctx, st, w_['id'], w_['expr'], w_.get('diag_ok', False))
    # the extended operator set is exercised once the front-end evaluates it at all
    ext = res['const-shift'] and res['const-bitand'] and res['const-unary-minus']
    st['extended_operators'] = bool(ext)
    for _ in range(n):
        const_one(ctx, st, None, gen_const(ctx.rng, ctx.rng.choice([1, 2, 3]), ext))
    return st


def regen(ctx):
    """tie H: nothing to regenerate; record the facts of the source the model depends on"""
    vlib.ensure_repo_on_path()
    from ppci.api import get_arch
    from ppci.lang.c3.context import Context
    from ppci.lang.c3 import astnodes
    facts = {}
    for march, w, ptr in ARCHS:
        c = Context(get_arch(march).info)
        facts[march] = {'int_bits': c.get_type('int').byte_size * 8, 'byte_bits': c.get_type('byte').byte_size * 8,
                        'bool_class': type(c.get_type('bool')).__name__, 'ptr': c.pointerSize}
        if facts[march]['int_bits'] != w or facts[march]['byte_bits'] != 8 or facts[march]['bool_class'] != 'BaseType' \
                or facts[march]['ptr'] != ptr:
            ctx.failed_stages.append(('export', 'type sizes of %s changed: %r' % (march, facts[march])))
    ops = sorted(astnodes.Binop.arithmatic_ops)
    if ops != sorted(BINOPS.values()):
        ctx.failed_stages.append(('export', 'Binop.arithmatic_ops changed: %r' % (ops,)))
    ctx.cov['stages']['source_facts'] = {'types': facts, 'arith_ops': ops}
    return facts


def run(ctx):
    thorough = not ctx.quick()
    regen(ctx)
    ok, _ = ctx.build(['Proofs/C37_c3.vo', 'Proofs/C37_stmt.vo', 'Model/C3Lower.vo', 'Model/C3Stmt.vo'])
    if ok:
        ctx.check_props('Props/C37.v')
    model_ok = ok or ctx.build(['Model/C3Lower.vo'])[0]

    # ---- model vs implementation (and the evaluator twin) on expressions
    cases, meta = expr_cases(ctx, 420 if thorough else 120, 150 if thorough else 40, 5 if thorough else 3)
    twin_bad = []
    for i, mt in enumerate(meta):
        if mt['twin'] is None or mt['kind'] == 'ill':
            continue
        iv = mt['impl']
        got = iv.v if isinstance(iv, OkV) else (iv[1].v if isinstance(iv, tuple) and isinstance(iv[1], OkV) else None)
        if got is None or int(got) != mt['twin']:
            twin_bad.append(i)
            ctx.violation({'fn': 'c3_to_ir', 'key': 'expr-' + mt['kind'], 'src': mt['src'], 'march': mt['march'],
                           'args': mt['env'], 'expected': mt['twin'], 'actual': repr(got if got is not None else iv),
                           'how_to_replay': 'python tools/props/c37.py replay <this file>'})
    ctx.cov['stages']['expr_cases'] = {'cases': len(cases), 'twin_defined': sum(1 for m in meta if m['twin'] is not None),
                                       'twin_mismatch': len(twin_bad),
                                       'diag': sum(1 for _, v in cases if v is Diag)}
    ctx.cov['distinct_nontrivial'] += sum(1 for m in meta if m['twin'])
    for mt in meta[:: max(1, len(meta) // 4)]:
        ctx.note_sample({'src': mt['src'], 'march': mt['march'], 'env': mt['env'], 'value': mt['twin']})
    if model_ok:
        bad = ctx.run_cases('c3lower', ['Spec.IRSyntax', 'Spec.IRSem', 'Spec.C3Spec', 'Model.C3Lower'], cases)
        if bad:
            for i in bad[:5]:
                ctx.log('model/implementation disagree:', {k: (repr(v) if k == 'impl' else v) for k, v in meta[i].items()})
            ctx.failed_stages.append(('correspondence', 'Model.C3Lower disagrees with c3_to_ir+irsem_py on %d cases, first: '
                                      '%s on %s env %r' % (len(bad), meta[bad[0]]['src'], meta[bad[0]]['march'],
                                                           meta[bad[0]]['env'])))

    # ---- statements: model CFG (Model/C3Stmt.v) vs decompiled c3_to_ir output
    if model_ok:
        scases, smeta = stmt_cases(ctx, 120 if thorough else 45)
        sbad = ctx.run_cases('c3stmt', ['Spec.IRSyntax', 'Spec.IRSem', 'Spec.C3Spec', 'Spec.C3StmtSpec', 'Model.C3Lower',
                                        'Model.StmtCode', 'Model.C3Stmt'], scases)
        ctx.cov['stages']['stmt_cfg_cases'] = {'cases': len(scases), 'disagree': len(sbad or []),
                                               'diag': sum(1 for _, v in scases if v is Diag)}
        ctx.cov['distinct_nontrivial'] += len(scases)
        if smeta:
            ctx.note_sample({'stmt_cfg_source': smeta[0][1], 'march': smeta[0][0]})
        if sbad:
            for i in sbad[:3]:
                ctx.log('statement model / c3_to_ir CFG disagree on (%s):\n' % smeta[i][0] + smeta[i][1] + repr(scases[i][1])[:300])
            ctx.failed_stages.append(('correspondence', 'Model.C3Stmt CFG differs from c3_to_ir on %d functions, first (%s):\n%s'
                                      % (len(sbad), smeta[sbad[0]][0], smeta[sbad[0]][1])))

    # ---- constant expressions (const declarations, case labels)
    ctx.cov['stages']['constants'] = const_stage(ctx, 120 if thorough else 40)
    ctx.cov['evaluations'] += ctx.cov['stages']['constants']['checked']

    # ---- differential search on statements
    deep = thorough or bool(ctx.failed_stages)
    nmod = 500 if deep else 150
    st = {'runs': 0, 'accepted': 0, 'rejected': {}, 'mismatch': 0, 'nontrivial': 0, 'features': {}}
    for k in range(nmod):
        src, body, final, feats = gen_module(ctx.rng)
        for f in feats:
            st['features'][f] = st['features'].get(f, 0) + 1
        diff_module(ctx, src, body, final, feats, st, 6)
        if k % max(1, nmod // 3) == 0:
            ctx.note_sample({'module': src, 'features': feats})
    ctx.cov['stages']['differential'] = dict(st, modules=nmod, targets=[a for a, _, _ in ARCHS])
    ctx.cov['evaluations'] += st['runs']
    ctx.cov['distinct_nontrivial'] += st['nontrivial']
    ctx.cov['exhaustive'] = False


def replay(rec):
    """re-execute a recorded counterexample on the implementation; exit 1 while the value differs"""
    w, ptr = {a: (w_, p) for a, w_, p in ARCHS}[rec['march']]
    m, err = compile_c3(rec['src'], rec['march'])
    if err:
        print('compile:', err)
        return 1
    name = 'g' if 'function int g(' in rec['src'] else 'f'
    act = ir_outcome(m, fn_name(m, name), rec['args'], ptr)
    act = act.v if isinstance(act, OkV) else act
    print('expected (C3Spec evaluator):', rec['expected'], ' c3_to_ir + irsem_py:', act)
    return 1 if act != rec['expected'] else 0


MANIFEST = {
    'text': 'PARTIAL (other). Coq theorems, unbounded in values and for int widths 16/32/64, for exactly the EXPRESSION '
            'fragment of the C3 front-end over the types int, byte and bool: literals, variables, + - * / % << >> & | ^, '
            'unary minus, cast<int|byte>, comparisons, and/or/not as conditions and as values. For every expression the '
            'front-end model accepts and whose C3 value is defined (no division by zero, no INT_MIN/-1, shift count in '
            'range), the emitted IR tree evaluates under the IR reference semantics to exactly the value of the fixed-width '
            'semantics of the declared types, with the prescribed result type (c37_expr_exact); a condition branches to the '
            'true target exactly when its value is true (c37_cond_exact); the operand skipped by and/or is neither used nor '
            'executed (c37_short_circuit_and/or); implicit byte->int widening is inserted and keeps the value '
            '(c37_coercion_exact); int->byte narrowing is also inserted implicitly by do_coerce and truncates modulo 256 '
            '(c37_coercion_narrowing_is_implicit); bool converts to nothing (c37_coercion_bool_rejected). STATEMENTS over int/byte/bool '
            'variables (assignment with the implicit conversion, shorthand assignment += -= *= &= |=, compound, if/else, while, for, '
            'switch, return; C3 has no break/continue statement; calls are NOT in the theorem): whenever the '
            'relational big-step semantics C3StmtSpec ends in return v, the code the gen_stmt model emits returns v '
            '(c37_stmt_exact, c37_body_exact), and the CJump chain of a switch reaches exactly the code of the first matching '
            'case label, else default (c37_switch_dispatch). LIMIT: the emitted CFG is modelled unfolded along its forward edges '
            '(join blocks duplicated, loop heads/back edges explicit, the switch value as a register, variables as slots) and '
            'executed with IRSem arithmetic, not with IRSem.run_function over numbered blocks and byte memory; the representation '
            'is tied to the real output by decompiling c3_to_ir\'s CFG into the same tree form and comparing it with the model on '
            'generated functions every run. Calls, block numbering, memory layout are differential-execution '
            'validated only (generated C3 modules -> c3_to_ir for arm, x86_64 and msp430 -> reference IR interpreter vs an '
            'independent evaluator of the C3 semantics, 150 modules x 3 targets x 6 argument vectors per quick run). '
            'Compile-time constant expressions (const declarations, case labels; + - * / % on int literals) are likewise '
            'differential-execution validated only. Pointers, structs, arrays, sized integer types, floats and strings are not covered.',
    'note': 'theorems are about the hand model coq/Model/C3Lower.v; model, implementation and the Python evaluator twin are '
            'compared on every run (random expressions on three targets, incl. ill-typed forms and undefined cases). '
            'Trusted: Coq kernel, the transcription, Spec/C3Spec.v as reading of C3 (byte+byte stays byte), Spec/IRSem.v, '
            'tools/irsem_py.py. The property text compares with a C compiler; C would promote byte operands to int, C3 '
            'does not, so gcc is not used as oracle. No axioms.',
    'technique': 'Coq proof over hand model; differential execution vs independent evaluator',
}


if __name__ == '__main__' and len(sys.argv) >= 3 and sys.argv[1] == 'replay':
    sys.path.insert(0, os.path.dirname(os.path.dirname(os.path.abspath(__file__))))
    sys.exit(replay(json.load(open(sys.argv[2]))))
