"""C24 — the IR -> Python backend executes IR semantics exactly (DESIGN §4 C24).

tie T: the runtime helpers (correct, idiv, irem, ishl, ishr) are *emitted text*; regen() runs
       IrToPythonCompiler.generate_runtime() of the current tree, extracts the helper definitions
       and translates them with py2coq into Gen/ir2py_runtime.v.
tie I: the load_*/store_* helpers are emitted from a table; regen() parses the emitted helpers
       (shape-checked) and exports (type name, struct format, size) rows into the same Gen file.
tie H: Model/Ir2Py.v mirrors gen_binop / gen_unop / gen_cast / fill_phis as functions to a small
       Python AST; the correspondence compiles one-instruction IR functions with ir_to_python and
       compares (a) the emitted statement text with the text printed by the model and (b) the value
       computed by exec() of the emitted module with the model's py_sem, on boundary operand pools.
search: independent Python oracle of Spec/IRSemArith (truncating / and %, wrap, shifts, casts,
       little-endian memory, per-edge phi semantics) against the executed emitted Python.
"""
import ast
import io
import itertools
import math
import os
import struct
import sys

from vlib import OkV, Diag, Internal, to_term, TieBroken, WORK
import vlib

LEVEL = 'proof'
RULE = ('every (binop, integer type) x boundary operand pool (0, +-1, +-2, MIN, MAX, 2^(w-1), 2^w-1, '
        'shift counts 0..w, seeded random values), every unop and int->int cast pair likewise, float->int '
        'casts on halves/boundaries/random floats, load/store of every width on boundary values, phi '
        'programs (swap, loop with live-out phi, diamond). A case is the execution of the Python text '
        'emitted by ir_to_python for a one-instruction (or small CFG) IR function. Non-trivial = distinct '
        '(instruction, type, operands) whose IR result is defined and whose operands are not all 0')
EXPLANATION = ('Unbounded Coq theorems (every width > 0, every in-range operand) that the statements emitted '
               'by gen_binop/gen_unop/gen_cast over the emitted runtime helpers compute Spec.IRSemArith; '
               'struct-based load/store helpers = little-endian two\'s complement for every emitted row; '
               'tuple assignment of fill_phis = simultaneous phi semantics. The block dispatcher loop, calls, '
               'alloc/free, float arithmetic, ptr-typed arithmetic and blob load/store are NOT modelled '
               '(only executed in the search). Two genuine defects are refuted with witnesses: float->int '
               'rounds instead of truncating; fill_phis also assigns the phis of the successor that is not '
               'taken (clobbers a live phi).')
TRUSTED = ['tools/py2coq.py on the emitted helper text (cross-checked per run against exec of the same text)',
           'hand model Model/Ir2Py.v of the emitted statements (cross-checked per run: printed text == emitted '
           'text for every (op, type); value agreement on the pools)',
           'CPython facts: int arithmetic == Z; round(float) is round-half-even to int; int(float) truncates; '
           'struct.pack/unpack of b B h H i I q Q in native mode on a little-endian host (cross-checked per run)',
           'reading of the IR semantics in Spec/IRSemArith.v (C-like: truncating / %, shifts defined for '
           '0 <= n < bits, MIN / -1 undefined)']
ASSUMPTIONS = ['operands are in range of their IR type (invariant established by every emitted instruction, '
               'assumed for function arguments and constants)',
               'host is little-endian (emitted struct formats use native byte order)',
               'ptr is handled by the emitted runtime as a 4-byte signed integer ("i") in memory and gets no '
               'wrap-around in arithmetic: flagged, not part of the exactness theorems']

INT_TYPES = [('i8', 8, True), ('i16', 16, True), ('i32', 32, True), ('i64', 64, True),
             ('u8', 8, False), ('u16', 16, False), ('u32', 32, False), ('u64', 64, False)]
BINOPS = [('+', 'Add'), ('-', 'Sub'), ('*', 'Mul'), ('/', 'Div'), ('%', 'Rem'), ('|', 'Or'), ('&', 'And'),
          ('^', 'Xor'), ('<<', 'Shl'), ('>>', 'Shr'), ('rol', 'Rol'), ('ror', 'Ror')]
UNOPS = [('-', 'Neg'), ('~', 'Inv')]
HELPERS = [{'name': 'correct', 'params': {'signed': 'bool'}}, {'name': 'idiv'}, {'name': 'irem'},
           {'name': 'ishl'}, {'name': 'ishr'}]


# ------------------------------------------------------------------ emitted runtime (T + I)
def emitted_runtime_text():
    from ppci.lang.python import ir2py
    f = io.StringIO()
    ir2py.irpy_runtime_code(f)
    return f.getvalue()


LOAD_SHAPE = ("FunctionDef(name='load_{n}', args=arguments(posonlyargs=[], args=[arg(arg='self'), arg(arg='address')], "
              "kwonlyargs=[], kw_defaults=[], defaults=[]), body=[Assign(targets=[Name(id='data', ctx=Store())], "
              "value=Call(func=Attribute(value=Name(id='self', ctx=Load()), attr='read_mem', ctx=Load()), "
              "args=[Name(id='address', ctx=Load()), Constant(value={s})], keywords=[])), "
              "Return(value=Subscript(value=Call(func=Attribute(value=Name(id='struct', ctx=Load()), attr='unpack', "
              "ctx=Load()), args=[Constant(value='{f}'), Name(id='data', ctx=Load())], keywords=[]), "
              "slice=Constant(value=0), ctx=Load()))], decorator_list=[], type_params=[])")
STORE_SHAPE = ("FunctionDef(name='store_{n}', args=arguments(posonlyargs=[], args=[arg(arg='self'), arg(arg='address'), "
               "arg(arg='value')], kwonlyargs=[], kw_defaults=[], defaults=[]), body=[Assign(targets=[Name(id='data', "
               "ctx=Store())], value=Call(func=Attribute(value=Name(id='struct', ctx=Load()), attr='pack', ctx=Load()), "
               "args=[Constant(value='{f}'), Name(id='value', ctx=Load())], keywords=[])), "
               "Expr(value=Call(func=Attribute(value=Name(id='self', ctx=Load()), attr='write_mem', ctx=Load()), "
               "args=[Name(id='address', ctx=Load()), Name(id='data', ctx=Load())], keywords=[]))], "
               "decorator_list=[], type_params=[])")


def extract_runtime(text):
    """returns (helper module text, load/store rows [(tyname, load_fmt, load_size, store_fmt)], mem helper dumps)"""
    tree = ast.parse(text)
    cls = [n for n in tree.body if isinstance(n, ast.ClassDef) and n.name == 'IrPy']
    if len(cls) != 1:
        raise TieBroken('emitted runtime has no class IrPy')
    meths = {n.name: n for n in cls[0].body if isinstance(n, ast.FunctionDef)}
    out = []
    for h in HELPERS:
        n = meths.get(h['name'])
        if n is None:
            raise TieBroken('emitted runtime lacks helper %s' % h['name'])
        if [ast.dump(d) for d in n.decorator_list] != ["Name(id='staticmethod', ctx=Load())"]:
            raise TieBroken('helper %s is not a plain staticmethod' % h['name'])
        n.decorator_list = []
        out.append(ast.unparse(n))
    rows = []
    for name in sorted(meths):
        if not name.startswith('load_'):
            continue
        ty = name[5:]
        ld, st = meths[name], meths.get('store_' + ty)
        if st is None:
            raise TieBroken('no store helper for ' + ty)
        try:
            size = ld.body[0].value.args[1].value
            lfmt = ld.body[1].value.value.args[0].value
            sfmt = st.body[0].value.args[0].value
        except (AttributeError, IndexError):
            raise TieBroken('load/store helper of %s has an unexpected shape' % ty)
        if ast.dump(ld) != LOAD_SHAPE.format(n=ty, s=size, f=lfmt) or \
                ast.dump(st) != STORE_SHAPE.format(n=ty, f=sfmt):
            raise TieBroken('load/store helper of %s has an unexpected shape' % ty)
        rows.append((ty, lfmt, size, sfmt))
    mem = {k: ast.dump(meths[k]) for k in ('read_mem', 'write_mem', 'get_memory') if k in meths}
    return '\n\n'.join(out) + '\n', rows, mem


# shape of the memory helpers that Model/Ir2Py.v (read_mem / write_mem) mirrors
MEM_SRC = '''
def read_mem(self, address, size):
    mem, address = self.get_memory(address)
    assert address+size <= len(mem), str(hex(address))
    return mem[address:address+size]

def write_mem(self, address, data):
    mem, address = self.get_memory(address)
    size = len(data)
    assert address+size <= len(mem), f'{hex(address)}'
    mem[address:address+size] = data

def get_memory(self, v):
    if v >= self.HEAP_START:
        return self.heap, v - self.HEAP_START
    else:
        return self.stack, v
'''


def regen(ctx):
    import py2coq
    text = emitted_runtime_text()
    helpers, rows, mem = extract_runtime(text)
    os.makedirs(ctx.work, exist_ok=True)
    path = os.path.join(ctx.work, 'emitted_runtime.py')
    with open(path, 'w') as f:
        f.write(helpers)
    try:
        coq, infos, hashes = py2coq.translate_module(path, HELPERS)
    except (py2coq.Unsupported, SyntaxError) as ex:
        ctx.failed_stages.append(('translate', 'emitted runtime: %s' % ex))
        raise TieBroken(str(ex))
    coq = coq.replace(coq.splitlines()[0],
                      '(* GENERATED by tools/props/c24.py: py2coq on the runtime helpers EMITTED by '
                      'ppci/lang/python/ir2py.py generate_builtins; table from generate_memory_builtins *)')
    expect = {k: ast.dump(n) for k, n in ((n.name, n) for n in ast.parse(MEM_SRC).body)}
    if mem != expect:
        ctx.failed_stages.append(('translate', 'emitted read_mem/write_mem/get_memory differ from the shape '
                                               'mirrored by Model/Ir2Py.v'))
        raise TieBroken('memory helper shape changed')
    coq += '\nFrom Coq Require Import String.\nOpen Scope string_scope.\n'
    coq += '(* (type name, unpack format, size read, pack format) of every emitted load_/store_ pair *)\n'
    coq += 'Definition ls_table : list (string * string * Z * string) := [\n'
    coq += ';\n'.join('  ("%s", "%s", %d, "%s")' % r for r in rows) + '].\nClose Scope string_scope.\n'
    changed = ctx.write_gen('ir2py_runtime', coq)
    ctx.cov['stages']['gen_ir2py_runtime'] = {'functions': hashes, 'ls_rows': len(rows), 'changed_on_disk': changed}
    return infos, rows, text
