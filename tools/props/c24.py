"""C24 — the IR -> Python backend executes IR semantics exactly (DESIGN §4 C24).

tie T: the runtime helpers (correct, idiv, irem, ishl, ishr) are *emitted text*; regen() runs
       IrToPythonCompiler.generate_runtime() of the current tree, extracts the helper definitions
       and translates them with py2coq into Gen/ir2py_runtime.v.
tie I: the load_*/store_* helpers are emitted from a table; regen() parses the emitted helpers
       (shape-checked) and exports (type name, struct format, size) rows into the same Gen file.
tie H: Model/Ir2Py.v mirrors gen_binop / gen_unop / gen_cast / fill_phis as functions to a small
       Python AST; the correspondence compiles one-instruction IR functions with ir_to_python and
       compares (a) the emitted statement text with the text printed by the model and (b) the value
       computed by exec() of the emitted module with the model's py_sem, on boundary operand pools.
search: independent Python oracle of Spec/IRSemArith (truncating / and %, wrap, shifts, casts,
       little-endian memory, per-edge phi semantics) against the executed emitted Python.
"""
import ast
import io
import itertools
import math
import os
import struct
import sys

from vlib import OkV, Diag, Internal, to_term, TieBroken, WORK
import vlib

LEVEL = 'proof'
RULE = ('every (binop, integer type) x boundary operand pool (0, +-1, +-2, MIN, MAX, 2^(w-1), 2^w-1, '
        'shift counts 0..w, seeded random values), every unop and int->int cast pair likewise, float->int '
        'casts on halves/boundaries/random floats, load/store of every width on boundary values, phi '
        'programs (swap, loop with live-out phi, diamond), whole functions from tools/gen/irgen.py (diamond, loop, selfloop, '
        'dupedge, casts) with generated arguments. A case is the execution of the Python text '
        'emitted by ir_to_python for a one-instruction (or small CFG) IR function. Non-trivial = distinct '
        '(instruction, type, operands) whose IR result is defined and whose operands are not all 0')
EXPLANATION = ('Unbounded Coq theorems (every width > 0, every in-range operand) that the statements emitted '
               'by gen_binop/gen_unop/gen_cast over the emitted runtime helpers compute Spec.IRSemArith; '
               'struct-based load/store helpers = little-endian two\'s complement for every emitted row; the per-edge '
               'tuple assignment of fill_phis = simultaneous phi semantics; and c24_block_switch_simulates: for every '
               'well-formed module and every function of the integer/branch/phi/return fragment (Model.Ir2PyFunc.'
               'compile_func, text-compared with the emitted function for generated CFGs on every run), whenever the '
               'reference semantics Spec.IRSem.run_function returns a value, the emitted `while True` block dispatcher '
               'returns the same value (unbounded over functions, CFGs, loops, fuel); c24_module_simulates extends this to '
               'whole modules with calls of module functions and of external functions/procedures (oracle parameter, same '
               'value and same trace of external calls; one fuel for call depth and loop iterations). NOT modelled in Coq (only executed '
               'against the reference interpreter tools/irsem_py.py / an oracle in the search): memory '
               'instructions inside functions (Alloc, AddressOf, Load, Store, CopyBlob, globals: the runtime address space differs '
               'from Spec.IRSem, a memory injection would be needed), alloc/free, module Procedures/Exit, indirect calls, float arithmetic, ptr-typed arithmetic, Undefined, '
               'out-of-range constants. Repaired defects: float->int rounding and phis of the untaken successor (fixed '
               'in /repo; _refuted theorems kept about the old generators). Known findings with proposed repairs: '
               'rol/ror emitted as invalid Python (c24_binop_rol_refuted; repaired lowering proved exact in '
               'c24_binop_rot_exact), NaN constant emitted as bare `nan`, rt.free of a statically summed size. Wave 5: the runtime OBJECT (Model/Ir2PyRt.v: heap/stack bytearrays, get_memory dispatch at the exported HEAP_START, alloca, free, heap_top; scripts run on the emitted IrPy every run): c24_rt_alloca_store_load_free (alloca n; store/load of any integer type inside the block is exact, heap and older stack untouched; free n restores the state) and c24_rt_heap_store_load; stack-relative negative addresses not modelled.')
TRUSTED = ['tools/py2coq.py on the emitted helper text (cross-checked per run against exec of the same text)',
           'hand model Model/Ir2Py.v of the emitted statements (cross-checked per run: printed text == emitted '
           'text for every (op, type); value agreement on the pools)',
           'CPython facts: int arithmetic == Z; round(float) is round-half-even to int; int(float) truncates; '
           'struct.pack/unpack of b B h H i I q Q in native mode on a little-endian host (cross-checked per run)',
           'reading of the IR semantics in Spec/IRSemArith.v (C-like: truncating / %, shifts defined for '
           '0 <= n < bits, MIN / -1 undefined) and in Spec/IRSem.v (IR hub reference interpreter)',
           'hand model Model/Ir2PyFunc.v of the emitted function body and its CPython meaning (sequential '
           '`if _irpy_current_block == ...` tests inside `while True`; _irpy_current_block kept as a separate state '
           'component; value names are assumed not to start with _irpy); cross-checked per run: printed text == emitted '
           'function text and model run == executed function on irgen CFGs',
           'tools/irimport.py (IR -> Spec.IRSyntax term) and tools/irsem_py.py (reference interpreter used by the search)']
ASSUMPTIONS = ['operands are in range of their IR type (invariant established by every emitted instruction, '
               'assumed for function arguments and constants)',
               'host is little-endian (emitted struct formats use native byte order)',
               'ptr is handled by the emitted runtime as a 4-byte signed integer ("i") in memory and gets no '
               'wrap-around in arithmetic: flagged, not part of the exactness theorems']

INT_TYPES = [('i8', 8, True), ('i16', 16, True), ('i32', 32, True), ('i64', 64, True),
             ('u8', 8, False), ('u16', 16, False), ('u32', 32, False), ('u64', 64, False)]
BINOPS = [('+', 'IRSemArith.Add'), ('-', 'IRSemArith.Sub'), ('*', 'IRSemArith.Mul'), ('/', 'IRSemArith.Div'),
          ('%', 'IRSemArith.Rem'), ('|', 'IRSemArith.Or'), ('&', 'IRSemArith.And'), ('^', 'IRSemArith.Xor'),
          ('<<', 'IRSemArith.Shl'), ('>>', 'IRSemArith.Shr'), ('rol', 'IRSemArith.Rol'), ('ror', 'IRSemArith.Ror')]
UNOPS = [('-', 'IRSemArith.Neg'), ('~', 'IRSemArith.Inv')]
HELPERS = [{'name': 'correct', 'params': {'signed': 'bool'}}, {'name': 'idiv'}, {'name': 'irem'},
           {'name': 'ishl'}, {'name': 'ishr'}]


# ------------------------------------------------------------------ emitted runtime (T + I)
def emitted_runtime_text():
    from ppci.lang.python import ir2py
    f = io.StringIO()
    ir2py.irpy_runtime_code(f)
    return f.getvalue()


LOAD_TMPL = '''
def load_{n}(self, address):
    data = self.read_mem(address, {s})
    return struct.unpack("{f}", data)[0]
'''
STORE_TMPL = '''
def store_{n}(self, address, value):
    data = struct.pack("{f}", value)
    self.write_mem(address, data)
'''


def _dump_src(src):
    return ast.dump(ast.parse(src).body[0])


def extract_runtime(text):
    """returns (helper module text, load/store rows [(tyname, load_fmt, load_size, store_fmt)], mem helper dumps)"""
    tree = ast.parse(text)
    cls = [n for n in tree.body if isinstance(n, ast.ClassDef) and n.name == 'IrPy']
    if len(cls) != 1:
        raise TieBroken('emitted runtime has no class IrPy')
    meths = {n.name: n for n in cls[0].body if isinstance(n, ast.FunctionDef)}
    out = []
    for h in HELPERS:
        n = meths.get(h['name'])
        if n is None:
            raise TieBroken('emitted runtime lacks helper %s' % h['name'])
        if [ast.dump(d) for d in n.decorator_list] != ["Name(id='staticmethod', ctx=Load())"]:
            raise TieBroken('helper %s is not a plain staticmethod' % h['name'])
        n.decorator_list = []
        out.append(ast.unparse(n))
    rows = []
    for name in sorted(meths):
        if not name.startswith('load_'):
            continue
        ty = name[5:]
        ld, st = meths[name], meths.get('store_' + ty)
        if st is None:
            raise TieBroken('no store helper for ' + ty)
        try:
            size = ld.body[0].value.args[1].value
            lfmt = ld.body[1].value.value.args[0].value
            sfmt = st.body[0].value.args[0].value
        except (AttributeError, IndexError):
            raise TieBroken('load/store helper of %s has an unexpected shape' % ty)
        if not isinstance(size, int) or not isinstance(lfmt, str) or not isinstance(sfmt, str) or \
                ast.dump(ld) != _dump_src(LOAD_TMPL.format(n=ty, s=size, f=lfmt)) or \
                ast.dump(st) != _dump_src(STORE_TMPL.format(n=ty, f=sfmt)):
            raise TieBroken('load/store helper of %s has an unexpected shape' % ty)
        rows.append((ty, lfmt, size, sfmt))
    mem = {k: ast.dump(meths[k]) for k in ('read_mem', 'write_mem', 'get_memory') if k in meths}
    return '\n\n'.join(out) + '\n', rows, mem


# shape of the memory helpers that Model/Ir2Py.v (read_mem / write_mem) mirrors
MEM_SRC = '''
def read_mem(self, address, size):
    mem, address = self.get_memory(address)
    assert address+size <= len(mem), str(hex(address))
    return mem[address:address+size]

def write_mem(self, address, data):
    mem, address = self.get_memory(address)
    size = len(data)
    assert address+size <= len(mem), f'{hex(address)}'
    mem[address:address+size] = data

def get_memory(self, v):
    if v >= self.HEAP_START:
        return self.heap, v - self.HEAP_START
    else:
        return self.stack, v
'''


def emitted_heap_start(text):
    """the integer literal assigned to HEAP_START in the body of the emitted class IrPy"""
    cls = [n for n in ast.parse(text).body if isinstance(n, ast.ClassDef) and n.name == 'IrPy']
    vals = [n.value.value for c in cls for n in c.body
            if isinstance(n, ast.Assign) and len(n.targets) == 1 and isinstance(n.targets[0], ast.Name)
            and n.targets[0].id == 'HEAP_START' and isinstance(n.value, ast.Constant) and type(n.value.value) is int]
    if len(vals) != 1:
        raise TieBroken('emitted class IrPy has no single integer HEAP_START')
    return vals[0]


def regen(ctx):
    import py2coq
    text = emitted_runtime_text()
    helpers, rows, mem = extract_runtime(text)
    os.makedirs(ctx.work, exist_ok=True)
    path = os.path.join(ctx.work, 'emitted_runtime.py')
    with open(path, 'w') as f:
        f.write(helpers)
    try:
        coq, infos, hashes = py2coq.translate_module(path, HELPERS)
    except (py2coq.Unsupported, SyntaxError) as ex:
        ctx.failed_stages.append(('translate', 'emitted runtime: %s' % ex))
        raise TieBroken(str(ex))
    coq = coq.replace(coq.splitlines()[0],
                      '(* GENERATED by tools/props/c24.py: py2coq on the runtime helpers EMITTED by '
                      'ppci/lang/python/ir2py.py generate_builtins; table from generate_memory_builtins *)')
    expect = {k: ast.dump(n) for k, n in ((n.name, n) for n in ast.parse(MEM_SRC).body)}
    if mem != expect:
        ctx.failed_stages.append(('translate', 'emitted read_mem/write_mem/get_memory differ from the shape '
                                               'mirrored by Model/Ir2Py.v'))
        raise TieBroken('memory helper shape changed')
    coq += '\nFrom Coq Require Import String.\nOpen Scope string_scope.\n'
    coq += '(* (type name, unpack format, size read, pack format) of every emitted load_/store_ pair *)\n'
    coq += 'Definition ls_table : list (string * string * Z * string) := [\n'
    coq += ';\n'.join('  ("%s", "%s", %d, "%s")' % r for r in rows) + '].\nClose Scope string_scope.\n'
    coq += '(* class attribute IrPy.HEAP_START of the emitted runtime (used by Model.Ir2PyRt) *)\n'
    coq += 'Definition heap_start : Z := %s.\n' % vlib.coq_z(emitted_heap_start(text))
    changed = ctx.write_gen('ir2py_runtime', coq)
    ctx.cov['stages']['gen_ir2py_runtime'] = {'functions': hashes, 'ls_rows': len(rows), 'changed_on_disk': changed}
    return infos, rows, text


# ------------------------------------------------------------------ building and running IR
def _ppci():
    vlib.ensure_repo_on_path()
    import ppci.ir as ir
    from ppci.lang.python.ir2py import ir_to_python
    from ppci.irutils import verify_module
    return ir, ir_to_python, verify_module


def new_function(ir, m, name, ret_ty, params):
    f = ir.Function(name, ir.Binding.GLOBAL, ret_ty)
    m.add_function(f)
    ps = []
    for (pn, pt) in params:
        p = ir.Parameter(pn, pt)
        f.add_parameter(p)
        ps.append(p)
    blk = ir.Block('entry')
    f.add_block(blk)
    f.entry = blk
    return f, blk, ps


def emit_module(m, verify=True):
    ir, ir_to_python, verify_module = _ppci()
    if verify:
        verify_module(m)
    f = io.StringIO()
    ir_to_python([m], f)
    return f.getvalue()


def load_module(text):
    ns = {}
    exec(compile(text, '<ir2py-emitted>', 'exec'), ns)
    return ns


def entry_lines(text, fname):
    """stripped statement lines emitted for block 'entry' of function fname, without the epilogue"""
    lines = text.splitlines()
    out, state = [], 0
    for ln in lines:
        if state == 0 and ln.startswith('def %s(' % fname):
            state = 1
        elif state == 1 and ln.strip() == 'if _irpy_current_block == "entry":':
            state = 2
        elif state == 2:
            if ln.strip().startswith('rt.free('):
                break
            out.append(ln.strip())
    return out


def tyname(bits, signed):
    return ('i' if signed else 'u') + str(bits)


def coq_ty(bits, signed):
    return tyname(bits, signed)


def rng_of(bits, signed):
    return (-(1 << (bits - 1)), 1 << (bits - 1)) if signed else (0, 1 << bits)


def value_pool(rng, bits, signed, extra_random=2):
    lo, hi = rng_of(bits, signed)
    s = {0, 1, 2, 3, 7, lo, lo + 1, hi - 1, hi - 2, (hi - 1) // 2, bits - 1, bits, bits + 1, 100 % hi}
    if signed:
        s |= {-1, -2, -7, -3}
    else:
        s |= {1 << (bits - 1), (1 << (bits - 1)) - 1, (1 << (bits - 1)) + 1}
    for _ in range(extra_random):
        s.add(rng.randrange(lo, hi))
    return sorted(v for v in s if lo <= v < hi)


def small_pool(rng, bits, signed):
    lo, hi = rng_of(bits, signed)
    s = {0, 1, lo, hi - 1, bits - 1, bits, rng.randrange(lo, hi)}
    if signed:
        s |= {-7}
    else:
        s |= {1 << (bits - 1)}
    return sorted(v for v in s if lo <= v < hi)


# ------------------------------------------------------------------ independent oracle of Spec/IRSemArith
def o_wrap(v, bits, signed):
    m = v & ((1 << bits) - 1)
    return m - (1 << bits) if signed and (m >> (bits - 1)) & 1 else m


def o_binop(op, bits, signed, a, b):
    """None = undefined by the IR semantics"""
    from fractions import Fraction
    lo, hi = rng_of(bits, signed)
    if op in ('+', '-', '*'):
        return o_wrap({'+': a + b, '-': a - b, '*': a * b}[op], bits, signed)
    if op in ('/', '%'):
        if b == 0 or (signed and a == lo and b == -1):
            return None
        q = math.trunc(Fraction(a, b))
        return q if op == '/' else a - b * q
    if op in ('|', '&', '^'):
        ua, ub = a & ((1 << bits) - 1), b & ((1 << bits) - 1)
        return o_wrap({'|': ua | ub, '&': ua & ub, '^': ua ^ ub}[op], bits, signed)
    if not (0 <= b < bits):
        return None
    if op == '<<':
        return o_wrap(a * (2 ** b), bits, signed)
    if op == '>>':
        ua = a & ((1 << bits) - 1)
        r = ua >> b
        if signed and a < 0:
            r |= ((1 << b) - 1) << (bits - b)       # replicate the sign bit
        return o_wrap(r, bits, signed)
    ua = a & ((1 << bits) - 1)
    if op == 'ror':
        b = (bits - b) % bits
    return o_wrap(((ua << b) | (ua >> (bits - b))) & ((1 << bits) - 1), bits, signed)


def o_unop(op, bits, signed, a):
    ua = a & ((1 << bits) - 1)
    return o_wrap((~ua if op == '~' else -a), bits, signed)


def o_cast_float(bits, signed, x):
    if math.isnan(x) or math.isinf(x):
        return None
    q = math.trunc(x)
    lo, hi = rng_of(bits, signed)
    return q if lo <= q < hi else None


def py_round_wrap(bits, signed, x):
    """what int(round(x)) + correct gives: used only to CLASSIFY a mismatch as the known rounding defect"""
    try:
        return o_wrap(int(round(x)), bits, signed)
    except (OverflowError, ValueError):
        return None


def outcome(fn, *args):
    try:
        return OkV(fn(*args))
    except Exception:   # noqa: BLE001
        return Internal


# ------------------------------------------------------------------ one-instruction modules
def build_arith_module(ir):
    """all emitted (Python-syntax) binops, unops and casts in one module; returns (module, index)"""
    m = ir.Module('c24m')
    idx = {'binop': {}, 'unop': {}, 'cast': {}, 'fcast': {}}
    for (tn, bits, sg) in INT_TYPES:
        ty = getattr(ir, tn)
        for k, (op, cop) in enumerate(BINOPS):
            if op in ('rol', 'ror'):
                continue
            fname = 'b_%s_%d' % (tn, k)
            f, blk, (a, b) = new_function(ir, m, fname, ty, [('a', ty), ('b', ty)])
            r = ir.Binop(a, op, b, 'r', ty)
            blk.add_instruction(r)
            blk.add_instruction(ir.Return(r))
            idx['binop'][(op, tn)] = fname
        for k, (op, cop) in enumerate(UNOPS):
            fname = 'u_%s_%d' % (tn, k)
            f, blk, (a,) = new_function(ir, m, fname, ty, [('a', ty)])
            r = ir.Unop(op, a, 'r', ty)
            blk.add_instruction(r)
            blk.add_instruction(ir.Return(r))
            idx['unop'][(op, tn)] = fname
        for (sn, sbits, ssg) in INT_TYPES:
            fname = 'c_%s_%s' % (sn, tn)
            f, blk, (a,) = new_function(ir, m, fname, ty, [('a', getattr(ir, sn))])
            r = ir.Cast(a, 'r', ty)
            blk.add_instruction(r)
            blk.add_instruction(ir.Return(r))
            idx['cast'][(sn, tn)] = fname
        for sn in ('f32', 'f64'):
            fname = 'c_%s_%s' % (sn, tn)
            f, blk, (a,) = new_function(ir, m, fname, ty, [('a', getattr(ir, sn))])
            r = ir.Cast(a, 'r', ty)
            blk.add_instruction(r)
            blk.add_instruction(ir.Return(r))
            idx['fcast'][(sn, tn)] = fname
    return m, idx


def build_rot_module(ir, op, tn):
    m = ir.Module('c24rot')
    ty = getattr(ir, tn)
    f, blk, (a, b) = new_function(ir, m, 'f', ty, [('a', ty), ('b', ty)])
    r = ir.Binop(a, op, b, 'r', ty)
    blk.add_instruction(r)
    blk.add_instruction(ir.Return(r))
    return m


def build_mem_module(ir):
    """f_<ty>(v): alloc 16 bytes, store v at offset 0 (through gen_store), load it back (gen_load)"""
    m = ir.Module('c24mem')
    for (tn, bits, sg) in INT_TYPES:
        ty = getattr(ir, tn)
        f, blk, (v,) = new_function(ir, m, 'm_' + tn, ty, [('v', ty)])
        al = ir.Alloc('al', 16, 8)
        blk.add_instruction(al)
        ad = ir.AddressOf(al, 'ad')
        blk.add_instruction(ad)
        blk.add_instruction(ir.Store(v, ad))
        r = ir.Load(ad, 'r', ty)
        blk.add_instruction(r)
        blk.add_instruction(ir.Return(r))
        # reinterpretation: store as ty, load back as the type of the same width and other signedness
        oty = getattr(ir, tyname(bits, not sg))
        f, blk, (v,) = new_function(ir, m, 'x_' + tn, oty, [('v', ty)])
        al = ir.Alloc('al', 16, 8)
        blk.add_instruction(al)
        ad = ir.AddressOf(al, 'ad')
        blk.add_instruction(ad)
        blk.add_instruction(ir.Store(v, ad))
        r = ir.Load(ad, 'r', oty)
        blk.add_instruction(r)
        blk.add_instruction(ir.Return(r))
    return m


# ------------------------------------------------------------------ CFG programs with phis
class Prog:
    """a small IR function over i32 built from a description, so that the reference interpreter does
    not depend on ppci: blocks = {name: (phis, body, term)};
    phis = [(var, {pred: src})], body = [(var, op, x, y)], src/x/y = var name or int constant,
    term = ('jump', B) | ('cjump', x, cond, y, B1, B2) | ('ret', x)"""

    def __init__(self, name, params, blocks, order, bits=32, signed=True):
        self.name, self.params, self.blocks, self.order = name, params, blocks, order
        self.bits, self.signed = bits, signed

    def build(self, ir, m):
        ty = getattr(ir, tyname(self.bits, self.signed))
        f = ir.Function(self.name, ir.Binding.GLOBAL, ty)
        m.add_function(f)
        vals = {}
        for pn in self.params:
            p = ir.Parameter(pn, ty)
            f.add_parameter(p)
            vals[pn] = p
        blks = {}
        for bn in self.order:
            b = ir.Block(bn)
            f.add_block(b)
            blks[bn] = b
        f.entry = blks[self.order[0]]
        nconst = [0]

        def val(blk, x):
            if isinstance(x, int):
                nconst[0] += 1
                c = ir.Const(x, 'k%d' % nconst[0], ty)
                blk.add_instruction(c)
                return c
            return vals[x]
        phis = []
        self.srcname = {}
        for bn in self.order:
            for (v, inc) in self.blocks[bn][0]:
                p = ir.Phi(v, ty)
                blks[bn].add_instruction(p)
                vals[v] = p
                phis.append((p, inc))
        # constants used by phis must be defined in the predecessor: create them first in those blocks
        pending = []
        for bn in self.order:
            b = blks[bn]
            _, body, term = self.blocks[bn]
            for (v, op, x, y) in body:
                if op == 'call':
                    callee = [g for g in m.functions if g.name == x][0]
                    ins = ir.FunctionCall(callee, [val(b, a) for a in y], v, ty)
                else:
                    ins = ir.Binop(val(b, x), op, val(b, y), v, ty)
                b.add_instruction(ins)
                vals[v] = ins
            pending.append((b, term))
        for (p, inc) in phis:
            for pred, src in inc.items():
                pb = blks[pred]
                if isinstance(src, int):
                    nconst[0] += 1
                    c = ir.Const(src, 'k%d' % nconst[0], ty)
                    pb.add_instruction(c)
                    p.set_incoming(pb, c)
                    self.srcname[(p.name, pred)] = c.name
                else:
                    p.set_incoming(pb, vals[src])
                    self.srcname[(p.name, pred)] = src
        for (b, term) in pending:
            if term[0] == 'jump':
                b.add_instruction(ir.Jump(blks[term[1]]))
            elif term[0] == 'cjump':
                b.add_instruction(ir.CJump(val(b, term[1]), term[2], val(b, term[3]), blks[term[4]], blks[term[5]]))
            else:
                b.add_instruction(ir.Return(val(b, term[1])))
        return f

    def successors(self, bn):
        t = self.blocks[bn][2]
        return [t[1]] if t[0] == 'jump' else ([t[4], t[5]] if t[0] == 'cjump' else [])

    def interp(self, args, phi_mode='edge', fuel=5000):
        """reference semantics. phi_mode 'edge' = IR semantics; 'all' = the known ir2py defect
        (phis of every successor are assigned when a block ends), used only to classify a mismatch"""
        env = dict(zip(self.params, args))

        def get(x):
            return x if isinstance(x, int) else env[x]
        cur = self.order[0]
        CMP = {'==': lambda a, b: a == b, '<': lambda a, b: a < b, '>': lambda a, b: a > b,
               '>=': lambda a, b: a >= b, '<=': lambda a, b: a <= b, '!=': lambda a, b: a != b}
        while fuel > 0:
            fuel -= 1
            _, body, term = self.blocks[cur]
            for (v, op, x, y) in body:
                if op == 'call':
                    r = self.lib[x].interp([get(a) for a in y], phi_mode=phi_mode)
                else:
                    r = o_binop(op, self.bits, self.signed, get(x), get(y))
                if r is None:
                    return None
                env[v] = r
            if term[0] == 'ret':
                return get(term[1])
            nxt = term[1] if term[0] == 'jump' else (term[4] if CMP[term[2]](get(term[1]), get(term[3])) else term[5])
            targets = [nxt] if phi_mode == 'edge' else self.successors(cur)
            new = {}
            for tb in targets:
                for (v, inc) in self.blocks[tb][0]:
                    if cur in inc:
                        try:
                            new[v] = get(inc[cur])
                        except KeyError:
                            if phi_mode == 'edge':
                                raise
            env.update(new)
            cur = nxt
        return None

    def phi_pairs(self, bn, target=None):
        """(phi, incoming) name pairs assigned at the end of block bn: all successors, or one edge"""
        out = []
        for tb in ([target] if target else self.successors(bn)):
            for (v, inc) in self.blocks[tb][0]:
                out.append((v, self.srcname[(v, bn)]))
        return out


def witness_loop():
    # hdr: p = phi(entry: 0, hdr: nxt); nxt = p + 1; cjmp nxt < n ? hdr : ex;  ex: return p
    return Prog('loop_liveout', ['n'],
                {'entry': ([], [], ('jump', 'hdr')),
                 'hdr': ([('p', {'entry': 0, 'hdr': 'nxt'})], [('nxt', '+', 'p', 1)],
                         ('cjump', 'nxt', '<', 'n', 'hdr', 'ex')),
                 'ex': ([], [], ('ret', 'p'))}, ['entry', 'hdr', 'ex'])


def fixed_programs():
    progs = [witness_loop()]
    # swap: a, b = b, a on every iteration (parallel phi semantics), exit from the header
    progs.append(Prog('swap', ['n'],
                      {'entry': ([], [], ('jump', 'hdr')),
                       'hdr': ([('a', {'entry': 1, 'body': 'b'}), ('b', {'entry': 2, 'body': 'a'}),
                                ('i', {'entry': 0, 'body': 'i2'})], [],
                               ('cjump', 'i', '<', 'n', 'body', 'ex')),
                       'body': ([], [('i2', '+', 'i', 1)], ('jump', 'hdr')),
                       'ex': ([], [('r', '-', 'a', 'b'), ('r2', '*', 'r', 10), ('r3', '+', 'r2', 'a')], ('ret', 'r3'))},
                      ['entry', 'hdr', 'body', 'ex']))
    # diamond
    progs.append(Prog('diamond', ['n'],
                      {'entry': ([], [], ('cjump', 'n', '<', 5, 'l', 'r')),
                       'l': ([], [('x', '+', 'n', 100)], ('jump', 'j')),
                       'r': ([], [('y', '*', 'n', 3)], ('jump', 'j')),
                       'j': ([('z', {'l': 'x', 'r': 'y'})], [('w', '-', 'z', 1)], ('ret', 'w'))},
                      ['entry', 'l', 'r', 'j']))
    # rotating three phis, self loop, exit value is a header phi (live across the exit edge)
    progs.append(Prog('rot3', ['n'],
                      {'entry': ([], [], ('jump', 'hdr')),
                       'hdr': ([('a', {'entry': 1, 'hdr': 'b'}), ('b', {'entry': 2, 'hdr': 'c'}),
                                ('c', {'entry': 3, 'hdr': 'a'}), ('i', {'entry': 0, 'hdr': 'i2'})],
                               [('i2', '+', 'i', 1)], ('cjump', 'i2', '<', 'n', 'hdr', 'ex')),
                       'ex': ([], [('r', '*', 'a', 100), ('r2', '+', 'r', 'b')], ('ret', 'r2'))},
                      ['entry', 'hdr', 'ex']))
    # two successors that both have phis
    progs.append(Prog('twophi', ['n'],
                      {'entry': ([], [('t', '+', 'n', 1)], ('cjump', 'n', '>', 0, 'p', 'q')),
                       'p': ([('u', {'entry': 'n'})], [('u2', '*', 'u', 2)], ('jump', 'q')),
                       'q': ([('v', {'entry': 't', 'p': 'u2'})], [], ('ret', 'v'))},
                      ['entry', 'p', 'q']))
    return progs


def call_programs(rng, k):
    """helpers + a self-loop whose back edge swaps two phis (a, b = b, a) and calls module functions in the loop;
    a sequential phi assignment (a = b; b = a) changes the result"""
    c1, c2, c3 = rng.randrange(2, 6), rng.randrange(1, 5), rng.randrange(2, 9)
    inc = Prog('inc%d' % k, ['x'], {'entry': ([], [('r', '+', 'x', 1)], ('ret', 'r'))}, ['entry'])
    mix = Prog('mix%d' % k, ['p', 'q'], {'entry': ([], [('t', '*', 'p', c1), ('u', '-', 't', 'q')], ('ret', 'u'))}, ['entry'])
    loop = Prog('swapcall%d' % k, ['n'],
                {'entry': ([], [], ('jump', 'hdr')),
                 'hdr': ([('a', {'entry': c2, 'hdr': 'b'}), ('b', {'entry': c2 + c3, 'hdr': 'a'}),
                          ('i', {'entry': 0, 'hdr': 'i2'}), ('acc', {'entry': 0, 'hdr': 'acc2'})],
                         [('t', 'call', 'mix%d' % k, ['a', 'b']), ('acc2', '+', 'acc', 't'),
                          ('i2', 'call', 'inc%d' % k, ['i'])],
                         ('cjump', 'i2', '<', 'n', 'hdr', 'ex')),
                 'ex': ([], [('r', '*', 'acc2', 7), ('r2', '+', 'r', 'a'), ('r3', '-', 'r2', 'b')], ('ret', 'r3'))},
                ['entry', 'hdr', 'ex'])
    lib = {p.name: p for p in (inc, mix, loop)}
    for p in (inc, mix, loop):
        p.lib = lib
    return [inc, mix, loop]


def random_program(rng, k):
    """do-while loop with nphi rotating/updated phis; the result mixes header phis and their updates"""
    nphi = rng.randrange(1, 4)
    names = ['p%d' % i for i in range(nphi)]
    body, upd = [], {}
    for i, p in enumerate(names):
        op = rng.choice(['+', '-', '*', '^'])
        other = rng.choice(names + [rng.randrange(1, 5)])
        body.append(('n%d' % i, op, p, other))
    srcs = list(names) + ['n%d' % i for i in range(nphi)]
    phis = [(p, {'entry': rng.randrange(0, 7), 'hdr': rng.choice(srcs)}) for p in names]
    phis.append(('i', {'entry': 0, 'hdr': 'i2'}))
    body.append(('i2', '+', 'i', 1))
    res = rng.choice(srcs)
    res2 = rng.choice(srcs)
    exit_from_header = rng.random() < 0.3
    if exit_from_header:
        blocks = {'entry': ([], [], ('jump', 'hdr')),
                  'hdr': ([(p, {'entry': inc['entry'], 'latch': inc['hdr']}) for (p, inc) in phis], [],
                          ('cjump', 'i', '<', 'n', 'latch', 'ex')),
                  'latch': ([], body, ('jump', 'hdr')),
                  'ex': ([], [('r', '+', names[0], rng.choice(names))], ('ret', 'r'))}
        return Prog('rnd%d' % k, ['n'], blocks, ['entry', 'hdr', 'latch', 'ex'])
    blocks = {'entry': ([], [], ('jump', 'hdr')),
              'hdr': (phis, body, ('cjump', 'i2', '<', 'n', 'hdr', 'ex')),
              'ex': ([], [('r', '*', res, 3), ('r2', '+', 'r', res2)], ('ret', 'r2'))}
    return Prog('rnd%d' % k, ['n'], blocks, ['entry', 'hdr', 'ex'])


def block_text(text, fname, bn):
    """lines (with indentation relative to the block body) emitted for block bn of function fname"""
    lines = text.splitlines()
    out, state, ind = [], 0, 0
    for ln in lines:
        if state == 0 and ln.startswith('def %s(' % fname):
            state = 1
        elif state == 1 and ln.strip() == 'if _irpy_current_block == "%s":' % bn:
            state = 2
            ind = len(ln) - len(ln.lstrip()) + 4
        elif state == 2:
            cur = len(ln) - len(ln.lstrip())
            if not ln.strip() or cur < ind:
                break
            out.append((cur - ind, ln.strip()))
        elif state == 1 and ln.startswith('rt.register_function'):
            break
    return out


def phi_variant(prog, text):
    """'all' (as in /repo), 'edge' (repaired) or None: where the phi assignment of the witness latch is"""
    bt = block_text(text, prog.name, 'hdr')
    lines0 = [l for (d, l) in bt if d == 0]
    lines1 = [l for (d, l) in bt if d > 0]
    if 'p = nxt' in lines0 and 'p = nxt' not in lines1:
        return 'all'
    if 'p = nxt' in lines1 and 'p = nxt' not in lines0:
        return 'edge'
    return None


def expected_phi_lines(prog, bn, variant):
    """[(depth, text)] of the tuple assignments the generator emits for block bn"""
    def line(pairs):
        return '%s = %s' % (', '.join(p for p, _ in pairs), ', '.join(str(s) for _, s in pairs))
    out = []
    if variant == 'all':
        pairs = prog.phi_pairs(bn)
        if pairs:
            out.append((0, pairs))
    else:
        t = prog.blocks[bn][2]
        for tb in prog.successors(bn):
            pairs = prog.phi_pairs(bn, tb)
            if pairs:
                out.append((1 if t[0] == 'cjump' else 0, pairs))
    return [(d, line(p), p) for (d, p) in out]


# ------------------------------------------------------------------ whole functions (block dispatcher)
INTS = {'i8', 'i16', 'i32', 'i64', 'u8', 'u16', 'u32', 'u64'}
FUNC_FEATURES = ('diamond', 'loop', 'selfloop', 'dupedge', 'casts')


def in_fragment(fpy):
    """mirror of Model.Ir2PyFunc.compile_func <> None on the irimport structure of one function"""
    name, binding, ret, params, blocks = fpy
    if ret not in INTS or any(t not in INTS for _, t in params) or not blocks:
        return False
    dt = {}
    for b in blocks:
        for i in b[2]:
            if i[0] in ('const', 'binop', 'unop', 'cast', 'load', 'phi', 'undefined', 'callf'):
                dt[i[1]] = i[3]
            elif i[0] in ('alloc', 'addressof', 'literal'):
                dt[i[1]] = 'other'

    def rint(r):
        return (r[0] == 'loc' and dt.get(r[1]) in INTS) or r[0] == 'param'
    bids = {b[0] for b in blocks}
    for b in blocks:
        for i in b[2]:
            k = i[0]
            if k == 'const':
                if i[3] not in INTS or i[4][0] != 'int':
                    return False
                bits, sg = int(i[3][1:]), i[3][0] == 'i'
                lo, hi = rng_of(bits, sg)
                if not lo <= i[4][1] < hi:
                    return False
            elif k == 'binop':
                if i[3] not in INTS or i[4] in ('rol', 'ror') or not (rint(i[5]) and rint(i[6])):
                    return False
            elif k in ('unop', 'cast'):
                if i[3] not in INTS or not rint(i[-1]):
                    return False
            elif k == 'phi':
                if i[3] not in INTS or not all(rint(r) for _, r in i[4]):
                    return False
            elif k == 'cjump':
                if not (rint(i[1]) and rint(i[3])):
                    return False
            elif k == 'return':
                if not rint(i[1]):
                    return False
            elif k != 'jump':
                return False
    # every phi has an input for every predecessor edge (KeyError in fill_phis otherwise)
    for b in blocks:
        for i in b[2]:
            tg = [i[1]] if i[0] == 'jump' else ([i[4], i[5]] if i[0] == 'cjump' else [])
            for t in tg:
                for tb in blocks:
                    if tb[0] == t:
                        for j in tb[2]:
                            if j[0] == 'phi' and b[0] not in [x for x, _ in j[4]]:
                                return False
    return True


def in_mfragment(mpy):
    """mirror of Model.Ir2PyMod.compile_modul <> None on the irimport structure of a module"""
    name, exts, gvars, funcs = mpy
    fsig = {f[0]: (f[2], [t for _, t in f[3]]) for f in funcs}
    esig = {}
    for e in exts:
        if e[0] == 'efunc':
            esig[e[1]] = (e[3], list(e[2]))
        elif e[0] == 'eproc':
            esig[e[1]] = (None, list(e[2]))
    for f in funcs:
        fname, binding, ret, params, blocks = f
        dt = {}
        for b in blocks:
            for i in b[2]:
                if i[0] in ('const', 'binop', 'unop', 'cast', 'load', 'phi', 'undefined', 'callf'):
                    dt[i[1]] = i[3]
        ptys = [t for _, t in params]

        def rty(r):
            return dt.get(r[1]) if r[0] == 'loc' else (ptys[r[1]] if r[0] == 'param' else None)
        stripped = []
        for b in blocks:
            ins2 = []
            for i in b[2]:
                if i[0] == 'callf':
                    if i[3] not in INTS or i[4][0] != 'glob':
                        return False
                    sig = fsig.get(i[4][1]) or (esig.get(i[4][1]) if i[4][1] not in fsig else None)
                    if sig is None or sig[0] != i[3] or len(sig[1]) != len(i[5]) or \
                            any(t not in INTS or rty(a) != t for a, t in zip(i[5], sig[1])):
                        return False
                    ins2.append(('const', i[1], i[2], i[3], ('int', 0)))      # stands for a defined int value
                elif i[0] == 'callp':
                    if i[1][0] != 'glob' or i[1][1] in fsig:
                        return False
                    sig = esig.get(i[1][1])
                    if sig is None or sig[0] is not None or len(sig[1]) != len(i[2]) or \
                            any(t not in INTS or rty(a) != t for a, t in zip(i[2], sig[1])):
                        return False
                elif i[0] == 'return':
                    if rty(i[1]) != ret:
                        return False
                    ins2.append(i)
                else:
                    ins2.append(i)
            stripped.append((b[0], b[1], ins2))
        if not in_fragment((fname, binding, ret, params, stripped)):
            return False
    return True


def function_text(text, fname):
    """the lines ir2py emitted for function fname: from `def` up to the blank line before register_function"""
    lines = text.splitlines()
    out, on = [], False
    for ln in lines:
        if not on and ln.startswith('def %s(' % fname):
            on = True
        elif on and ln.startswith('rt.register_function('):
            break
        if on:
            out.append(ln)
    while out and not out[-1].strip():
        out.pop()
    return out


def function_corpus(ctx, ir, thorough):
    """[(live module, emitted text, namespace, [(function object, irimport tuple, coq term)])] of functions in the
    modelled fragment: the hand-written phi programs and irgen modules with integer/loop/phi features"""
    import irimport
    sys.path.insert(0, os.path.join(vlib.VERIF, 'tools', 'gen'))
    import irgen
    mods = []
    pm = ir.Module('c24cfg')
    for pr in fixed_programs() + [random_program(ctx.rng, 100 + k) for k in range(10 if thorough else 4)] + \
            [q for k in range(3 if thorough else 2) for q in call_programs(ctx.rng, k)]:
        pr.build(ir, pm)
    mods.append(pm)
    for k in range(24 if thorough else 8):
        try:
            mods.append(irgen.gen_module(ctx.rng, size=2 + k % 3, features=FUNC_FEATURES, name='g%d' % k))
        except Exception as ex:   # noqa: BLE001
            ctx.log('irgen failed:', ex)
    out = []
    for m in mods:
        try:
            mpy = irimport.module_to_py(m)
            text = emit_module(m, verify=True)
            ns = load_module(text)
        except Exception as ex:   # noqa: BLE001  (rol/ror etc. make the module unloadable: not this stage's business)
            continue
        fl = []
        for fobj, fpy in zip(m.functions, mpy[3]):
            if in_fragment(fpy):
                fl.append((fobj, fpy, '(%s)' % irimport.func_to_coq(fpy)))
        out.append((m, text, ns, fl))
    return out


def run_with_alarm(fn, args, seconds=5):
    import signal

    def h(sig, frm):
        raise TimeoutError()
    old = signal.signal(signal.SIGALRM, h)
    signal.alarm(seconds)
    try:
        return outcome(fn, *args)
    finally:
        signal.alarm(0)
        signal.signal(signal.SIGALRM, old)


# ------------------------------------------------------------------ known defect classes
CLS_ROUND = 'rounds-half-even-instead-of-truncating'
CLS_PHI = 'assigns-phis-of-untaken-successor'
CLS_ROT = 'rol-ror-emitted-as-invalid-python'
CLS_NAN = 'nan-constant-emitted-as-undefined-name'
CLS_FREE = 'free-pops-statically-summed-alloca-size'


def float_pool(rng, thorough):
    xs = [0.0, -0.0, 0.5, -0.5, 1.5, 2.5, 3.5, -1.5, -2.5, 2.7, -2.7, 2.75, -2.75, 0.9999999, -0.9999999,
          1e-300, 127.5, 127.99, 128.0, -128.5, -128.99, -129.0, 255.5, 255.99, 256.0, 32767.5, 32767.9, 65535.5,
          2147483647.5, 2147483647.0, 2147483648.0, -2147483648.5, -2147483648.99, -2147483649.0,
          4294967295.5, 4294967296.0, 9.2e18, 1.8e19, -9.3e18, 1e30, float('inf'), float('-inf'), float('nan'),
          4503599627370495.5, -4503599627370495.5]
    for _ in range(200 if thorough else 40):
        xs.append(rng.uniform(-300, 300))
        xs.append(rng.randrange(-70000, 70000) + rng.choice([0.25, 0.5, 0.75]))
    return xs


def fl_term(x):
    if math.isnan(x):
        return 'FNaN'
    if math.isinf(x):
        return '(FInf %s)' % ('false' if x > 0 else 'true')
    n, d = x.as_integer_ratio()
    return '(FFinite %s %d)' % (vlib.coq_z(n), d)


def z(v):
    return vlib.coq_z(v)


def run_batched(ctx, name, imports, cases, batch=1200):
    """ctx.run_cases numbers the cases with unary nat literals: keep the indices small"""
    bad = []
    for k in range(0, len(cases), batch):
        r = ctx.run_cases('%s_%d' % (name, k // batch), imports, cases[k:k + batch])
        if r is None:
            return None
        bad += [k + i for i in r]
    return bad


def run(ctx):
    ir, _, _ = _ppci()
    thorough = not ctx.quick()
    infos, rows, rt_text = regen(ctx)
    ok, _ = ctx.build(['Proofs/C24_ir2py.vo', 'Proofs/C24_func.vo', 'Proofs/C24_rot.vo', 'Proofs/C24_mod.vo', 'Proofs/C24_rt.vo'])
    if ok:
        ctx.check_props('Props/C24.v')
    model_ok = ctx.build(['Model/Ir2Py.vo', 'Model/Ir2PyFunc.vo', 'Model/Ir2PyRot.vo', 'Model/Ir2PyMod.vo', 'Model/Ir2PyRt.vo', 'Lib/Val.vo'])[0]

    # ---- emit the one-instruction module once
    m, idx = build_arith_module(ir)
    text = emit_module(m)
    ns = load_module(text)
    with open(os.path.join(ctx.work, 'emitted_arith.py'), 'w') as f:
        f.write(text)

    # which gen_cast variant does this tree emit?
    sample = entry_lines(text, idx['fcast'][('f64', 'i32')])
    cast_variant = 'CastRound' if any('int(round(' in l for l in sample) else 'CastTrunc'
    ctx.cov['stages']['cast_variant'] = cast_variant

    cases, recs = [], []

    def add(term, val, rec):
        cases.append((term, val))
        recs.append(rec)

    # ---- (a) helper functions: py2coq translation vs exec of the emitted text
    IrPy = ns['IrPy']
    hp = [0, 1, -1, 2, -2, 7, -7, 127, 128, -128, -129, 255, 256, 32767, -32768, 65535, 2 ** 31, -2 ** 31, 2 ** 31 - 1,
          2 ** 32 - 1, 2 ** 63, -2 ** 63, 2 ** 64 - 1, 2 ** 64, ctx.rng.randrange(-2 ** 70, 2 ** 70)]
    for v in hp:
        for bits in (1, 8, 16, 32, 64):
            for sg in (True, False):
                add('correct %s %d %s' % (z(v), bits, 'true' if sg else 'false'),
                    outcome(IrPy.correct, v, bits, sg), ('correct', (v, bits, sg)))
    dp = [0, 1, -1, 2, -2, 3, -3, 7, -7, 100, -100, 127, -128, 2 ** 31 - 1, -2 ** 31, 2 ** 63 - 1, -2 ** 63]
    if not thorough:
        dp = [0, 1, -1, 2, -3, 7, -7, 127, -128, 2 ** 31 - 1, -2 ** 63]
    for a in dp:
        for b in dp:
            add('idiv %s %s' % (z(a), z(b)), outcome(IrPy.idiv, a, b), ('idiv', (a, b)))
            add('irem %s %s' % (z(a), z(b)), outcome(IrPy.irem, a, b), ('irem', (a, b)))
    for a in ([0, 1, -1, 5, -5, 127, -128, 255, 2 ** 31 - 1, -2 ** 31, 2 ** 64 - 1] if thorough else
              [0, 1, -1, -5, -128, 255, 2 ** 64 - 1]):
        for n in ([0, 1, 2, 7, 8, 9, 31, 32, 33, 63, 64, 65, -1, 255] if thorough else [0, 1, 7, 8, 9, 63, 64, 65, -1, 255]):
            for bits in ((8, 32, 64) if thorough else (8, 64)):
                add('ishl %s %s %d' % (z(a), z(n), bits), outcome(IrPy.ishl, a, n, bits), ('ishl', (a, n, bits)))
                add('ishr %s %s %d' % (z(a), z(n), bits), outcome(IrPy.ishr, a, n, bits), ('ishr', (a, n, bits)))
    if hasattr(IrPy, 'irol') and hasattr(IrPy, 'iror'):
        for a in [0, 1, -1, 5, -128, 129, 255, 2 ** 31, 2 ** 64 - 1, -2 ** 63]:
            for n in [0, 1, 7, 8, 9, 31, 63, 64, -1]:
                for bits in (8, 32, 64):
                    add('irol_m %s %s %d' % (z(a), z(n), bits), outcome(IrPy.irol, a, n, bits), ('irol', (a, n, bits)))
                    add('iror_m %s %s %d' % (z(a), z(n), bits), outcome(IrPy.iror, a, n, bits), ('iror', (a, n, bits)))
    n_helper = len(cases)

    # ---- (b) text correspondence: printed model == emitted statements, every (op, type)
    for (tn, bits, sg) in INT_TYPES:
        for (op, cop) in BINOPS:
            if op in ('rol', 'ror'):
                t2 = emit_module(build_rot_module(ir, op, tn))
                lines = entry_lines(t2, 'f')
                if any('rt.iro' in l for l in lines):
                    # repaired lowering (fixes/C24-rol-ror.diff): helper call; values through Model.Ir2PyRot
                    ctx.cov['stages']['rot_variant'] = 'helper'
                    add('rot_lines %s "r" "a" "b" %s' % (cop, tn), lines, ('text-rot', (op, tn)))
                    rfn = load_module(t2)['f']
                    for a in small_pool(ctx.rng, bits, sg):
                        for b in small_pool(ctx.rng, bits, sg)[:6] + [1, bits - 1]:
                            add('py_rot %s %s %s %s' % (cop, tn, z(a), z(b)), outcome(rfn, a, b), ('rot', (op, tn, a, b)))
                    continue
            else:
                lines = entry_lines(text, idx['binop'][(op, tn)])
            add('show_stmts (gen_binop %s "r" "a" "b" %s)' % (cop, tn), lines, ('text-binop', (op, tn)))
        for (op, cop) in UNOPS:
            add('show_stmts (gen_unop %s "r" "a" %s)' % (cop, tn), entry_lines(text, idx['unop'][(op, tn)]),
                ('text-unop', (op, tn)))
        for sn in [t[0] for t in INT_TYPES] + ['f32', 'f64']:
            key = 'cast' if sn[0] in 'iu' else 'fcast'
            add('show_stmts (gen_cast %s "r" "a" %s)' % (cast_variant, tn), entry_lines(text, idx[key][(sn, tn)]),
                ('text-cast', (sn, tn)))
    n_text = len(cases) - n_helper

    # ---- (c) value correspondence on boundary pools: model py_sem vs executed emitted function
    nontriv = 0
    for (tn, bits, sg) in INT_TYPES:
        pool = small_pool(ctx.rng, bits, sg)
        for (op, cop) in BINOPS:
            if op in ('rol', 'ror'):
                continue
            fn = ns[idx['binop'][(op, tn)]]
            lo, hi = rng_of(bits, sg)
            pairs = [(a, b) for a in pool for b in pool]
            if not thorough:
                corner = [(lo, lo), (lo, hi - 1), (hi - 1, hi - 1), (hi - 1, lo), (lo, 0), (1, 0), (lo, 1), (hi - 1, bits - 1),
                          (lo, bits - 1), (1, bits), (lo, -1 if sg else hi - 1)]
                pairs = sorted(set(corner + ctx.rng.sample(pairs, 17)))
            for (a, b) in pairs:
                out = outcome(fn, a, b)
                add('py_binop %s %s %s %s' % (cop, tn, z(a), z(b)), out, ('binop', (op, tn, a, b)))
                if o_binop(op, bits, sg, a, b) is not None and (a or b):
                    nontriv += 1
        for (op, cop) in UNOPS:
            fn = ns[idx['unop'][(op, tn)]]
            for a in value_pool(ctx.rng, bits, sg):
                add('py_unop %s %s %s' % (cop, tn, z(a)), outcome(fn, a), ('unop', (op, tn, a)))
                nontriv += 1 if a else 0
        for (sn, sbits, ssg) in INT_TYPES:
            fn = ns[idx['cast'][(sn, tn)]]
            for a in small_pool(ctx.rng, sbits, ssg):
                add('py_cast_int %s %s %s' % (cast_variant, tn, z(a)), outcome(fn, a), ('cast', (sn, tn, a)))
                nontriv += 1 if a else 0
    fl = float_pool(ctx.rng, thorough)
    for (tn, bits, sg) in INT_TYPES:
        fn = ns[idx['fcast'][('f64', tn)]]
        for x in (fl if tn in ('i32', 'u8', 'i64') or thorough else fl[:45]):
            add('py_cast_float %s %s %s' % (cast_variant, tn, fl_term(x)), outcome(fn, x), ('fcast', (tn, repr(x))))
            nontriv += 1 if o_cast_float(bits, sg, x) else 0
    n_value = len(cases) - n_helper - n_text

    # ---- (d) memory helpers: struct model vs CPython struct, load/store model vs emitted rt
    for (ty, lfmt, size, sfmt) in rows:
        if lfmt in ('f', 'd'):
            continue
        sgn = lfmt.islower()
        for v in value_pool(ctx.rng, 8 * size, sgn) + [1 << (8 * size), -(1 << (8 * size - 1)) - 1, 1 << (8 * size - 1)]:
            def do_store(ty=ty, v=v):
                r = IrPy()
                r.stack = bytearray(range(1, 13))
                getattr(r, 'store_' + ty)(3, v)
                return list(r.stack)
            add('store "%s" [1;2;3;4;5;6;7;8;9;10;11;12] 3 %s' % (ty, z(v)), outcome(do_store), ('store', (ty, v)))
        for _ in range(6):
            data = [ctx.rng.choice([0, 1, 127, 128, 255, ctx.rng.randrange(256)]) for _ in range(12)]
            for addr in (0, 3, 12 - size, 12 - size + 1):
                def do_load(ty=ty, data=data, addr=addr):
                    r = IrPy()
                    r.stack = bytearray(data)
                    return getattr(r, 'load_' + ty)(addr)
                add('load "%s" %s %d' % (ty, to_term(data), addr), outcome(do_load), ('load', (ty, data, addr)))
    # ---- (d') the runtime OBJECT: scripts of alloca / free / store / load / heap_top on the emitted IrPy vs
    #      Model.Ir2PyRt.run_ops (outputs, final heap bytes, final stack bytes); addresses >= 0 only
    HS = emitted_heap_start(rt_text)
    ity = [r for r in rows if r[1] not in ('f', 'd')]
    n_rt = 0
    for k in range(90 if thorough else 45):
        heap0 = [ctx.rng.randrange(256) for _ in range(ctx.rng.choice([0, 4, 9, 16]))]
        stack0 = [ctx.rng.randrange(256) for _ in range(ctx.rng.choice([0, 0, 3, 8]))]
        ops, sl, allocs = [], len(stack0), []
        for _ in range(ctx.rng.randrange(2, 9)):
            kind = ctx.rng.choice(['alloca', 'alloca', 'store', 'store', 'store', 'load', 'load', 'free', 'top'])
            if kind == 'alloca':
                n = ctx.rng.choice([0, 1, 2, 4, 8, 8, 16, -1] if k % 9 == 0 else [0, 1, 2, 4, 8, 8, 16])
                ops.append(('alloca', n))
                allocs.append(n)
                sl += max(n, 0)
            elif kind == 'free':
                n = allocs.pop() if allocs and ctx.rng.random() < 0.8 else ctx.rng.choice([0, 1, 3, sl, sl + 1, -2])
                ops.append(('free', n))
                sl = max(sl - max(n, 0), 0)
            elif kind == 'top':
                ops.append(('top',))
            else:
                ty, lfmt, size, sfmt = ctx.rng.choice(ity)
                if ctx.rng.random() < 0.5:
                    addr = ctx.rng.choice([0, max(sl - size, 0), ctx.rng.randrange(0, sl + 2), sl, HS - 1])
                else:
                    addr = HS + ctx.rng.choice([0, max(len(heap0) - size, 0), ctx.rng.randrange(0, len(heap0) + 2)])
                if kind == 'store':
                    v = ctx.rng.choice(value_pool(ctx.rng, 8 * size, lfmt.islower()) + [1 << (8 * size)])
                    ops.append(('store', ty, addr, v))
                else:
                    ops.append(('load', ty, addr))

        def do_script(heap0=heap0, stack0=stack0, ops=ops):
            r = IrPy()
            r.heap, r.stack, out = bytearray(heap0), bytearray(stack0), []
            for o in ops:
                if o[0] == 'alloca':
                    out += list(r.alloca(o[1]))
                elif o[0] == 'free':
                    r.free(o[1])
                elif o[0] == 'store':
                    getattr(r, 'store_' + o[1])(o[2], o[3])
                elif o[0] == 'load':
                    out.append(getattr(r, 'load_' + o[1])(o[2]))
                else:
                    out.append(r.heap_top())
            return (out, list(r.heap), list(r.stack))
        cops = {'alloca': lambda o: 'OAlloca %s' % z(o[1]), 'free': lambda o: 'OFree %s' % z(o[1]),
                'store': lambda o: 'OStore "%s" %s %s' % (o[1], z(o[2]), z(o[3])),
                'load': lambda o: 'OLoad "%s" %s' % (o[1], z(o[2])), 'top': lambda o: 'OTop'}
        term = 'run_ops (mk_rt %s %s) [%s] []' % (to_term(heap0), to_term(stack0), '; '.join(cops[o[0]](o) for o in ops))
        add(term, outcome(do_script), ('rt-script', (heap0, stack0, ops)))
        n_rt += 1
    ctx.cov['stages']['rt_object_scripts'] = {'scripts': n_rt, 'heap_start': HS,
                                              'ops': 'alloca/free/store_<ity>/load_<ity>/heap_top, addresses >= 0'}
    n_mem = len(cases) - n_helper - n_text - n_value

    # ---- (e) phis: emitted tuple assignments vs the model of the variant this tree emits
    progs = fixed_programs() + [random_program(ctx.rng, k) for k in range(40 if thorough else 12)] + \
        [q for k in range(2) for q in call_programs(ctx.rng, 50 + k)]
    pm = ir.Module('c24phi')
    for pr in progs:
        pr.build(ir, pm)
    ptext = emit_module(pm)
    with open(os.path.join(ctx.work, 'emitted_phi.py'), 'w') as f:
        f.write(ptext)
    pv = phi_variant(progs[0], ptext)
    ctx.cov['stages']['phi_variant'] = pv
    if pv is None:
        ctx.failed_stages.append(('correspondence', 'the phi assignment of the witness loop is neither at the end of '
                                                    'the block nor inside the branches: fill_phis model does not apply'))
    else:
        fillfn = 'fill_phis_all' if pv == 'all' else 'fill_phis_edge'
        for pr in progs:
            for bn in pr.order:
                bt = block_text(ptext, pr.name, bn)
                phinames = {v for b2 in pr.order for (v, _) in pr.blocks[b2][0]}
                got = sorted((min(d, 1), l) for (d, l) in bt
                             if ' = ' in l and all(t.strip() in phinames for t in l.split(' = ')[0].split(',')))
                exp = expected_phi_lines(pr, bn, pv)
                if got != sorted((d, l) for (d, l, _) in exp):
                    ctx.failed_stages.append(('correspondence', 'phi assignments emitted for %s.%s are %r, the model of '
                                              'fill_phis (%s) expects %r' % (pr.name, bn, got, pv, [(d, l) for d, l, _ in exp])))
                    continue
                for (d, line, pairs) in exp:
                    names = sorted({n for pq in pairs for n in pq})
                    num = {n: i + 1 for i, n in enumerate(names)}
                    envv = {n: ctx.rng.randrange(-50, 50) for n in names}
                    scope = dict(envv)
                    exec(line, {}, scope)
                    coq_pairs = '[%s]' % '; '.join('(%d, %d)' % (num[a], num[b]) for a, b in pairs)
                    coq_env = '[%s]' % '; '.join('(%d%%nat, %s)' % (num[n], z(envv[n])) for n in names)
                    if pv == 'all':
                        arg = '[%s]' % coq_pairs
                    else:
                        arg = coq_pairs
                    term = '(e <- %s (%s)%%nat %s ;; Ok (map (lookup e) [%s]%%nat))' % (
                        fillfn, arg, coq_env, '; '.join(str(num[n]) for n in names))
                    add(term, OkV([scope[n] for n in names]), ('phi', (pr.name, bn, line)))
    n_phi = len(cases) - n_helper - n_text - n_value - n_mem

    # ---- (f) whole functions: printed model == emitted text, model run == executed function
    sys.path.insert(0, os.path.join(vlib.VERIF, 'tools', 'gen'))
    import irgen
    corpus = function_corpus(ctx, ir, thorough)
    n_fun = 0
    for (m, ftext, fns, fl) in corpus:
        for (fobj, fpy, term) in fl:
            n_fun += 1
            flines = function_text(ftext, fobj.name)
            style = 'FreeMark' if any('_irpy_stack_mark' in l for l in flines) else 'FreeStatic'
            ctx.cov['stages']['free_style'] = style
            add('show_compiled_s %s %s' % (style, term), flines, ('text-function', (m.name, fobj.name)))
            add('names_okb %s' % term, True, ('names-ok', (m.name, fobj.name)))
            for _ in range(4 if thorough else 2):
                args = [ctx.rng.randrange(0, 9)] if m.name == 'c24cfg' else irgen.gen_args(ctx.rng, fobj)
                got = run_with_alarm(fns[fobj.name], args)
                add('run_compiled 400 %s %s' % (term, to_term(list(args))), got, ('run-function', (m.name, fobj.name, args)))
    ctx.cov['stages']['functions_in_fragment'] = n_fun

    # ---- (g) whole modules with calls (module functions, external functions/procedures): text + value + trace
    import irimport
    cmods = []
    cm = ir.Module('c24call')
    for q in [q for k in range(2) for q in call_programs(ctx.rng, 200 + k)]:
        q.build(ir, cm)
    cmods.append(cm)
    for k in range(10 if thorough else 4):
        try:
            cmods.append(irgen.gen_module(ctx.rng, size=2 + k % 2, features=FUNC_FEATURES + ('calls', 'extern'),
                                          name='h%d' % k))
        except Exception as ex:   # noqa: BLE001
            ctx.log('irgen failed:', ex)
    n_mods = 0
    for cmod in cmods:
        try:
            mpy = irimport.module_to_py(cmod)
            if not in_mfragment(mpy):
                continue
            mtext = emit_module(cmod)
            mns = load_module(mtext)
            mterm = irimport.module_to_coq(cmod)
        except Exception:   # noqa: BLE001
            continue
        n_mods += 1
        for fobj in cmod.functions:
            flines = function_text(mtext, fobj.name)
            style = 'FreeMark' if any('_irpy_stack_mark' in l for l in flines) else 'FreeStatic'
            add('show_mcompiled %s %s "%s"' % (style, mterm, fobj.name), flines, ('text-module', (cmod.name, fobj.name)))
            args = [ctx.rng.randrange(0, 7) for _ in fobj.arguments] if cmod.name == 'c24call' else \
                irgen.gen_args(ctx.rng, fobj)
            trace = []
            for e in cmod.externals:
                mns['rt'].externals[e.name] = (lambda nm: (lambda *a: (trace.append((nm, list(a))), 0)[1]))(e.name)
            got = run_with_alarm(mns[fobj.name], args)
            val = OkV((got.v, trace)) if isinstance(got, OkV) else got
            add('run_mcompiled 300 %s "%s" %s' % (mterm, fobj.name, to_term(list(args))), val,
                ('run-module', (cmod.name, fobj.name, args)))
    ctx.cov['stages']['modules_with_calls'] = n_mods
    n_func = len(cases) - n_helper - n_text - n_value - n_mem - n_phi

    ctx.cov['stages']['correspondence_distribution'] = {
        'helpers': n_helper, 'emitted_text': n_text, 'values': n_value, 'memory': n_mem, 'phi_assignments': n_phi,
        'functions': n_func}
    ctx.cov['distinct_nontrivial'] += nontriv
    for r in recs[n_helper + n_text:: max(1, (len(recs) - n_helper - n_text) // 8)]:
        ctx.note_sample({'kind': r[0], 'args': repr(r[1])})
    if model_ok:
        import time
        t0 = time.time()
        bad = run_batched(ctx, 'ir2py', ['Spec.IRSemArith', 'Gen.ir2py_runtime', 'Model.Ir2Py', 'Model.Ir2PyFunc', 'Model.Ir2PyRot', 'Model.Ir2PyMod', 'Model.Ir2PyRt', 'Spec.IRSyntax'], cases)
        ctx.cov['stages']['correspondence_wall_s'] = round(time.time() - t0, 1)
        if bad:
            for i in bad[:6]:
                ctx.log('model/implementation disagree on', recs[i], 'impl=',
                        cases[i][1].v if isinstance(cases[i][1], OkV) else cases[i][1])
            ctx.failed_stages.append(('correspondence', 'Model.Ir2Py / Gen.ir2py_runtime disagree with the emitted code on '
                                      '%d cases, first: %r' % (len(bad), recs[bad[0]])))

    # ---- search
    import time
    t0 = time.time()
    search(ctx, shared=(ns, idx, cast_variant, progs, ptext, pv), corpus=corpus)
    ctx.cov['stages']['search_wall_s'] = round(time.time() - t0, 1)
    ctx.cov['exhaustive'] = False


def search(ctx, shared=None, corpus=None):
    """implementation (executed emitted Python) vs the independent oracle of the IR semantics"""
    ir, _, _ = _ppci()
    thorough = (not ctx.quick()) or bool(ctx.failed_stages)
    if shared is None:
        m, idx = build_arith_module(ir)
        ns = load_module(emit_module(m))
        progs = fixed_programs() + [random_program(ctx.rng, k) for k in range(12)] + \
            [q for k in range(2) for q in call_programs(ctx.rng, 50 + k)]
        pm = ir.Module('c24phi')
        for pr in progs:
            pr.build(ir, pm)
        ptext = emit_module(pm)
        pv = phi_variant(progs[0], ptext)
    else:
        ns, idx, _, progs, ptext, pv = shared
    n_eval = 0
    replay_hint = 'VERIF_REPO=<tree> ./check C24 --replay <this file>  (rebuilds the IR function and executes the emitted Python)'

    # binops / unops: boundary pools for all widths, 8-bit exhaustive (strided in the quick tier)
    for (tn, bits, sg) in INT_TYPES:
        lo, hi = rng_of(bits, sg)
        pool = value_pool(ctx.rng, bits, sg, 6 if thorough else 2)
        pairs = [(a, b) for a in pool for b in pool]
        if bits == 8:
            step = 1 if thorough else 5
            pairs += [(a, b) for a in range(lo, hi, step) for b in range(lo, hi, step)]
        for (op, cop) in BINOPS:
            if op in ('rol', 'ror'):
                continue
            fn = ns[idx['binop'][(op, tn)]]
            for (a, b) in pairs:
                exp = o_binop(op, bits, sg, a, b)
                if exp is None:
                    continue
                n_eval += 1
                got = outcome(fn, a, b)
                if not (isinstance(got, OkV) and got.v == exp and type(got.v) is int):
                    ctx.violation({'fn': 'gen_binop', 'key': 'binop %s %s' % (op, tn), 'op': op, 'type': tn,
                                   'args': [a, b], 'expected': exp,
                                   'actual': got.v if isinstance(got, OkV) else 'exception',
                                   'how_to_replay': replay_hint})
        for (op, cop) in UNOPS:
            fn = ns[idx['unop'][(op, tn)]]
            for a in (range(lo, hi) if bits == 8 else pool):
                n_eval += 1
                exp = o_unop(op, bits, sg, a)
                got = outcome(fn, a)
                if not (isinstance(got, OkV) and got.v == exp):
                    ctx.violation({'fn': 'gen_unop', 'key': 'unop %s %s' % (op, tn), 'op': op, 'type': tn, 'args': [a],
                                   'expected': exp, 'actual': got.v if isinstance(got, OkV) else 'exception',
                                   'how_to_replay': replay_hint})
        for (sn, sbits, ssg) in INT_TYPES:
            fn = ns[idx['cast'][(sn, tn)]]
            slo, shi = rng_of(sbits, ssg)
            for a in (range(slo, shi) if sbits == 8 else value_pool(ctx.rng, sbits, ssg)):
                n_eval += 1
                exp = o_wrap(a, bits, sg)
                got = outcome(fn, a)
                if not (isinstance(got, OkV) and got.v == exp):
                    ctx.violation({'fn': 'gen_cast', 'key': 'cast %s->%s' % (sn, tn), 'src': sn, 'dst': tn, 'args': [a],
                                   'expected': exp, 'actual': got.v if isinstance(got, OkV) else 'exception',
                                   'how_to_replay': replay_hint})
        # float -> int
        for sn in ('f64', 'f32'):
            fn = ns[idx['fcast'][(sn, tn)]]
            xs = float_pool(ctx.rng, thorough)
            if sn == 'f32':
                xs = [struct.unpack('f', struct.pack('f', x))[0] for x in xs if abs(x) < 1e30 or x != x]
            for x in xs:
                exp = o_cast_float(bits, sg, x)
                if exp is None:
                    continue
                n_eval += 1
                got = outcome(fn, x)
                if isinstance(got, OkV) and got.v == exp:
                    continue
                rec = {'fn': 'gen_cast', 'src': sn, 'dst': tn, 'args': [repr(x)], 'expected': exp,
                       'actual': got.v if isinstance(got, OkV) else 'exception', 'how_to_replay': replay_hint}
                if isinstance(got, OkV) and got.v == py_round_wrap(bits, sg, x):
                    rec['class'] = CLS_ROUND
                    rec['key'] = CLS_ROUND
                else:
                    rec['key'] = 'fcast %s->%s' % (sn, tn)
                ctx.violation(rec)

    # witnesses of the float cast defect, re-executed on every run (2.7 -> 2, -2.7 -> -2, 2.75 -> 2)
    fn = ns[idx['fcast'][('f64', 'i32')]]
    for x, exp in ((2.7, 2), (-2.7, -2), (2.75, 2), (2.5, 2), (3.5, 3)):
        n_eval += 1
        got = outcome(fn, x)
        if not (isinstance(got, OkV) and got.v == exp):
            ctx.violation({'fn': 'gen_cast', 'class': CLS_ROUND, 'key': CLS_ROUND, 'src': 'f64', 'dst': 'i32',
                           'args': [repr(x)], 'expected': exp, 'actual': got.v if isinstance(got, OkV) else 'exception',
                           'how_to_replay': replay_hint})

    # rol / ror (known finding while the emitted text is not Python)
    for op in ('rol', 'ror'):
        for (tn, bits, sg) in (INT_TYPES if thorough else [INT_TYPES[4], INT_TYPES[2]]):
            try:
                rns = load_module(emit_module(build_rot_module(ir, op, tn)))
            except SyntaxError:
                ctx.violation({'fn': 'gen_binop', 'class': CLS_ROT, 'key': CLS_ROT, 'op': op, 'type': tn,
                               'args': [129 % (1 << (bits - 1)), 1], 'actual': 'SyntaxError in the emitted module',
                               'how_to_replay': replay_hint})
                n_eval += 1
                continue
            for a in small_pool(ctx.rng, bits, sg):
                for b in range(0, bits, max(1, bits // 8)):
                    lo, hi = rng_of(bits, sg)
                    if not lo <= b < hi:
                        continue
                    n_eval += 1
                    exp = o_binop(op, bits, sg, a, b)
                    got = outcome(rns['f'], a, b)
                    if not (isinstance(got, OkV) and got.v == exp):
                        ctx.violation({'fn': 'gen_binop', 'key': 'binop %s %s' % (op, tn), 'op': op, 'type': tn,
                                       'args': [a, b], 'expected': exp,
                                       'actual': got.v if isinstance(got, OkV) else 'exception'})

    # NaN constant (gen_const)
    mm = ir.Module('c24nan')
    f, blk, _ = new_function(ir, mm, 'f', ir.f64, [])
    c = ir.Const(float('nan'), 'c', ir.f64)
    blk.add_instruction(c)
    blk.add_instruction(ir.Return(c))
    got = outcome(lambda: load_module(emit_module(mm))['f']())
    n_eval += 1
    if not (isinstance(got, OkV) and isinstance(got.v, float) and math.isnan(got.v)):
        ctx.violation({'fn': 'gen_const', 'class': CLS_NAN, 'key': CLS_NAN, 'args': ['nan'],
                       'actual': 'exception (NameError: nan)' if not isinstance(got, OkV) else repr(got.v)})

    # alloca/free bookkeeping (not modelled in Coq): a return on a path that skipped a textually earlier alloc
    mm = ir.Module('c24free')
    f, blk, (n,) = new_function(ir, mm, 'f', ir.i32, [('n', ir.i32)])
    ba, bb = ir.Block('a'), ir.Block('b')
    f.add_block(ba)
    f.add_block(bb)
    zero = ir.Const(0, 'zero', ir.i32)
    blk.add_instruction(zero)
    blk.add_instruction(ir.CJump(n, '>', zero, ba, bb))
    al = ir.Alloc('al', 8, 8)
    ba.add_instruction(al)
    ba.add_instruction(ir.Jump(bb))
    two = ir.Const(2, 'two', ir.i32)
    bb.add_instruction(two)
    bb.add_instruction(ir.Return(two))
    fns = load_module(emit_module(mm))
    for arg, exp in ((1, 2), (0, 2), (5, 2)):
        n_eval += 1
        got = outcome(fns['f'], arg)
        depth = len(fns['rt'].stack)
        if not (isinstance(got, OkV) and got.v == exp and depth == 0):
            ctx.violation({'fn': 'reset_stack', 'class': CLS_FREE, 'key': CLS_FREE, 'args': [arg], 'expected': exp,
                           'actual': got.v if isinstance(got, OkV) else 'exception (IndexError: pop from empty bytearray)',
                           'stack_depth_after': depth})
            break

    # memory: store/load through gen_store/gen_load of every integer type (end to end), and reinterpretation
    mns = load_module(emit_module(build_mem_module(ir)))
    for (tn, bits, sg) in INT_TYPES:
        lo, hi = rng_of(bits, sg)
        for v in (range(lo, hi) if bits == 8 else value_pool(ctx.rng, bits, sg, 6)):
            n_eval += 2
            got = outcome(mns['m_' + tn], v)
            if not (isinstance(got, OkV) and got.v == v):
                ctx.violation({'fn': 'gen_store/gen_load', 'key': 'mem ' + tn, 'type': tn, 'args': [v], 'expected': v,
                               'actual': got.v if isinstance(got, OkV) else 'exception'})
            exp = o_wrap(v, bits, not sg)
            got = outcome(mns['x_' + tn], v)
            if not (isinstance(got, OkV) and got.v == exp):
                ctx.violation({'fn': 'gen_store/gen_load', 'key': 'reinterpret ' + tn, 'type': tn, 'args': [v],
                               'expected': exp, 'actual': got.v if isinstance(got, OkV) else 'exception'})
        # byte order through the runtime object of the emitted module
        rt = mns['rt']
        base = rt.alloca(8)[0]
        v = (0x0102030405060708 >> (64 - bits))
        getattr(rt, 'store_' + tn)(base, o_wrap(v, bits, sg))
        raw = bytes(rt.read_mem(base, bits // 8))
        rt.free(8)
        n_eval += 1
        if raw != bytes((v >> (8 * i)) & 255 for i in range(bits // 8)):
            ctx.violation({'fn': 'store_' + tn, 'key': 'byteorder ' + tn, 'args': [v], 'actual': list(raw),
                           'expected': 'little-endian bytes'})

    # CFG programs with phis vs the reference interpreter
    pns = load_module(ptext)
    for pr in progs:
        for n in (list(range(0, 9)) + ([17, 40] if thorough else [])):
            pargs = [n + j for j in range(len(pr.params))]
            exp = pr.interp(pargs)
            if exp is None:
                continue
            n_eval += 1
            got = outcome(pns[pr.name], *pargs)
            if isinstance(got, OkV) and got.v == exp:
                continue
            rec = {'fn': 'fill_phis', 'program': pr.name, 'args': pargs, 'expected': exp,
                   'actual': got.v if isinstance(got, OkV) else 'exception', 'blocks': repr(pr.blocks),
                   'how_to_replay': replay_hint}
            if pv == 'all' and isinstance(got, OkV) and got.v == pr.interp(pargs, phi_mode='all'):
                rec['class'] = CLS_PHI
                rec['key'] = CLS_PHI
            else:
                rec['key'] = 'cfg ' + pr.name
            ctx.violation(rec)

    # whole functions of the modelled fragment (irgen CFGs, loops, phis, swaps) vs the IR hub's reference
    # interpreter tools/irsem_py.py (independent of ir2py)
    if corpus is None:
        corpus = function_corpus(ctx, ir, thorough)
    import irsem_py
    sys.path.insert(0, os.path.join(vlib.VERIF, 'tools', 'gen'))
    import irgen
    nfun = 0
    for (m, ftext, fns, fl) in corpus:
        for (fobj, fpy, term) in fl:
            nfun += 1
            for _ in range(12 if thorough else 5):
                args = [ctx.rng.randrange(0, 12)] if m.name == 'c24cfg' else irgen.gen_args(ctx.rng, fobj)
                ref = irsem_py.run_main(m, fobj.name, args, fuel=3000)
                if not isinstance(ref, OkV) or not isinstance(ref.v[0], int):
                    continue            # undefined behaviour / out of fuel: nothing is demanded
                n_eval += 1
                got = run_with_alarm(fns[fobj.name], args)
                if not (isinstance(got, OkV) and got.v == ref.v[0]):
                    ctx.violation({'fn': 'generate_function', 'key': 'function %s.%s' % (m.name, fobj.name),
                                   'function': fobj.name, 'args': list(args), 'expected': ref.v[0],
                                   'actual': got.v if isinstance(got, OkV) else 'exception', 'ir': str(fpy)[:1500]})
    ctx.cov['stages']['functions_vs_reference'] = nfun

    # modules OUTSIDE the proved fragment: memory (alloca, loads/stores at offsets, volatile, globals) together
    # with calls and externals, executed against the reference interpreter: return value, trace of external
    # calls and final bytes of every global variable
    MEMF = ('diamond', 'loop', 'selfloop', 'dupedge', 'casts', 'calls', 'extern', 'alloca', 'volatile', 'globals')
    nmem = 0
    for k in range(30 if thorough else 6):
        try:
            mm = irgen.gen_module(ctx.rng, size=2 + k % 3, features=MEMF, name='mm%d' % k)
            mtext = emit_module(mm)
        except Exception as ex:   # noqa: BLE001
            ctx.log('irgen/emit failed:', ex)
            continue
        for fobj in mm.functions:
            if not isinstance(fobj, ir.Function):
                continue
            for _ in range(3):
                args = irgen.gen_args(ctx.rng, fobj)
                ref = irsem_py.run_main(mm, fobj.name, args, fuel=3000)
                if not isinstance(ref, OkV) or not isinstance(ref.v[0], int):
                    continue
                mns = load_module(mtext)
                trace = []
                for e in mm.externals:
                    mns['rt'].externals[e.name] = (lambda nm: (lambda *a: (trace.append((nm, list(a))), 0)[1]))(e.name)
                got = run_with_alarm(mns[fobj.name], args)
                n_eval += 1
                nmem += 1
                gl = []
                for gv in mm.variables:
                    try:
                        gl.append((gv.name, bytes(mns['rt'].read_mem(mns[gv.name], len(dict(ref.v[1])[gv.name])))))
                    except Exception:   # noqa: BLE001
                        gl.append((gv.name, None))
                if not (isinstance(got, OkV) and got.v == ref.v[0] and trace == [(a, list(b)) for a, b in ref.v[2]]
                        and gl == [(a, bytes(b)) for a, b in ref.v[1]]):
                    ctx.violation({'fn': 'generate_function', 'key': 'memory/calls %s.%s' % (mm.name, fobj.name),
                                   'function': fobj.name, 'args': list(args), 'expected': ref.v[0],
                                   'actual': got.v if isinstance(got, OkV) else 'exception',
                                   'trace_equal': trace == [(a, list(b)) for a, b in ref.v[2]],
                                   'globals_equal': gl == [(a, bytes(b)) for a, b in ref.v[1]],
                                   'ir': str(mm)[:1500]})
    ctx.cov['stages']['memory_calls_vs_reference'] = nmem
    ctx.cov['stages']['oracle_sweep'] = ctx.cov['stages'].get('oracle_sweep', 0) + n_eval
    ctx.cov['evaluations'] += n_eval


def replay(rec):
    """./check C24 --replay FILE : re-run the recorded failing input on the current tree"""
    import json
    ir, _, _ = _ppci()
    print(json.dumps({k: rec[k] for k in rec if k != 'failed_stages'}, indent=1))
    fn = rec.get('fn')
    try:
        if fn == 'gen_binop' and 'op' in rec:
            if rec['op'] in ('rol', 'ror'):
                ns = load_module(emit_module(build_rot_module(ir, rec['op'], rec['type'])))
                got = ns['f'](*rec['args'])
            else:
                m, idx = build_arith_module(ir)
                got = load_module(emit_module(m))[idx['binop'][(rec['op'], rec['type'])]](*rec['args'])
        elif fn == 'gen_unop':
            m, idx = build_arith_module(ir)
            got = load_module(emit_module(m))[idx['unop'][(rec['op'], rec['type'])]](*rec['args'])
        elif fn == 'gen_cast':
            m, idx = build_arith_module(ir)
            key = 'fcast' if rec['src'].startswith('f') else 'cast'
            a = float(rec['args'][0]) if key == 'fcast' else rec['args'][0]
            got = load_module(emit_module(m))[idx[key][(rec['src'], rec['dst'])]](a)
        elif fn == 'fill_phis':
            progs = {p.name: p for p in fixed_programs()}
            pr = progs.get(rec.get('program'), witness_loop())
            m = ir.Module('replay')
            pr.build(ir, m)
            got = load_module(emit_module(m))[pr.name](*rec['args'])
        else:
            print('no executable replay for this record')
            return 0
    except Exception as ex:   # noqa: BLE001
        got = 'exception %s: %s' % (type(ex).__name__, ex)
    print('implementation now returns:', got, '  expected:', rec.get('expected'))
    return 0 if got == rec.get('expected') else 1


MANIFEST = {
    'text': 'proof: (1) for every integer width and every in-range operand, the Python statements that ir2py emits for '
            '+ - * / % | & ^ << >>, unary - ~, comparisons and int->int casts, run over the runtime helpers it emits '
            '(correct, idiv, irem, ishl, ishr; translated from the emitted text on every run), compute exactly the IR '
            'result (wrap-around, truncating / and %, arithmetic/logical >>) whenever the IR defines one; the repaired '
            'float->int cast truncates; (2) load_/store_ helpers of all eight integer types are little-endian two\'s '
            'complement, store-then-load is the identity and nothing outside the accessed bytes changes; (3) a per-edge '
            'phi tuple assignment is the simultaneous phi semantics; (4) c24_block_switch_simulates: for every '
            'well-formed IR module and every function built from integer constants, binops, unops, int casts, phis, '
            'jumps, conditional jumps and return, if the reference IR semantics (Spec.IRSem.run_function) yields a value '
            'then the emitted Python function (the while/if block dispatcher with per-edge phi fills) returns the same '
            'value - proved for all functions, CFG shapes, loops and iteration counts; (5) c24_module_simulates: the same for '
            'whole modules whose functions also call each other and external functions/procedures (oracle parameter): same '
            'value and same sequence of external calls. Refuted with witnesses: the old '
            'int(round(x)) cast, the old all-successor phi fill (both repaired in /repo), rol/ror emitted as invalid '
            'Python (repair proposed, repaired lowering proved exact)',
    'note': 'trusted: Coq kernel; py2coq on the emitted helper text; the hand models of the statement generators and of '
            'the emitted function body (their printed text is compared with the emitted text for every (op, type) and for '
            'generated CFG functions on every run; values compared on boundary pools / generated arguments); the reading '
            'of the IR in Spec.IRSemArith / Spec.IRSem; CPython facts about int, round, int(float), struct on a '
            'little-endian host. Not modelled in Coq: memory instructions inside functions (different address spaces), '
            'alloca/free, module procedures, indirect calls, float '
            'arithmetic, ptr arithmetic (no wrap; ptr is a 4-byte signed int in memory), Undefined - executed against '
            'the independent reference interpreter only. No axioms.',
    'technique': 'Coq proof (forward simulation of the block dispatcher + per-instruction exactness) over the py2coq-'
                 'translated emitted runtime and hand models; text/value correspondence; reference-interpreter search',
}
