"""IR hub self-test:   /venv/bin/python tools/props/irhub_selftest.py [n_modules] [seed]

Runs generated modules (tools/gen/irgen.py) through
  (1) the Coq reference interpreter Spec.IRSem.run_main (via tools/irimport.py + vm_compute),
  (2) the independent Python interpreter tools/irsem_py.py,
  (3) ppci's own ir_to_python execution, where applicable (SAFE_FEATURES modules whose reference
      outcome is a normal termination),
and prints agreement counts.  (1) vs (2) must agree on every outcome (values, final global
memory, trace, kind of undefined behaviour); (3) is informational: ppci's Python back-end is a
subject of property C24, not part of the hub.  Exit status 0 iff (1) and (2) agree everywhere.
"""
import io
import os
import random
import sys

HERE = os.path.dirname(os.path.abspath(__file__))
sys.path.insert(0, os.path.dirname(HERE))
sys.path.insert(0, os.path.join(os.path.dirname(HERE), 'gen'))
os.environ.setdefault('PYTHONHASHSEED', '0')
import vlib  # noqa: E402

vlib.ensure_repo_on_path()
import irgen  # noqa: E402
import irimport  # noqa: E402
import irsem_py  # noqa: E402
from ppci import ir  # noqa: E402

FUEL = 120


def coq_args(args):
    return '[' + '; '.join('Vint %s' % vlib.coq_z(a) for a in args) + ']'


def run_ir2py(m, fname, args):
    """execute with ppci's Python back-end; returns (ret, [(gname, bytes)]) or ('error', text)"""
    from ppci.lang.python.ir2py import ir_to_python
    f = io.StringIO()
    try:
        ir_to_python([m], f)
        ns = {}
        exec(compile(f.getvalue(), '<ir2py>', 'exec'), ns)
        ret = ns[fname](*args)
        rt = ns['rt']
        globs = []
        for g in m.variables:
            a = ns[g.name] - rt.HEAP_START
            size = max(g.amount, sum(len(p) for p in g.value) if g.value else 0)
            globs.append((g.name, bytes(rt.heap[a:a + size])))
        return (ret, globs)
    except Exception as ex:   # noqa: BLE001
        return ('error', '%s: %s' % (type(ex).__name__, ex))


def main():
    n = int(sys.argv[1]) if len(sys.argv) > 1 else 240
    seed = int(sys.argv[2]) if len(sys.argv) > 2 else 0
    ctx = vlib.Ctx('IRHUB', 'quick', seed)
    ok, _ = ctx.build(['Spec/IRSem.vo', 'Lib/Val.vo'])
    if not ok:
        print('IRHUB build failed')
        return 1
    rng = random.Random(seed)
    cases, recs = [], []
    kinds = {}
    instr_kinds = {}
    for k in range(n):
        safe = k % 3 == 2
        feats = irgen.SAFE_FEATURES if safe else None
        m = irgen.gen_module(rng, size=1 + k % 4, features=feats, name='m%d' % k)
        t = irimport.module_to_py(m)
        for f in t[3]:
            for b in f[4]:
                for i in b[2]:
                    instr_kinds[i[0]] = instr_kinds.get(i[0], 0) + 1
        term = irimport.py_to_coq(t)
        calls = [(f.name, irgen.gen_args(rng, f)) for f in m.functions]
        py = [irsem_py.run_main(m, fn, a, FUEL) for fn, a in calls]
        for o in py:
            kd = 'done' if isinstance(o, vlib.OkV) else (o if isinstance(o, str) else 'ub:' + o[1])
            kinds[kd] = kinds.get(kd, 0) + 1
        coq = 'let m := %s in [%s]' % (term, '; '.join(
            'run_main default_cfg m %s %s %d' % (vlib.coq_str(fn), coq_args(a), FUEL) for fn, a in calls))
        cases.append((coq, py))
        recs.append((m, calls, py, safe))
    bad = ctx.run_cases('irhub', ['Spec.IRSyntax', 'Spec.IRSem'], cases, shard=40)
    nfun = sum(len(r[1]) for r in recs)
    print('modules: %d   function runs: %d   outcome kinds (python interpreter): %s' % (n, nfun, kinds))
    print('instruction kinds generated: %s' % dict(sorted(instr_kinds.items())))
    if bad is None:
        print('Coq vs Python interpreter: Coq case files FAILED to compile')
        return 1
    print('Coq IRSem vs irsem_py: %d / %d modules agree on every function run' % (n - len(bad), n))
    for i in bad[:3]:
        m, calls, py, _ = recs[i]
        print('  DISAGREE module m%d calls=%r python=%r' % (i, calls, [o.v if isinstance(o, vlib.OkV) else o for o in py]))
        print(vlib.strip_noise(ctx.eval_terms('dis%d' % i, ['Spec.IRSyntax', 'Spec.IRSem'], [cases[i][0]]))[-1500:])
    # ---- ppci ir_to_python, where applicable
    app = agree = 0
    dis = []
    for m, calls, py, safe in recs:
        if not safe:
            continue
        for (fn, a), o in zip(calls, py):
            if not isinstance(o, vlib.OkV):
                continue
            app += 1
            ret, globs, _tr = o.v
            got = run_ir2py(m, fn, a)
            if got == (ret, globs):
                agree += 1
            else:
                dis.append((m.name, fn, a, (ret, globs), got))
    print('ppci ir_to_python vs reference (SAFE modules, normal terminations): %d / %d agree' % (agree, app))
    for d in dis[:5]:
        print('  ir2py differs: module %s %s%r reference=%r ir2py=%r' % d)
    return 1 if bad else 0


if __name__ == '__main__':
    sys.exit(main())
