"""C30 search worker — runs in a fresh interpreter (its PYTHONHASHSEED is set by the parent).

usage: c30_worker.py <repo> < job.json > result.json
job = {"perturb": <int>, "jobs": [{"id":..., "lang": "c"|"c3", "src": <text>|[paths], "march":..., "opt":..., "debug":bool}],
       "ir": [{"id":..., "src":..., "march":...}]}
perturb 0: nothing before the jobs.  perturb k>0: first allocate k small objects that stay alive and compile an
unrelated module for another target in the same process (moves every later object to other addresses).
Result: {"<id>": {"sha": sha256 of the json text of ppci.binutils.objectfile.serialize(obj), "n": length}} or
{"<id>": {"error": "<exception type>: <message>"}}; "ir:<id>" entries hold the sha of the optimized IR text.
"""
import hashlib
import io
import json
import logging
import sys


def main():
    repo = sys.argv[1]
    sys.path.insert(0, repo)
    sys.dont_write_bytecode = True
    logging.disable(logging.CRITICAL)
    job = json.load(sys.stdin)
    real_stdout = sys.stdout
    sys.stdout = io.StringIO()        # some back ends print debugging text
    keep = []
    from ppci import api
    from ppci.binutils.objectfile import serialize
    k = job.get('perturb', 0)
    if k:
        keep.append([bytearray(40) for _ in range(k)])
        keep.append([object() for _ in range(k * 3)])
        unrelated = ('char *ustr_%d = "unrelated"; int unrelated_%d(int a, int b) { int i; int s = 0; '
                     'for (i = 0; i < a; i++) { s += b * i * 305419896 + 19088743; } if (s > 77777777) { s = s - 1000000; } '
                     'return s ^ 123456789; }' % (k, k))
        for um in ('arm', 'x86_64'):
            try:
                keep.append(api.cc(io.StringIO(unrelated), um, opt_level=0))
            except Exception:   # noqa: BLE001
                pass
        try:
            keep.append(api.cc(io.StringIO(unrelated), 'msp430' if k % 2 else 'or1k', opt_level=k % 3))
        except Exception:   # noqa: BLE001
            pass
    out = {}
    def run_jobs(joblist, sfx):
      for j in joblist:
          try:
              be = j.get('backend')
              if be in ('wasm', 'python', 'irtext'):
                  # other outputs of the same pipeline: wasm binary, generated python text, optimized IR text
                  m = api.c_to_ir(io.StringIO(j['src']), j['march'])
                  api.optimize(m, level=j['opt'])
                  if be == 'wasm':
                      from ppci.wasm import ir_to_wasm
                      text = ir_to_wasm(m).to_bytes().hex()
                  elif be == 'python':
                      f = io.StringIO()
                      api.ir_to_python([m], f)
                      # the first line is a wall-clock stamp ("# Automatically generated on <ctime>"): deliberate,
                      # not a function of hash seed / process / history, so it is excluded from the comparison
                      text = '\n'.join(l for l in f.getvalue().split('\n')
                                       if not l.startswith('# Automatically generated on '))
                  else:
                      from ppci import irutils
                      f = io.StringIO()
                      irutils.Writer(f).write(m)
                      text = f.getvalue()
                  out[j['id'] + sfx] = {'sha': hashlib.sha256(text.encode()).hexdigest(), 'n': len(text)}
                  if job.get('dump') == j['id']:
                      out[j['id'] + sfx]['text'] = text
                  continue
              if be == 'burg':
                  import os
                  import tempfile
                  from ppci.codegen import burg
                  fd, tmp = tempfile.mkstemp(suffix='.py')
                  os.close(fd)
                  args = burg.make_argument_parser().parse_args([j['src'], '-o', tmp])
                  burg.main(args)
                  args.output.close()
                  text = open(tmp).read()
                  os.unlink(tmp)
                  out[j['id'] + sfx] = {'sha': hashlib.sha256(text.encode()).hexdigest(), 'n': len(text)}
                  if job.get('dump') == j['id']:
                      out[j['id'] + sfx]['text'] = text
                  continue
              if j['lang'] == 'c':
                  obj = api.cc(io.StringIO(j['src']), j['march'], opt_level=j['opt'], debug=j.get('debug', False))
              else:
                  obj = api.c3c(list(j['src']), [], j['march'], opt_level=j['opt'], debug=j.get('debug', False))
              text = json.dumps(serialize(obj), sort_keys=True, indent=1)
              out[j['id'] + sfx] = {'sha': hashlib.sha256(text.encode()).hexdigest(), 'n': len(text)}
              if job.get('dump') == j['id']:
                  out[j['id'] + sfx]['text'] = text
          except Exception as ex:   # noqa: BLE001
              out[j['id'] + sfx] = {'error': '%s: %s' % (type(ex).__name__, str(ex)[:200])}
    run_jobs(job.get('jobs', []), '')
    if job.get('second_pass'):
        # process history: build every input a second time in this process, in the opposite order
        # (second build of the same input; inputs in swapped order); '#2' results must equal the first ones
        run_jobs(list(reversed(job.get('jobs', []))), '#2')
    for j in job.get('ir', []):
        try:
            from ppci import irutils
            m = api.c_to_ir(io.StringIO(j['src']), j['march'])
            api.optimize(m, level=2)
            f = io.StringIO()
            irutils.Writer(f).write(m)
            text = f.getvalue()
            out['ir:' + j['id']] = {'sha': hashlib.sha256(text.encode()).hexdigest(), 'n': len(text)}
            if job.get('dump') == 'ir:' + j['id']:
                out['ir:' + j['id']]['text'] = text
        except Exception as ex:   # noqa: BLE001
            out['ir:' + j['id']] = {'error': '%s: %s' % (type(ex).__name__, str(ex)[:200])}
    json.dump(out, real_stdout)


if __name__ == '__main__':
    main()
