"""c05_e2e — end-to-end differential search for miscompilations of the ppci RISC-V (rv32) back-end
without an emulator: generated IR functions are compiled + linked by ppci, the final bytes are
executed by tools/rv32_py.py and the value returned in x10 is compared with the independent IR
interpreter tools/irsem_py.py.

    gen_function(rng, size=3, features=None, avoid=()) -> (ir.Module, 'f', [param types])
    gen_args(rng, param_types) -> [int]
    compile_module(module, fname) -> Image          run_image(image, args, ret_type) -> (status, x)
    compile_and_run(module, fname, args, param_types, ret_type)
                                  -> ('ok', v) | ('compile_error', text) | ('exec_error', text)
    reference(module, fname, args) -> ('ok', v) | ('skip', reason)
    search(rng, n_modules, args_per_module=6, size=3, features=None, on_mismatch=None, avoid=()) -> stats
    replay_ir(ir_text, args, ret_type=None) -> (actual, expected)      (the two status tuples above)
    classify(rec) -> str      families(rec) -> known defect families whose trigger occurs in rec's IR
    support() -> constructs the back-end compiles at all (probed; unsupported ones are never generated)

features ⊆ FEATURES; avoid ⊆ AVOID switches off the four known ppci riscv defect families:
  inplace                   Unop / widening Cast / signed sub-word >> overwrite their operand register
  negconst                  i32 `x op c`, op in + & | ^, c < -2048 uses a truncated 12-bit immediate
  subword_shr_div_cmp       >> / % and CJump on 8/16-bit types see garbage upper register bits
  signed_to_unsigned_widen  casts i8->u16, i8->u32, i16->u32 zero-extend
"""
import io
import os
import sys

sys.path.insert(0, os.path.dirname(os.path.dirname(os.path.abspath(__file__))))
from ppci import ir, api                                            # noqa: E402
from ppci.irutils import verify_module, print_module, read_module   # noqa: E402
import rv32_py as RV                                                # noqa: E402
import irsem_py                                                     # noqa: E402

TYPES = [ir.i8, ir.i16, ir.i32, ir.u8, ir.u16, ir.u32]
FEATURES = ('arith', 'unop', 'casts', 'subword', 'consts', 'multiuse', 'diamond', 'loop', 'mem')
AVOID = ('inplace', 'negconst', 'subword_shr_div_cmp', 'signed_to_unsigned_widen')
BINOPS = ['+', '-', '*', '/', '%', '&', '|', '^', '<<', '>>', 'rol', 'ror']
CONSTS = [0, 1, 2, 3, 5, 7, 10, -1, -2, -3, -5000, 0x12345678, 2047, 2048, -2048, -2049, 4095, 4096,
          127, 128, -128, -129, 255, 256, 32767, 32768, -32768, 65535, 65536, 100000, -100000,
          0x7fffffff, -0x80000000, 0x80000000, 0xffffffff, 0xfffff800, 0xffff0000]
ARGS = [0, 1, 2, -1, -2, 127, 128, 255, 256, 2047, 2048, -2048, -2049, 32767, 32768, 65535, 65536,
        0x7fffffff, 0x80000000, 0x12345678]
LAYOUT = """
MEMORY code LOCATION=0x10000 SIZE=0x40000 { SECTION(code) }
MEMORY ram LOCATION=0x100000 SIZE=0x40000 { SECTION(data) }
"""
STOP, STACK_TOP, STEPS, FUEL = 0xfffffff0, 0x7ffff0, 200000, 400
_CACHE = {}


def trange(t):
    return (-(1 << (t.bits - 1)), (1 << (t.bits - 1)) - 1) if t.signed else (0, (1 << t.bits) - 1)


def wide(t):
    return ir.i32 if t.signed else ir.u32


def _negconst(i):
    """Binop hitting an `op reg, imm12` pattern whose condition forgets the lower bound"""
    big = [isinstance(x, ir.Const) and isinstance(x.value, int) and x.value < -2048 for x in (i.a, i.b)]
    return i.ty is ir.i32 and (i.operation in ('+', '|', '^') and any(big) or i.operation == '&' and big[1])


# ---------------------------------------------------------------- compile / run / reference
class Image:
    def __init__(self, mem=None, entry=0, error=None):
        self.mem, self.entry, self.error = mem, entry, error


def compile_module(module, fname):
    try:
        if 'arch' not in _CACHE:
            _CACHE['arch'] = api.get_arch('riscv')
        obj = api.ir_to_object([module], _CACHE['arch'])
        lo = api.link([obj], layout=io.StringIO(LAYOUT))
        mem = {}
        for img in lo.images:
            for i, b in enumerate(img.data):
                mem[img.address + i] = b
        return Image(mem, lo.get_symbol_value(fname))
    except Exception as ex:                       # any ppci failure on verifier-clean IR
        return Image(error='%s: %s' % (type(ex).__name__, str(ex)[:300]))


def run_image(image, args, ret_type):
    if image.error is not None:
        return ('compile_error', image.error)
    if len(args) > 6:
        return ('exec_error', 'more than 6 arguments')
    s = RV.State(pc=image.entry, mem=image.mem)
    s.regs[1], s.regs[2] = STOP, STACK_TOP
    for r, a in zip(range(12, 18), args):
        s.regs[r] = RV.u32(a)
    try:
        RV.run(s, STOP, STEPS)
    except Exception as ex:
        return ('exec_error', '%s: %s' % (type(ex).__name__, str(ex)[:200]))
    return ('ok', irsem_py.wrap_bits(ret_type.bits, ret_type.signed, s.regs[10]))


def _func(module, fname):
    return [f for f in module.functions if f.name == fname][0]


def compile_and_run(module, fname, args, param_types=None, ret_type=None):
    rt = _func(module, fname).return_ty if ret_type is None else ret_type
    return run_image(compile_module(module, fname), args, rt)


def reference(module, fname, args):
    cfg = (4,) + tuple(irsem_py.DEFAULT_CFG[1:])
    out = irsem_py.run_main(module, fname, list(args), fuel=FUEL, cfg=cfg)
    if isinstance(out, irsem_py.OkV) and isinstance(out.v[0], int):
        return ('ok', out.v[0])
    return ('skip', repr(out)[:80])


def module_text(module):
    f = io.StringIO()
    print_module(module, file=f, verify=False)
    return f.getvalue()


def replay_ir(ir_text, args, ret_type=None, fname=None):
    m = read_module(io.StringIO(ir_text))
    fname = fname or m.functions[0].name
    if isinstance(ret_type, str):
        ret_type = [t for t in TYPES if t.name == ret_type][0]
    return compile_and_run(m, fname, args, None, ret_type), reference(m, fname, args)


def support():
    """set of constructs the back-end can compile at all: (op, tname) for Binop, ('neg'|'inv', tname),
    ('cast', src, dst), ('cjmp'|'mem', tname) — found by compiling one-instruction functions"""
    if 'sup' in _CACHE:
        return _CACHE['sup']
    tmpl = 'module m;\nglobal function %s f(%s p0, %s p1) {\n  b0: {\n    %s\n  }\n%s}\n'
    s = set()
    for t in TYPES:
        T = t.name
        probes = [((op, T), T, '%s r = p0 %s p1; return r;' % (T, op), '') for op in BINOPS]
        probes += [((k, T), T, '%s r = %s p0; return r;' % (T, op), '') for k, op in (('neg', '-'), ('inv', '~'))]
        probes += [(('cast', src.name, T), src.name, '%s r = cast p0; return r;' % T, '') for src in TYPES]
        probes += [(('cjmp', T), T, 'cjmp p0 < p1 ? b1 : b1;', '  b1: {\n    return p0;\n  }\n'),
                   (('mem', T), T, 'blob<8:4> a = alloc 8 bytes aligned at 4; ptr pa = &a; store p0, pa; '
                                   '%s r = load pa; return r;' % T, '')]
        for key, S, body, rest in probes:
            m = read_module(io.StringIO(tmpl % (T, S, S, body, rest)))
            verify_module(m)
            if compile_module(m, 'f').error is None:
                s.add(key)
    _CACHE['sup'] = s
    return s


# ---------------------------------------------------------------- generator
class _Env:
    """values dominating the insertion point + initialised bytes of the stack block"""
    def __init__(self, vals=(), init=()):
        self.vals, self.init = list(vals), set(init)

    def copy(self):
        return _Env(self.vals, self.init)


class _Gen:
    """Register classes (only when 'inplace' is avoided): every value belongs to the class of values
    living in the same ppci virtual register (truncating/same-size casts return their operand's
    register).  An overwriting instruction is applied to v directly only if nothing else reads v's class
    (ppci evaluates single-use expressions at their use, i.e. possibly after a later overwrite), v is
    (re)defined in the current loop iteration and is not an operand still waiting for its instruction
    (`hold`); otherwise to a private copy `v + 0`.  Afterwards the whole class is dead."""
    MEMSIZE = 16

    def __init__(self, rng, size, feats, avoid):
        self.rng, self.feats, self.avoid, self.sup = rng, feats, avoid, support()
        self.types = list(TYPES) if 'subword' in feats else [ir.i32, ir.u32]
        self.track, self.nosub = 'inplace' in avoid, 'subword_shr_div_cmp' in avoid
        self.n = self.ncls = self.loop = self.nloops = 0
        self.cls, self.cls_loop, self.members = {}, {}, {}
        self.dead, self.pinned, self.used, self.seen, self.hold = set(), set(), set(), set(), set()
        self.budget = 6 + 6 * size
        self.m = ir.Module('m')
        self.f = ir.Function('f', ir.Binding.GLOBAL, rng.choice(self.types))
        self.m.add_function(self.f)
        self.ptypes = [rng.choice(self.types) for _ in range(rng.randint(1, 4))]
        env = _Env()
        for k, t in enumerate(self.ptypes):
            p = ir.Parameter('p%d' % k, t)
            self.f.add_parameter(p)
            self.newcls(p)
            env.vals.append(p)
        self.cur = self.block('entry')
        self.base = None
        if 'mem' in feats and rng.random() < 0.6:
            blk = self.emit(ir.Alloc(self.nm('blk'), self.MEMSIZE, 4))
            self.base = self.emit(ir.AddressOf(blk, self.nm('base')))
        for _ in range(rng.randint(1, 1 + size)):
            self.segment(env, 0)
        self.finish(env)
        verify_module(self.m)

    # -- plumbing
    def nm(self, hint='v'):
        self.n += 1
        return '%s%d' % (hint, self.n)

    def block(self, hint):
        b = ir.Block(self.nm(hint))
        self.f.add_block(b)
        self.f.entry = b if self.f.entry is None else self.f.entry
        return b

    def newcls(self, v, loop=None):
        self.ncls += 1
        self.cls[id(v)], self.members[self.ncls] = self.ncls, [v]
        self.cls_loop[self.ncls] = self.loop if loop is None else loop

    def emit(self, ins, alias=None):
        """alias: value whose machine register the result shares"""
        self.cur.add_instruction(ins)
        if isinstance(ins, ir.Value):
            if alias is not None:
                self.cls[id(ins)] = self.cls[id(alias)]
                self.members[self.cls[id(alias)]].append(ins)
            else:
                self.newcls(ins)
        return ins

    def clobber(self, src, ins):
        """emit ins, which (in ppci riscv) overwrites the register of src: src and its aliases die"""
        if not self.track:
            return self.emit(ins)
        c = self.cls[id(src)]
        self.cur.add_instruction(ins)
        self.dead.add(c)
        self.newcls(ins, self.cls_loop[c])
        return ins

    def fresh(self, v):
        if isinstance(v, ir.Const):
            return self.const(v.ty, v.value)
        return self.bin(v, '+', self.const(v.ty, 0), 'cp', True)

    def victim(self, v):
        """v, or a private copy of it when v has to stay intact (only when 'inplace' is avoided)"""
        c = self.cls[id(v)]
        mem = self.members[c]
        if self.track and (id(v) in self.pinned or c in self.hold or self.cls_loop[c] != self.loop
                           or any(not any(u is m for m in mem) for x in mem for u in x.used_by)):
            return self.fresh(v)
        return v

    def ok(self, v):
        return self.cls[id(v)] not in self.dead and ('multiuse' in self.feats or id(v) not in self.used)

    def const(self, t, v=None):
        if v is None:
            lo, hi = trange(t)
            pool = [c for c in CONSTS if lo <= c <= hi] if 'consts' in self.feats else [0, 1, 2, 3, 5, 7]
            v = self.rng.choice(pool)
        return self.emit(ir.Const(v, self.nm('c'), t))

    def pick(self, env, t, hold=True):
        """a usable value of type t; hold: it must survive until the end of the current statement"""
        rng = self.rng
        c = [v for v in env.vals if v.ty is t and self.ok(v)]
        if c and rng.random() < 0.8:
            v = rng.choice(c[-6:])
        else:
            o = [v for v in env.vals if v.ty is not t and self.ok(v)]
            if o and 'casts' in self.feats and rng.random() < 0.6:
                v = self.cast(self.use(rng.choice(o)), t)
            else:
                v = self.const(t)
            env.vals.append(v)
        if hold:
            self.hold.add(self.cls[id(v)])
        return self.use(v)

    def use(self, v):
        self.used.add(id(v))
        return v

    def cast(self, v, t):
        s = v.ty
        self.seen.add('casts')
        if t.bits > s.bits:
            if s.signed and not t.signed and 'signed_to_unsigned_widen' in self.avoid:
                return self.cast(self.cast(v, ir.i32 if t.bits == 32 else ir.i16), t)
            v = self.victim(v)
            return self.clobber(v, ir.Cast(v, self.nm('w'), t))
        return self.emit(ir.Cast(v, self.nm('t'), t), alias=v)

    def widen2(self, a, b):
        """both operands in the 32-bit type of the same signedness"""
        if self.track and self.cls[id(a)] == self.cls[id(b)]:
            b = self.fresh(b)
        self.hold -= {self.cls[id(a)], self.cls[id(b)]}
        return self.cast(a, wide(a.ty)), self.cast(b, wide(a.ty))

    def bin(self, a, op, b, hint='b', keep=False):
        i = ir.Binop(a, op, b, self.nm(hint), a.ty)
        if not keep and 'negconst' in self.avoid and _negconst(i):
            i = ir.Binop(a, self.rng.choice(['-', '*']), b, i.name, a.ty)
        return self.emit(i)

    # -- straight-line code
    def binop(self, env, t):
        rng, sup = self.rng, self.sup
        op = rng.choice([o for o in BINOPS if (o, wide(t).name) in sup])
        a = self.pick(env, t)
        lo, hi = trange(t)
        if op in ('/', '%'):                       # divisor never 0 or -1
            if rng.random() < 0.4:
                b = self.const(t, rng.choice([1, 2, 3, 7, 10, hi] + ([-2, -3, -7, lo] if t.signed else [])))
            elif t.signed:
                b = self.bin(self.pick(env, t), '&', self.const(t, hi >> 1), 'dm', True)
                b = self.bin(b, '+', self.const(t, 1), 'd', True)
            else:
                b = self.bin(self.pick(env, t), '|', self.const(t, 1), 'd', True)
        elif op in ('<<', '>>', 'rol', 'ror'):     # amount in [0, bits)
            if rng.random() < 0.6:
                b = self.const(t, rng.randint(0, t.bits - 1))
            else:
                b = self.bin(self.pick(env, t), '&', self.const(t, t.bits - 1), 'sh', True)
        elif 'multiuse' in self.feats and rng.random() < 0.15:
            b = a
        else:
            b = self.pick(env, t)
        narrow = t.bits < 32
        if narrow and ((op, t.name) not in sup or (self.nosub and op in ('>>', '/', '%'))):
            if 'casts' in self.feats:              # do it in 32 bits
                a, b = self.widen2(a, b)
                self.seen.add('widened:' + op)
                return self.cast(self.bin(a, op, b, 'wb'), t)
            op = rng.choice(['+', '-', '^'])
        self.seen.add('arith')
        if narrow and t.signed and op == '>>':     # SHRI8/SHRI16 sign-extend a's register in place
            self.hold.discard(self.cls[id(a)])
            a = self.victim(a)
            return self.clobber(a, ir.Binop(a, op, b, self.nm('b'), t))
        return self.bin(a, op, b)

    def unop(self, env, t):
        ops = [o for k, o in (('neg', '-'), ('inv', '~')) if (k, t.name) in self.sup]
        if not ops:
            return self.binop(env, t)
        a = self.victim(self.pick(env, t, hold=False))
        self.seen.add('unop')
        return self.clobber(a, ir.Unop(self.rng.choice(ops), a, self.nm('u'), t))

    def ptr_at(self, off):
        if off == 0:
            return self.base
        o = self.emit(ir.Cast(self.const(self.rng.choice([ir.i32, ir.u32]), off), self.nm('o'), ir.ptr))
        return self.emit(ir.Binop(self.base, '+', o, self.nm('p'), ir.ptr))

    def memop(self, env):
        """store, or load of bytes that were certainly stored before (the real stack is not zeroed)"""
        rng = self.rng
        ts = [t for t in self.types if ('mem', t.name) in self.sup]
        loads = [(t, o) for t in ts for o in range(0, self.MEMSIZE, t.bits // 8)
                 if set(range(o, o + t.bits // 8)) <= env.init]
        self.seen.add('mem')
        if loads and rng.random() < 0.5:
            t, o = rng.choice(loads)
            return self.emit(ir.Load(self.ptr_at(o), self.nm('ld'), t))
        t = rng.choice(ts)
        o = rng.randrange(0, self.MEMSIZE, t.bits // 8)
        self.emit(ir.Store(self.pick(env, t), self.ptr_at(o)))
        env.init |= set(range(o, o + t.bits // 8))
        return None

    def straight(self, env, n):
        rng, feats = self.rng, self.feats
        for _ in range(n):
            if self.budget <= 0:
                return
            self.budget -= 1
            self.hold.clear()
            t = rng.choice(self.types)
            r = rng.random()
            if r < 0.15 and 'unop' in feats:
                v = self.unop(env, t)
            elif r < 0.30 and 'casts' in feats:
                v = self.cast(self.pick(env, rng.choice([s for s in self.types if s is not t]), hold=False), t)
            elif r < 0.45 and self.base is not None:
                v = self.memop(env)
            elif r < 0.52:
                v = self.const(t)
            elif 'arith' in feats:
                v = self.binop(env, t)
            else:
                v = self.bin(self.pick(env, t), '+', self.pick(env, t))
            if v is not None:
                env.vals.append(v)

    # -- control flow
    def segment(self, env, depth):
        rng = self.rng
        kinds = ['straight'] + [k for k in ('diamond', 'loop') if k in self.feats and depth < 2]
        kind = rng.choice(kinds) if self.budget > 0 else 'straight'
        self.hold.clear()
        if kind == 'straight':
            return self.straight(env, rng.randint(1, 4))
        self.seen.add(kind)
        cmp_types = [t for t in self.types if ('cjmp', t.name) in self.sup]
        if kind == 'diamond':
            t = rng.choice(cmp_types)
            if t.bits < 32 and self.nosub and 'casts' not in self.feats:
                t = wide(t)
            a, b = self.pick(env, t), self.pick(env, t)
            if t.bits < 32 and self.nosub:
                a, b = self.widen2(a, b)
            yes, no, join = self.block('then'), self.block('else'), self.block('join')
            self.emit(ir.CJump(a, rng.choice(ir.CJump.conditions), b, yes, no))
            pt, outs = rng.choice(self.types), []
            for blk in (yes, no):
                self.cur = blk
                e2 = env.copy()
                self.straight(e2, rng.randint(0, 3))
                if rng.random() < 0.3:
                    self.segment(e2, depth + 1)
                self.hold.clear()
                v = self.pick(e2, pt)
                self.emit(ir.Jump(join))
                outs.append((self.cur, v, e2.init))
            self.cur = join
            ph = self.emit(ir.Phi(self.nm('phi'), pt))
            for blk, v, _ in outs:
                ph.set_incoming(blk, v)
            env.init |= outs[0][2] & outs[1][2]
            env.vals.append(ph)
            return
        # counted loop, trip count <= 7, counting up or down, with an accumulator
        t = rng.choice([t for t in cmp_types if not (self.nosub and t.bits < 32)])
        at = rng.choice(self.types)
        if rng.random() < 0.5:
            n = self.const(t, rng.randint(0, 7))
        else:
            n = self.bin(self.pick(env, t), '&', self.const(t, 7), 'n', True)
        zero, one, acc0 = self.const(t, 0), self.const(t, 1), self.pick(env, at)
        pre, head, body, done = self.cur, self.block('head'), self.block('body'), self.block('done')
        self.emit(ir.Jump(head))
        saved, self.nloops = self.loop, self.nloops + 1
        self.loop, self.cur = self.nloops, head
        i, acc = self.emit(ir.Phi(self.nm('i'), t)), self.emit(ir.Phi(self.nm('acc'), at))
        self.pinned |= {id(i), id(acc)}
        up, cond = rng.choice([(True, '<'), (True, '!='), (False, '>'), (False, '!=')])
        self.emit(ir.CJump(i, cond, n if up else zero, body, done))
        env.vals += [n, i, acc]
        self.cur, e2 = body, env.copy()
        self.straight(e2, rng.randint(1, 3))
        if rng.random() < 0.3:
            self.segment(e2, depth + 1)
        self.hold.clear()
        ops = [o for o in ('+', '^', '-', '*') if (o, at.name) in self.sup]
        acc2 = self.bin(acc, rng.choice(ops), self.pick(e2, at), 'acc')
        i2 = self.bin(i, '+' if up else '-', one, 'i')
        self.emit(ir.Jump(head))
        i.set_incoming(pre, zero if up else n)
        i.set_incoming(self.cur, i2)
        acc.set_incoming(self.cur, acc2)
        acc.set_incoming(pre, acc0)
        self.loop, self.cur = saved, done

    def finish(self, env):
        """return a combination of the most recent live values so that few computations are dead"""
        rt, rng = self.f.return_ty, self.rng
        live = [v for v in env.vals if self.ok(v) and ('casts' in self.feats or v.ty is rt)]
        self.hold.clear()
        r = None
        for v in live[-rng.randint(1, 3):]:
            if self.ok(v) and self.cls[id(v)] not in self.hold:
                v = self.use(v) if v.ty is rt else self.cast(self.use(v), rt)
                r = v if r is None else self.bin(r, rng.choice(['+', '^']), v, 'r')
                self.hold = {self.cls[id(r)]}
        self.emit(ir.Return(r if r is not None else self.const(rt)))


def gen_function(rng, size=3, features=None, avoid=()):
    features = FEATURES if features is None else tuple(features)
    bad = [x for x in features if x not in FEATURES] + [x for x in avoid if x not in AVOID]
    if bad:
        raise ValueError('unknown features/avoid: %r' % bad)
    g = _Gen(rng, size, features, tuple(avoid))
    g.m.e2e_seen = g.seen                  # kinds of constructs actually generated (for statistics)
    return g.m, 'f', g.ptypes


def gen_args(rng, param_types):
    out = []
    for t in param_types:
        lo, hi = trange(t)
        pool = [c for c in ARGS + [lo, lo + 1, hi, hi - 1] if lo <= c <= hi]
        out.append(rng.choice(pool) if rng.random() < 0.7 else rng.randint(lo, hi))
    return out


# ---------------------------------------------------------------- classification
def _root(v):
    while isinstance(v, ir.Cast) and v.src.ty in TYPES and v.ty in TYPES and v.ty.bits <= v.src.ty.bits:
        v = v.src
    return v


def _constructs(module):
    """(keys, families): constructs of the function(s) and the known defect families they may trigger"""
    keys, fam, users, kills = set(), set(), {}, []
    sub = ('i8', 'i16', 'u8', 'u16')
    for b in [b for f in module.functions for b in f.blocks]:
        reach, todo = set(), list(b.successors)
        while todo:
            x = todo.pop()
            if id(x) not in reach:
                reach.add(id(x))
                todo += x.successors
        for i in b.instructions:
            if not (isinstance(i, ir.Cast) and _root(i) is not i):
                for u in i.uses:
                    users.setdefault(id(_root(u)), set()).add(id(i))
            kill = None
            if isinstance(i, ir.Binop):
                keys.add('%s:%s' % (i.operation, i.ty.name))
                if _negconst(i):
                    fam.add('negconst')
                if i.ty.name in sub and i.operation in ('>>', '/', '%'):
                    fam.add('subword_shr_div_cmp')
                    kill = i.a if i.ty.signed and i.operation == '>>' else None
            elif isinstance(i, ir.Unop):
                keys.add('%s:%s' % ('neg' if i.operation == '-' else 'inv', i.ty.name))
                kill = i.a
            elif isinstance(i, ir.Cast):
                s, t = i.src.ty, i.ty
                keys.add('cast:%s>%s' % (s.name, t.name))
                if s in TYPES and t in TYPES and t.bits > s.bits:
                    kill = i.src
                    if s.signed and not t.signed:
                        fam.add('signed_to_unsigned_widen')
            elif isinstance(i, ir.Const):
                if isinstance(i.value, int) and i.value < -2048:
                    keys.add('const<-2048')
            elif isinstance(i, ir.CJump):
                keys.add('cmp%s:%s' % (i.cond, i.a.ty.name))
                if i.a.ty.name in sub:
                    fam.add('subword_shr_div_cmp')
            elif isinstance(i, (ir.Load, ir.Store)):
                keys.add('%s:%s' % (type(i).__name__.lower(), (i.ty if isinstance(i, ir.Load) else i.value.ty).name))
            elif isinstance(i, ir.Phi):
                keys.add('phi:' + i.ty.name)
            if kill is not None:
                r = _root(kill)
                kills.append(r)
                if id(b) in reach and getattr(r, 'block', None) is not b or isinstance(r, ir.Phi):
                    fam.add('inplace')         # re-executed overwrite of a value defined outside the loop
    if any(len(users.get(id(r), ())) > 1 for r in kills):
        fam.add('inplace')                     # the overwritten register has another reader
    return keys, fam


def _rec_module(rec):
    return rec['ir_text'] if isinstance(rec['ir_text'], ir.Module) else read_module(io.StringIO(rec['ir_text']))


def classify(rec):
    """stable grouping key: the sorted set of constructs occurring in the function"""
    return ','.join(sorted(_constructs(_rec_module(rec))[0]))


def families(rec):
    """known defect families whose trigger occurs syntactically ([] => candidate for a NEW family)"""
    return sorted(_constructs(_rec_module(rec))[1])


# ---------------------------------------------------------------- search
def search(rng, n_modules, args_per_module=6, size=3, features=None, on_mismatch=None, avoid=()):
    """on_mismatch(rec) is called once per bad module with its first bad argument vector (rec['kind'] in
    'mismatch' | 'compile_error' | 'exec_error'); rec['all_bad'] lists every (args, expected, actual)"""
    stats = dict(modules=0, executions=0, skipped=0, compile_errors=0, exec_errors=0, mismatches=0,
                 mismatch_modules=0, features={})
    for _ in range(n_modules):
        m, fname, ptypes = gen_function(rng, size, features, avoid)
        rt = _func(m, fname).return_ty
        stats['modules'] += 1
        for k in m.e2e_seen:
            stats['features'][k] = stats['features'].get(k, 0) + 1
        image = compile_module(m, fname)
        bad = []
        for _ in range(args_per_module):
            args = gen_args(rng, ptypes)
            if image.error is not None:
                stats['compile_errors'] += 1
                bad.append(('compile_error', args, None, None, image.error))
                break
            exp = reference(m, fname, args)
            if exp[0] != 'ok':
                stats['skipped'] += 1
                continue
            stats['executions'] += 1
            act = run_image(image, args, rt)
            if act[0] != 'ok':
                stats['exec_errors'] += 1
                bad.append(('exec_error', args, exp[1], None, act[1]))
            elif act[1] != exp[1]:
                stats['mismatches'] += 1
                bad.append(('mismatch', args, exp[1], act[1], ''))
        stats['mismatch_modules'] += any(b[0] == 'mismatch' for b in bad)
        if bad and on_mismatch is not None:
            kind, args, e, a, detail = bad[0]
            on_mismatch(dict(ir_text=module_text(m), args=args, expected=e, actual=a, kind=kind, detail=detail,
                             param_types=[t.name for t in ptypes], ret_type=rt.name,
                             all_bad=[(b[1], b[2], b[3]) for b in bad]))
    return stats


if __name__ == '__main__':          # c05_e2e.py [seed] [n_modules] [all|none|avoid,avoid..] [size] [feature,..]
    import random
    import time
    argv = sys.argv[1:] + [''] * 5
    avoid = AVOID if argv[2] == 'all' else tuple(a for a in argv[2].split(',') if a and a != 'none')
    recs = []
    t0 = time.time()
    st = search(random.Random(int(argv[0] or 1)), int(argv[1] or 100), size=int(argv[3] or 3),
                features=argv[4].split(',') if argv[4] else None, on_mismatch=recs.append, avoid=avoid)
    print('avoid=%s  %.1f s\n%s' % (','.join(avoid) or '-', time.time() - t0, st))
    groups = {}
    for r in recs:
        k = r['kind'] + ' ' + ('/'.join(families(r)) or 'UNEXPLAINED')
        groups[k] = groups.get(k, 0) + 1
    for k in sorted(groups):
        print('%4d  %s' % (groups[k], k))
    recs.sort(key=lambda r: (bool(families(r)), len(r['ir_text'])))
    for r in recs[:3]:
        print('---', r['kind'], 'args', r['args'], 'expected', r['expected'], 'actual', r['actual'], r['detail'][:150])
        print('key:', classify(r)[:300])
        print(r['ir_text'][:1500])
