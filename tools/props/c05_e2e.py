"""c05_e2e — end-to-end differential search for miscompilations of the ppci RISC-V (rv32) back-end
without an emulator: generated IR functions are compiled + linked by ppci, the final bytes are
executed by tools/rv32_py.py and the value returned in x10 is compared with the independent IR
interpreter tools/irsem_py.py.

    gen_function(rng, size=3, features=None, avoid=()) -> (ir.Module, 'f', [param types])
    gen_args(rng, param_types) -> [int]
    compile_module(module, fname) -> Image          run_image(image, args, ret_type) -> (status, x)
    compile_and_run(module, fname, args, param_types, ret_type) -> ('ok', v)|('compile_error', s)|('exec_error', s)
    reference(module, fname, args) -> ('ok', v) | ('skip', reason)
    search(rng, n_modules, args_per_module=6, size=3, features=None, on_mismatch=None, avoid=()) -> stats
    replay_ir(ir_text, args, ret_type=None) -> (actual, expected)      (the two status tuples)
    classify(rec) -> str      families(rec) -> sorted list of known defect families syntactically present

features ⊆ FEATURES; avoid ⊆ AVOID switches off the four known ppci riscv defect families:
  inplace                   Unop / widening Cast / signed sub-word >> overwrite their operand register
  negconst                  i32 `x op c`, op in + & | ^, c < -2048 uses a truncated 12-bit immediate
  subword_shr_div_cmp       >> / % and CJump on 8/16-bit types see garbage upper register bits
  signed_to_unsigned_widen  casts i8->u16, i8->u32, i16->u32 zero-extend
"""
import io
import os
import sys

sys.path.insert(0, os.path.dirname(os.path.dirname(os.path.abspath(__file__))))
from ppci import ir, api                                            # noqa: E402
from ppci.irutils import verify_module, print_module, read_module   # noqa: E402
import rv32_py as RV                                                # noqa: E402
import irsem_py                                                     # noqa: E402

TYPES = [ir.i8, ir.i16, ir.i32, ir.u8, ir.u16, ir.u32]
FEATURES = ('arith', 'unop', 'casts', 'subword', 'consts', 'multiuse', 'diamond', 'loop', 'mem')
AVOID = ('inplace', 'negconst', 'subword_shr_div_cmp', 'signed_to_unsigned_widen')
BINOPS = ['+', '-', '*', '/', '%', '&', '|', '^', '<<', '>>', 'rol', 'ror']
CONSTS = [0, 1, 2, 3, 5, 7, 10, -1, -2, -3, -5000, 0x12345678, 2047, 2048, -2048, -2049, 4095, 4096,
          127, 128, -128, -129, 255, 256, 32767, 32768, -32768, 65535, 65536, 100000, -100000,
          0x7fffffff, -0x80000000, 0x80000000, 0xffffffff, 0xfffff800, 0xffff0000]
LAYOUT = """
MEMORY code LOCATION=0x10000 SIZE=0x40000 { SECTION(code) }
MEMORY ram LOCATION=0x100000 SIZE=0x40000 { SECTION(data) }
"""
STOP, STACK_TOP, STEPS, FUEL = 0xfffffff0, 0x7ffff0, 200000, 400
_ARCH = []


def arch():
    if not _ARCH:
        _ARCH.append(api.get_arch('riscv'))
    return _ARCH[0]


def trange(t):
    return (-(1 << (t.bits - 1)), (1 << (t.bits - 1)) - 1) if t.signed else (0, (1 << t.bits) - 1)


def wrap(t, z):
    return irsem_py.wrap_bits(t.bits, t.signed, z)


def wide(t):
    return ir.i32 if t.signed else ir.u32


# ---------------------------------------------------------------- back-end support table (probed)
def _tiny(rt, params, body):
    m = ir.Module('m')
    f = ir.Function('f', ir.Binding.GLOBAL, rt)
    m.add_function(f)
    ps = [ir.Parameter('p%d' % i, t) for i, t in enumerate(params)]
    for p in ps:
        f.add_parameter(p)
    blocks = [ir.Block('b%d' % i) for i in range(2)]
    for b in blocks:
        f.add_block(b)
    f.entry = blocks[0]
    cur = [blocks[0]]

    def add(i):
        cur[0].add_instruction(i)
        return i
    r = body(add, ps, blocks, cur)
    add(ir.Return(r))
    if blocks[1].is_empty:
        f.remove_block(blocks[1])
    verify_module(m)
    return m


_SUPPORT = {}


def support():
    """set of constructs the back-end can compile at all: (op, tname) for Binop, ('neg'|'inv', tname),
    ('cast', src, dst), ('cjmp'|'load'|'store', tname) — found by compiling one-instruction functions"""
    if _SUPPORT:
        return _SUPPORT['s']

    def mem(t, store):
        def body(add, p, blocks, cur):
            a = add(ir.AddressOf(add(ir.Alloc('a', 8, 4)), 'pa'))
            if store:
                add(ir.Store(p[0], a))
                return p[0]
            return add(ir.Load(a, 'l', t))
        return body

    def cj(add, p, blocks, cur):
        add(ir.CJump(p[0], '<', p[1], blocks[1], blocks[1]))
        cur[0] = blocks[1]
        return p[0]
    s = set()
    for t in TYPES:
        cand = [((op, t.name), [t, t], lambda add, p, *_, op=op: add(ir.Binop(p[0], op, p[1], 'r', t)))
                for op in BINOPS]
        cand += [((k, t.name), [t], lambda add, p, *_, op=op: add(ir.Unop(op, p[0], 'r', t)))
                 for k, op in (('neg', '-'), ('inv', '~'))]
        cand += [(('cjmp', t.name), [t, t], cj), (('load', t.name), [t], mem(t, False)),
                 (('store', t.name), [t], mem(t, True))]
        for key, params, body in cand:
            if compile_module(_tiny(t, params, body), 'f').error is None:
                s.add(key)
        for src in TYPES:
            if compile_module(_tiny(t, [src], lambda add, p, *_: add(ir.Cast(p[0], 'r', t))), 'f').error is None:
                s.add(('cast', src.name, t.name))
    _SUPPORT['s'] = s
    return s


# ---------------------------------------------------------------- generator
class _Env:
    """values dominating the insertion point + initialised bytes of the stack block"""
    def __init__(self, vals=(), init=()):
        self.vals, self.init = list(vals), set(init)

    def copy(self):
        return _Env(self.vals, self.init)


class _Gen:
    MEMSIZE = 16

    def __init__(self, rng, size, feats, avoid):
        self.rng, self.feats, self.avoid, self.sup = rng, feats, avoid, support()
        self.types = list(TYPES) if 'subword' in feats else [ir.i32, ir.u32]
        self.track = 'inplace' in avoid
        self.nosub = 'subword_shr_div_cmp' in avoid
        self.n = self.nblocks = self.ncls = self.loop = self.nloops = 0
        self.cls, self.cls_loop, self.dead, self.pinned, self.used, self.seen = {}, {}, set(), set(), set(), set()
        self.hold, self.members = set(), {}
        self.budget = 6 + 6 * size
        self.m = ir.Module('m')
        self.f = ir.Function('f', ir.Binding.GLOBAL, rng.choice(self.types))
        self.m.add_function(self.f)
        self.ptypes = [rng.choice(self.types) for _ in range(rng.randint(1, 4))]
        env = _Env()
        for k, t in enumerate(self.ptypes):
            p = ir.Parameter('p%d' % k, t)
            self.f.add_parameter(p)
            self.newcls(p)
            env.vals.append(p)
        self.cur = self.block('entry')
        self.base = None
        if 'mem' in feats and rng.random() < 0.6:
            self.base = self.emit(ir.AddressOf(self.emit(ir.Alloc(self.nm('blk'), self.MEMSIZE, 4)), self.nm('base')))
        for _ in range(rng.randint(1, 1 + size)):
            self.segment(env, 0)
        self.finish(env)
        verify_module(self.m)

    # -- plumbing
    def nm(self, hint='v'):
        self.n += 1
        return '%s%d' % (hint, self.n)

    def block(self, hint):
        b = ir.Block('%s%d' % (hint, self.nblocks))
        self.nblocks += 1
        self.f.add_block(b)
        if self.f.entry is None:
            self.f.entry = b
        return b

    def newcls(self, v, loop=None):
        self.ncls += 1
        self.cls[id(v)] = self.ncls
        self.members[self.ncls] = [v]
        self.cls_loop[self.ncls] = self.loop if loop is None else loop

    def emit(self, ins, alias=None):
        """alias: value whose machine register the result shares (truncating / same-size casts)"""
        self.cur.add_instruction(ins)
        if isinstance(ins, ir.Value):
            if alias is not None and id(alias) in self.cls:
                self.cls[id(ins)] = self.cls[id(alias)]
                self.members[self.cls[id(alias)]].append(ins)
            else:
                self.newcls(ins)
        return ins

    def clobber(self, src, ins):
        """emit ins, which (in ppci riscv) overwrites the register of src: src and its aliases die"""
        if not self.track:
            return self.emit(ins)
        c = self.cls[id(src)]
        self.cur.add_instruction(ins)
        self.dead.add(c)
        self.newcls(ins, self.cls_loop[c])
        return ins

    def fresh(self, v):
        return self.emit(ir.Binop(v, '+', self.const(v.ty, 0), self.nm('cp'), v.ty))

    def victim(self, v):
        """v, or a private copy of it when v has to stay intact (only when 'inplace' is avoided)"""
        c = self.cls[id(v)]
        if self.track and (id(v) in self.pinned or c in self.hold or self.cls_loop[c] != self.loop or self.busy(c)):
            return self.fresh(v)
        return v

    def busy(self, c):
        """some instruction already reads the register of class c: ppci evaluates single-use expressions
        at their use, i.e. possibly after a later instruction overwrote that register"""
        mem = self.members[c]
        return any(not any(u is m for m in mem) for v in mem for u in v.used_by)

    def ok(self, v):
        return self.cls[id(v)] not in self.dead and ('multiuse' in self.feats or id(v) not in self.used)

    def const(self, t, v=None):
        if v is None:
            lo, hi = trange(t)
            pool = [c for c in CONSTS if lo <= c <= hi] if 'consts' in self.feats else [0, 1, 2, 3, 5, 7]
            v = self.rng.choice(pool)
        return self.emit(ir.Const(v, self.nm('c'), t))

    def pick(self, env, t, hold=True):
        """a usable value of type t; hold: it must survive until the end of the current statement"""
        rng = self.rng
        c = [v for v in env.vals if v.ty is t and self.ok(v)]
        if c and rng.random() < 0.8:
            v = rng.choice(c[-6:])
        else:
            o = [v for v in env.vals if v.ty is not t and self.ok(v)]
            if o and 'casts' in self.feats and rng.random() < 0.6:
                v = self.cast(self.use(rng.choice(o)), t)
            else:
                v = self.const(t)
            env.vals.append(v)
        if hold:
            self.hold.add(self.cls[id(v)])
        return self.use(v)

    def use(self, v):
        self.used.add(id(v))
        return v

    def cast(self, v, t):
        s = v.ty
        self.seen.add('casts')
        if t.bits > s.bits:
            if s.signed and not t.signed and 'signed_to_unsigned_widen' in self.avoid:
                return self.cast(self.cast(v, wide(s) if t.bits == 32 else ir.i16), t)
            v = self.victim(v)
            return self.clobber(v, ir.Cast(v, self.nm('w'), t))
        return self.emit(ir.Cast(v, self.nm('t'), t), alias=v)

    def widen2(self, a, b):
        """both operands in the 32-bit type of the same signedness"""
        if self.track and self.cls[id(a)] == self.cls[id(b)]:
            b = self.fresh(b)
        self.hold -= {self.cls[id(a)], self.cls[id(b)]}
        w = wide(a.ty)
        return self.cast(a, w), self.cast(b, w)

    def safe_op(self, t, op, a, b):
        if t is ir.i32 and 'negconst' in self.avoid and op in ('+', '&', '|', '^') and any(
                isinstance(x, ir.Const) and x.value < -2048 for x in (a, b)):
            return self.rng.choice(['-', '*'])
        return op

    # -- straight-line code
    def binop(self, env, t):
        rng, sup = self.rng, self.sup
        op = rng.choice([o for o in BINOPS if (o, wide(t).name) in sup])
        a = self.pick(env, t)
        lo, hi = trange(t)
        if op in ('/', '%'):
            if rng.random() < 0.4:
                b = self.const(t, rng.choice([1, 2, 3, 7, 10, hi] + ([-2, -3, -7, lo] if t.signed else [])))
            elif t.signed:
                m = self.emit(ir.Binop(self.pick(env, t), '&', self.const(t, hi >> 1), self.nm('dm'), t))
                b = self.emit(ir.Binop(m, '+', self.const(t, 1), self.nm('d'), t))
            else:
                b = self.emit(ir.Binop(self.pick(env, t), '|', self.const(t, 1), self.nm('d'), t))
        elif op in ('<<', '>>', 'rol', 'ror'):
            if rng.random() < 0.6:
                b = self.const(t, rng.randint(0, t.bits - 1))
            else:
                b = self.emit(ir.Binop(self.pick(env, t), '&', self.const(t, t.bits - 1), self.nm('sh'), t))
        elif 'multiuse' in self.feats and rng.random() < 0.15:
            b = a
        else:
            b = self.pick(env, t)
        narrow = t.bits < 32
        if narrow and ((op, t.name) not in sup or (self.nosub and op in ('>>', '/', '%'))):
            if 'casts' not in self.feats:
                op = rng.choice(['+', '-', '^'])
            else:
                a, b = self.widen2(a, b)
                self.seen.add('widened:' + op)
                return self.cast(self.emit(ir.Binop(a, op, b, self.nm('wb'), a.ty)), t)
        op = self.safe_op(t, op, a, b)
        self.seen.add('arith')
        if narrow and t.signed and op == '>>':            # SHRI8/SHRI16 sign-extend a's register in place
            self.hold.discard(self.cls[id(a)])
            a = self.victim(a)
            return self.clobber(a, ir.Binop(a, op, b, self.nm('b'), t))
        return self.emit(ir.Binop(a, op, b, self.nm('b'), t))

    def unop(self, env, t):
        ops = [(k, o) for k, o in (('neg', '-'), ('inv', '~')) if (k, t.name) in self.sup]
        if not ops:
            return self.binop(env, t)
        a = self.victim(self.pick(env, t, hold=False))
        self.seen.add('unop')
        return self.clobber(a, ir.Unop(self.rng.choice(ops)[1], a, self.nm('u'), t))

    def ptr_at(self, off):
        if off == 0:
            return self.base
        o = self.emit(ir.Cast(self.const(self.rng.choice([ir.i32, ir.u32]), off), self.nm('o'), ir.ptr))
        return self.emit(ir.Binop(self.base, '+', o, self.nm('p'), ir.ptr))

    def memop(self, env):
        rng = self.rng
        loads = [(t, o) for t in self.types if ('load', t.name) in self.sup
                 for o in range(0, self.MEMSIZE, t.bits // 8) if set(range(o, o + t.bits // 8)) <= env.init]
        self.seen.add('mem')
        if loads and rng.random() < 0.5:
            t, o = rng.choice(loads)
            return self.emit(ir.Load(self.ptr_at(o), self.nm('ld'), t))
        t = rng.choice([t for t in self.types if ('store', t.name) in self.sup])
        o = rng.randrange(0, self.MEMSIZE, t.bits // 8)
        self.emit(ir.Store(self.pick(env, t), self.ptr_at(o)))
        env.init |= set(range(o, o + t.bits // 8))
        return None

    def straight(self, env, n):
        rng, feats = self.rng, self.feats
        for _ in range(n):
            if self.budget <= 0:
                return
            self.budget -= 1
            self.hold.clear()
            t = rng.choice(self.types)
            r = rng.random()
            if r < 0.15 and 'unop' in feats:
                v = self.unop(env, t)
            elif r < 0.30 and 'casts' in feats:
                v = self.cast(self.pick(env, rng.choice([s for s in self.types if s is not t]), hold=False), t)
            elif r < 0.45 and self.base is not None:
                v = self.memop(env)
            elif r < 0.52:
                v = self.const(t)
            elif 'arith' in feats:
                v = self.binop(env, t)
            else:
                v = self.emit(ir.Binop(self.pick(env, t), '+', self.pick(env, t), self.nm('b'), t))
            if v is not None:
                env.vals.append(v)

    # -- control flow
    def cmp_type(self):
        ts = [t for t in self.types if ('cjmp', t.name) in self.sup and not (self.nosub and t.bits < 32)]
        return self.rng.choice(ts)

    def segment(self, env, depth):
        rng = self.rng
        kinds = ['straight'] + [k for k in ('diamond', 'loop') if k in self.feats and depth < 2]
        kind = rng.choice(kinds) if self.budget > 0 else 'straight'
        self.hold.clear()
        if kind == 'straight':
            return self.straight(env, rng.randint(1, 4))
        self.seen.add(kind)
        if kind == 'diamond':
            t = rng.choice([t for t in self.types if ('cjmp', t.name) in self.sup])
            a, b = self.pick(env, t), self.pick(env, t)
            if t.bits < 32 and self.nosub:
                if 'casts' in self.feats:
                    a, b = self.widen2(a, b)
                else:
                    a, b = self.const(ir.i32), self.pick(env, ir.i32) if ir.i32 in self.types else self.const(ir.i32)
            yes, no, join = self.block('then'), self.block('else'), self.block('join')
            self.emit(ir.CJump(a, rng.choice(ir.CJump.conditions), b, yes, no))
            pt, outs = rng.choice(self.types), []
            for blk in (yes, no):
                self.cur = blk
                e2 = env.copy()
                self.straight(e2, rng.randint(0, 3))
                if rng.random() < 0.3:
                    self.segment(e2, depth + 1)
                self.hold.clear()
                v = self.pick(e2, pt)
                self.emit(ir.Jump(join))
                outs.append((self.cur, v, e2.init))
            self.cur = join
            ph = self.emit(ir.Phi(self.nm('phi'), pt))
            for blk, v, _ in outs:
                ph.set_incoming(blk, v)
            env.init |= outs[0][2] & outs[1][2]
            env.vals.append(ph)
            return
        # counted loop, trip count <= 7, up or down counting
        t, at = self.cmp_type(), rng.choice(self.types)
        if rng.random() < 0.5:
            n = self.const(t, rng.randint(0, 7))
        else:
            n = self.emit(ir.Binop(self.pick(env, t), '&', self.const(t, 7), self.nm('n'), t))
        zero, one, acc0 = self.const(t, 0), self.const(t, 1), self.pick(env, at)
        pre, head, body, done = self.cur, self.block('head'), self.block('body'), self.block('done')
        self.emit(ir.Jump(head))
        saved, self.nloops = self.loop, self.nloops + 1
        self.loop, self.cur = self.nloops, head
        i, acc = self.emit(ir.Phi(self.nm('i'), t)), self.emit(ir.Phi(self.nm('acc'), at))
        self.pinned |= {id(i), id(acc)}
        up, cond = rng.choice([(True, '<'), (True, '!='), (False, '>'), (False, '!=')])
        self.emit(ir.CJump(i, cond, n if up else zero, body, done))
        env.vals += [n, i, acc]
        self.cur, e2 = body, env.copy()
        self.straight(e2, rng.randint(1, 3))
        if rng.random() < 0.3:
            self.segment(e2, depth + 1)
        ops = [o for o in ('+', '^', '-', '*') if (o, at.name) in self.sup]
        self.hold.clear()
        acc2 = self.emit(ir.Binop(acc, rng.choice(ops), self.pick(e2, at), self.nm('acc'), at))
        i2 = self.emit(ir.Binop(i, '+' if up else '-', one, self.nm('i'), t))
        self.emit(ir.Jump(head))
        i.set_incoming(pre, zero if up else n)
        i.set_incoming(self.cur, i2)
        acc.set_incoming(self.cur, acc2)
        acc.set_incoming(pre, acc0)
        self.loop, self.cur = saved, done

    def finish(self, env):
        """return a combination of the most recent live values so that few computations are dead"""
        rt, rng = self.f.return_ty, self.rng
        live = [v for v in env.vals if self.ok(v) and ('casts' in self.feats or v.ty is rt)]
        self.hold.clear()
        r = None
        for v in live[-rng.randint(1, 3):] or [self.const(rt)]:
            if not self.ok(v) or self.cls[id(v)] in self.hold:
                continue
            v = self.use(v) if v.ty is rt else self.cast(self.use(v), rt)
            r = v if r is None else self.emit(ir.Binop(r, self.safe_op(rt, rng.choice(['+', '^']), r, v), v,
                                                       self.nm('r'), rt))
            self.hold = {self.cls[id(r)]}
        self.emit(ir.Return(r if r is not None else self.const(rt)))


def _norm(names, allowed, what):
    names = tuple(allowed) if names is None else tuple(names)
    bad = [x for x in names if x not in allowed]
    if bad:
        raise ValueError('unknown %s: %r' % (what, bad))
    return names


def gen_function(rng, size=3, features=None, avoid=()):
    g = _Gen(rng, size, _norm(features, FEATURES, 'features'), _norm(avoid, AVOID, 'avoid'))
    g.m.e2e_seen = g.seen
    return g.m, 'f', g.ptypes


def gen_args(rng, param_types):
    out = []
    for t in param_types:
        lo, hi = trange(t)
        if rng.random() < 0.7:
            pool = [c for c in (0, 1, 2, -1, -2, lo, lo + 1, hi, hi - 1, 127, 128, 255, 256, 2047, 2048, -2048,
                                -2049, 32767, 32768, 65535, 65536, 0x7fffffff, 0x80000000, 0x12345678) if lo <= c <= hi]
            out.append(rng.choice(pool))
        else:
            out.append(rng.randint(lo, hi))
    return out


# ---------------------------------------------------------------- compile / run / reference
class Image:
    def __init__(self, mem=None, entry=0, error=None):
        self.mem, self.entry, self.error = mem, entry, error


def compile_module(module, fname):
    try:
        obj = api.ir_to_object([module], arch())
        lo = api.link([obj], layout=io.StringIO(LAYOUT))
        mem = {}
        for img in lo.images:
            for i, b in enumerate(img.data):
                mem[img.address + i] = b
        return Image(mem, lo.get_symbol_value(fname))
    except Exception as ex:                       # any ppci failure on verifier-clean IR
        return Image(error='%s: %s' % (type(ex).__name__, str(ex)[:300]))


def run_image(image, args, ret_type):
    if image.error is not None:
        return ('compile_error', image.error)
    if len(args) > 6:
        return ('exec_error', 'more than 6 arguments')
    s = RV.State(pc=image.entry, mem=image.mem)
    s.regs[1], s.regs[2] = STOP, STACK_TOP
    for r, a in zip(range(12, 18), args):
        s.regs[r] = RV.u32(a)
    try:
        RV.run(s, STOP, STEPS)
    except Exception as ex:
        return ('exec_error', '%s: %s' % (type(ex).__name__, str(ex)[:200]))
    return ('ok', wrap(ret_type, s.regs[10]))


def compile_and_run(module, fname, args, param_types=None, ret_type=None):
    if ret_type is None:
        ret_type = _func(module, fname).return_ty
    return run_image(compile_module(module, fname), args, ret_type)


def _func(module, fname):
    return [f for f in module.functions if f.name == fname][0]


def reference(module, fname, args):
    cfg = (4,) + tuple(irsem_py.DEFAULT_CFG[1:])
    out = irsem_py.run_main(module, fname, list(args), fuel=FUEL, cfg=cfg)
    if isinstance(out, irsem_py.OkV) and isinstance(out.v[0], int):
        return ('ok', out.v[0])
    return ('skip', repr(out)[:80])


def module_text(module):
    f = io.StringIO()
    print_module(module, file=f, verify=False)
    return f.getvalue()


def replay_ir(ir_text, args, ret_type=None, fname=None):
    m = read_module(io.StringIO(ir_text))
    fname = fname or m.functions[0].name
    rt = _func(m, fname).return_ty if ret_type is None else (
        ret_type if not isinstance(ret_type, str) else [t for t in TYPES if t.name == ret_type][0])
    return compile_and_run(m, fname, args, None, rt), reference(m, fname, args)


# ---------------------------------------------------------------- classification
def _constructs(module):
    """(keys, families): constructs of the function(s) and the known defect families they may trigger"""
    keys, fam, seen_kill = set(), set(), {}
    for f in module.functions:
        for b in f.blocks:
            for i in b.instructions:
                for u in (i.uses if hasattr(i, 'uses') else ()):
                    if id(u) in seen_kill:
                        fam.add('inplace')
                if isinstance(i, ir.Binop):
                    keys.add('%s:%s' % (i.operation, i.ty.name))
                    if i.ty is ir.i32 and i.operation in '+&|^' and any(
                            isinstance(x, ir.Const) and x.value < -2048 for x in (i.a, i.b)):
                        fam.add('negconst')
                    if i.ty.name in ('i8', 'i16', 'u8', 'u16') and i.operation in ('>>', '/', '%'):
                        fam.add('subword_shr_div_cmp')
                        if i.ty.signed:
                            seen_kill[id(i.a)] = i
                elif isinstance(i, ir.Unop):
                    keys.add('%s:%s' % ('neg' if i.operation == '-' else 'inv', i.ty.name))
                    seen_kill[id(i.a)] = i
                elif isinstance(i, ir.Cast):
                    s, t = i.src.ty, i.ty
                    keys.add('cast:%s>%s' % (s.name, t.name))
                    if s in TYPES and t in TYPES and t.bits > s.bits:
                        seen_kill[id(i.src)] = i
                        if s.signed and not t.signed:
                            fam.add('signed_to_unsigned_widen')
                    elif s in TYPES and id(i.src) in seen_kill:
                        seen_kill[id(i)] = i
                elif isinstance(i, ir.Const):
                    if isinstance(i.value, int) and i.value < -2048:
                        keys.add('const<-2048')
                elif isinstance(i, ir.CJump):
                    keys.add('cmp%s:%s' % (i.cond, i.a.ty.name))
                    if i.a.ty.name in ('i8', 'i16', 'u8', 'u16'):
                        fam.add('subword_shr_div_cmp')
                elif isinstance(i, (ir.Load, ir.Store)):
                    keys.add('%s:%s' % (type(i).__name__.lower(), (i.ty if isinstance(i, ir.Load) else i.value.ty).name))
                elif isinstance(i, ir.Phi):
                    keys.add('phi:' + i.ty.name)
    return keys, fam


def _rec_module(rec):
    return rec['ir_text'] if isinstance(rec['ir_text'], ir.Module) else read_module(io.StringIO(rec['ir_text']))


def classify(rec):
    """stable grouping key: the sorted set of constructs occurring in the function"""
    return ','.join(sorted(_constructs(_rec_module(rec))[0]))


def families(rec):
    """known defect families whose trigger occurs syntactically ([] => candidate for a NEW family).
    'inplace' is flagged when a value is used (textually) after a Unop/widening cast/signed sub-word >>
    consumed it; loops re-executing such an instruction are not detected."""
    return sorted(_constructs(_rec_module(rec))[1])


# ---------------------------------------------------------------- search
def search(rng, n_modules, args_per_module=6, size=3, features=None, on_mismatch=None, avoid=()):
    stats = dict(modules=0, executions=0, skipped=0, compile_errors=0, exec_errors=0, mismatches=0,
                 mismatch_modules=0, features={})
    for _ in range(n_modules):
        m, fname, ptypes = gen_function(rng, size, features, avoid)
        rt = _func(m, fname).return_ty
        stats['modules'] += 1
        for k in m.e2e_seen:
            stats['features'][k] = stats['features'].get(k, 0) + 1
        image = compile_module(m, fname)
        bad = []
        for _ in range(args_per_module):
            args = gen_args(rng, ptypes)
            if image.error is not None:
                stats['compile_errors'] += 1
                bad.append(('compile_error', args, None, None, image.error))
                break
            exp = reference(m, fname, args)
            if exp[0] != 'ok':
                stats['skipped'] += 1
                continue
            stats['executions'] += 1
            act = run_image(image, args, rt)
            if act[0] != 'ok':
                stats['exec_errors'] += 1
                bad.append(('exec_error', args, exp[1], None, act[1]))
            elif act[1] != exp[1]:
                stats['mismatches'] += 1
                bad.append(('mismatch', args, exp[1], act[1], ''))
        if any(b[0] == 'mismatch' for b in bad):
            stats['mismatch_modules'] += 1
        if bad and on_mismatch is not None:
            kind, args, e, a, detail = bad[0]
            on_mismatch(dict(ir_text=module_text(m), args=args, expected=e, actual=a, kind=kind, detail=detail,
                             param_types=[t.name for t in ptypes], ret_type=rt.name,
                             all_bad=[(b[1], b[2], b[3]) for b in bad]))
    return stats


if __name__ == '__main__':
    import random
    import time
    seed = int(sys.argv[1]) if len(sys.argv) > 1 else 1
    n = int(sys.argv[2]) if len(sys.argv) > 2 else 100
    avoid = AVOID if len(sys.argv) > 3 and sys.argv[3] == 'all' else tuple(
        a for a in (sys.argv[3].split(',') if len(sys.argv) > 3 else []) if a and a != 'none')
    feats = sys.argv[4].split(',') if len(sys.argv) > 4 else None
    recs = []
    t0 = time.time()
    st = search(random.Random(seed), n, features=feats, on_mismatch=recs.append, avoid=avoid)
    print('avoid=%s  %.1f s' % (','.join(avoid) or '-', time.time() - t0))
    print(st)
    groups = {}
    for r in recs:
        k = r['kind'] + ' ' + ('/'.join(families(r)) or 'UNEXPLAINED')
        groups[k] = groups.get(k, 0) + 1
    for k in sorted(groups):
        print('%4d  %s' % (groups[k], k))
    recs.sort(key=lambda r: (bool(families(r)), len(r['ir_text'])))
    for r in recs[:3]:
        print('---', r['kind'], 'args', r['args'], 'expected', r['expected'], 'actual', r['actual'], r['detail'][:150])
        print('key:', classify(r)[:300])
        print(r['ir_text'][:1500])
