"""build a one-function IR module whose selection forest contains a given tree; run ir_to_object"""
import re


def parse_tree(s):
    s = s.strip()
    pos = [0]

    def tree():
        m = re.match(r'[A-Za-z0-9_]+', s[pos[0]:])
        name = m.group(0)
        pos[0] += len(name)
        kids = []
        if pos[0] < len(s) and s[pos[0]] == '(':
            pos[0] += 1
            kids.append(tree())
            while s[pos[0]] == ',':
                pos[0] += 1
                kids.append(tree())
            assert s[pos[0]] == ')'
            pos[0] += 1
        return (name, kids)
    t = tree()
    assert pos[0] == len(s), s
    return t


TY_RE = r'(I8|I16|I32|I64|U8|U16|U32|U64|F32|F64)'
BINOPS = {'ADD': '+', 'SUB': '-', 'MUL': '*', 'DIV': '/', 'REM': '%', 'OR': '|', 'SHL': '<<', 'SHR': '>>',
          'AND': '&', 'XOR': '^'}
UNOPS = {'NEG': '-', 'INV': '~'}


def build_module(tree, const_value=None, fprel_pad=0, reg_as_ptr=None):
    """tree: (name, kids). Returns an ir.Module with function `f` whose forest contains the tree."""
    from ppci import ir
    tys = {str(t).upper(): t for t in ir.value_types}
    m = ir.Module('replay')
    g = ir.Variable('gv', ir.Binding.GLOBAL, 16, 8)
    m.add_variable(g)
    params = []
    body = []
    cnt = [0]

    def nm(h):
        cnt[0] += 1
        return '%s%d' % (h, cnt[0])

    def as_ptr(v):
        if v.ty is ir.ptr:
            return v
        c = ir.Cast(v, nm('p'), ir.ptr)
        body.append(c)
        return c

    def expr(t):
        name, kids = t
        mm = re.fullmatch(r'([A-Z]+?)' + TY_RE, name)
        if name == 'LABEL':
            return g
        mt = re.fullmatch(TY_RE + 'TO' + TY_RE, name)
        if mt:
            a = expr(kids[0])
            c = ir.Cast(a, nm('c'), tys[mt.group(2)])
            body.append(c)
            return c
        op, ty = mm.group(1), tys[mm.group(2)]
        if op == 'REG':
            p = ir.Parameter(nm('a'), ir.ptr if reg_as_ptr and mm.group(2) in reg_as_ptr else ty)
            params.append(p)
            return p
        if op == 'CONST':
            v = const_value if const_value is not None else (1.0 if not ty.is_integer else 1)
            c = ir.Const(v, nm('k'), ty)
            body.append(c)
            return c
        if op == 'UND':
            u = ir.Undefined(nm('u'), ty)
            body.append(u)
            return u
        if op == 'FPREL':
            if fprel_pad:
                body.append(ir.Alloc(nm('pad'), fprel_pad, 8))
            a = ir.Alloc(nm('al'), 16, 8)
            body.append(a)
            ad = ir.AddressOf(a, nm('ad'))
            body.append(ad)
            return ad
        if op in BINOPS:
            a, b = expr(kids[0]), expr(kids[1])
            if a.ty is ir.ptr or b.ty is ir.ptr:
                a, b, ty = as_ptr(a), as_ptr(b), ir.ptr
            x = ir.Binop(a, BINOPS[op], b, nm('b'), ty)
            body.append(x)
            return x
        if op in UNOPS:
            a = expr(kids[0])
            x = ir.Unop(UNOPS[op], a, nm('u'), a.ty if a.ty is ir.ptr else ty)
            body.append(x)
            return x
        if op == 'LDR':
            a = as_ptr(expr(kids[0]))
            x = ir.Load(a, nm('l'), ty)
            body.append(x)
            return x
        raise ValueError('cannot build ' + name)

    name, kids = tree
    ret = None
    extra_blocks = []
    term = None
    mm = re.fullmatch(r'([A-Z]+?)' + TY_RE, name)
    if name == 'MOVB':
        d, s_ = as_ptr(expr(kids[0])), as_ptr(expr(kids[1]))
        body.append(ir.CopyBlob(d, s_, 8))
    elif name in ('JMP', 'CALL', 'ASM'):
        if name == 'CALL':
            e = ir.ExternalProcedure('ext', [])
            m.add_external(e)
            body.append(ir.ProcedureCall(e, []))
    elif mm and mm.group(1) == 'STR':
        a = as_ptr(expr(kids[0]))
        v = expr(kids[1])
        body.append(ir.Store(v, a))
    elif mm and mm.group(1) == 'CJMP':
        a, b = expr(kids[0]), expr(kids[1])
        b1, b2 = ir.Block('yes'), ir.Block('no')
        b1.add_instruction(ir.Exit())
        b2.add_instruction(ir.Exit())
        extra_blocks = [b1, b2]
        term = ir.CJump(a, '<', b, b1, b2)
    elif mm and mm.group(1) == 'MOV':
        ret = expr(kids[0])
    else:
        ret = expr(tree)
    if ret is not None and ret.ty is not ir.ptr and not isinstance(ret, (ir.Parameter,)):
        f = ir.Function('f', ir.Binding.GLOBAL, ret.ty)
    elif ret is not None:
        f = ir.Function('f', ir.Binding.GLOBAL, ret.ty)
    else:
        f = ir.Procedure('f', ir.Binding.GLOBAL)
    for p in params:
        f.add_parameter(p)
    m.add_function(f)
    entry = ir.Block('entry')
    f.add_block(entry)
    f.entry = entry
    for ins in body:
        entry.add_instruction(ins)
    if term is not None:
        entry.add_instruction(term)
        for b in extra_blocks:
            f.add_block(b)
    elif ret is not None:
        entry.add_instruction(ir.Return(ret))
    else:
        entry.add_instruction(ir.Exit())
    return m


def try_compile(module, march, opt='speed'):
    """returns None on success, else (exception class name, message)"""
    from ppci.api import ir_to_object
    from ppci.irutils.verify import verify_module
    verify_module(module)
    try:
        ir_to_object([module], march, opt=opt)
    except Exception as ex:   # noqa: BLE001
        return (type(ex).__name__, str(ex)[:200])
    return None


def pressure_module(n, nargs=0, with_call=True):
    """n volatile loads that stay live across a call and are summed in reverse order (register pressure)"""
    from ppci import ir
    ty = ir.i32
    m = ir.Module('press')
    g = ir.Variable('g', ir.Binding.GLOBAL, 4 * n + 64, 4)
    m.add_variable(g)
    f = ir.Function('f', ir.Binding.GLOBAL, ty)
    m.add_function(f)
    vals = []
    for i in range(nargs):
        p = ir.Parameter('a%d' % i, ty)
        f.add_parameter(p)
        vals.append(p)
    b = ir.Block('entry')
    f.add_block(b)
    f.entry = b
    for i in range(n):
        o = ir.Const(4 * i, 'o%d' % i, ir.i32)
        oc = ir.Cast(o, 'oc%d' % i, ir.ptr)
        a = ir.Binop(g, '+', oc, 'p%d' % i, ir.ptr)
        ld = ir.Load(a, 'l%d' % i, ty, True)
        for ins in (o, oc, a, ld):
            b.add_instruction(ins)
        vals.append(ld)
    if with_call:
        e = ir.ExternalFunction('ext', [ty] * 4, ty)
        m.add_external(e)
        c = ir.FunctionCall(e, vals[:4], 'r', ty)
        b.add_instruction(c)
        vals.append(c)
    acc = vals[-1]
    for i, v in enumerate(reversed(vals[:-1])):
        acc = ir.Binop(acc, '+', v, 's%d' % i, ty)
        b.add_instruction(acc)
    b.add_instruction(ir.Return(acc))
    return m


def ptr_module(int_types, ptr_bits):
    """pointer <-> integer traffic: one function per case so that failures are isolated"""
    from ppci import ir
    m = ir.Module('ptrs')
    g = ir.Variable('pg', ir.Binding.GLOBAL, 32, 8)
    m.add_variable(g)
    sw = [t for t in int_types if t.bits == ptr_bits and t.signed][0]
    uw = [t for t in int_types if t.bits == ptr_bits and not t.signed][0]

    def fn(name, ret, params):
        f = ir.Function(name, ir.Binding.GLOBAL, ret) if ret is not None else ir.Procedure(name, ir.Binding.GLOBAL)
        m.add_function(f)
        ps = []
        for i, t in enumerate(params):
            p = ir.Parameter('%s_a%d' % (name, i), t)
            f.add_parameter(p)
            ps.append(p)
        b = ir.Block(name + '_entry')
        f.add_block(b)
        f.entry = b
        return f, b, ps

    def em(b, ins):
        b.add_instruction(ins)
        return ins
    for t in int_types:
        n = str(t)
        f, b, (p,) = fn('p2i_' + n, t, [ir.ptr])
        em(b, ir.Return(em(b, ir.Cast(p, 'c', t))))
        f, b, (x,) = fn('i2p_' + n, ir.ptr, [t])
        em(b, ir.Return(em(b, ir.Cast(x, 'c', ir.ptr))))
        f, b, (p,) = fn('p2i_use_' + n, t, [ir.ptr])          # cast nested in an expression
        c = em(b, ir.Cast(p, 'c', t))
        k = em(b, ir.Const(3, 'k', t))
        em(b, ir.Return(em(b, ir.Binop(c, '&', k, 'r', t))))
    f, b, (p, q) = fn('pdiff', sw, [ir.ptr, ir.ptr])
    a1, a2 = em(b, ir.Cast(p, 'x', sw)), em(b, ir.Cast(q, 'y', sw))
    em(b, ir.Return(em(b, ir.Binop(a1, '-', a2, 'd', sw))))
    f, b, (p, q) = fn('pdiff_ptr', ir.ptr, [ir.ptr, ir.ptr])   # subtraction in the pointer type itself
    em(b, ir.Return(em(b, ir.Binop(p, '-', q, 'd', ir.ptr))))
    for k, cond in enumerate(['<', '==', '>=', '<=', '!=', '>']):
        f, b, (p, q) = fn('pcmp%d' % k, None, [ir.ptr, ir.ptr])
        y, nn = ir.Block('pcmp%d_y' % k), ir.Block('pcmp%d_n' % k)
        f.add_block(y)
        f.add_block(nn)
        em(b, ir.CJump(p, cond, q, y, nn))
        em(y, ir.Exit())
        em(nn, ir.Exit())
    f, b, (p,) = fn('pmask', uw, [ir.ptr])
    c = em(b, ir.Cast(p, 'c', uw))
    k = em(b, ir.Const(3, 'k', uw))
    em(b, ir.Return(em(b, ir.Binop(c, '&', k, 'r', uw))))
    f, b, (p,) = fn('pstore_int', ir.ptr, [ir.ptr])            # pointer stored as integer, loaded back
    al = em(b, ir.Alloc('slot', 16, 8))
    ad = em(b, ir.AddressOf(al, 'ad'))
    em(b, ir.Store(em(b, ir.Cast(p, 'c', uw)), ad))
    ld = em(b, ir.Load(ad, 'ld', uw))
    em(b, ir.Return(em(b, ir.Cast(ld, 'back', ir.ptr))))
    f, b, (p,) = fn('pstore_ptr', sw, [ir.ptr])               # pointer stored as pointer, loaded as integer
    em(b, ir.Store(p, g))
    ld = em(b, ir.Load(g, 'ld', sw))
    ldp = em(b, ir.Load(g, 'ldp', ir.ptr))
    em(b, ir.Return(em(b, ir.Binop(ld, '+', em(b, ir.Cast(ldp, 'c', sw)), 'r', sw))))
    f, b, _ = fn('fn2i', uw, [])
    em(b, ir.Return(em(b, ir.Cast(m.functions[0], 'c', uw))))
    f, b, _ = fn('glob2i', sw, [])
    em(b, ir.Return(em(b, ir.Cast(g, 'c', sw))))
    return m


def und_module(types):
    """used ir.Undefined of every value type: binop operand, stored, returned, call argument, phi input"""
    from ppci import ir
    m = ir.Module('unds')
    g = ir.Variable('ug', ir.Binding.GLOBAL, 16, 8)
    m.add_variable(g)

    def fn(name, ret, params):
        f = ir.Function(name, ir.Binding.GLOBAL, ret) if ret is not None else ir.Procedure(name, ir.Binding.GLOBAL)
        m.add_function(f)
        ps = []
        for i, t in enumerate(params):
            p = ir.Parameter('%s_a%d' % (name, i), t)
            f.add_parameter(p)
            ps.append(p)
        b = ir.Block(name + '_entry')
        f.add_block(b)
        f.entry = b
        return f, b, ps

    def em(b, ins):
        b.add_instruction(ins)
        return ins
    for t in types:
        n = str(t)
        op = '|' if t.is_integer else '+'
        f, b, (a,) = fn('und_bin_' + n, t, [t])
        u = em(b, ir.Undefined('u', t))
        em(b, ir.Return(em(b, ir.Binop(u, op, a, 'r', t))))
        f, b, _ = fn('und_ret_' + n, t, [])
        em(b, ir.Return(em(b, ir.Undefined('u', t))))
        f, b, _ = fn('und_store_' + n, None, [])
        em(b, ir.Store(em(b, ir.Undefined('u', t)), g))
        em(b, ir.Exit())
        e = ir.ExternalProcedure('uext_' + n, [t])
        m.add_external(e)
        f, b, _ = fn('und_arg_' + n, None, [])
        em(b, ir.ProcedureCall(e, [em(b, ir.Undefined('u', t))]))
        em(b, ir.Exit())
        f, b, (c, d) = fn('und_phi_' + n, t, [ir.i32, t])       # what mem2reg leaves for `T x; if (c) x = d; return x op d`
        u = em(b, ir.Undefined('u', t))
        zero = em(b, ir.Const(0, 'z', ir.i32))
        b1, b2 = ir.Block('und_phi_%s_then' % n), ir.Block('und_phi_%s_join' % n)
        f.add_block(b1)
        f.add_block(b2)
        em(b, ir.CJump(c, '==', zero, b2, b1))
        x1 = em(b1, ir.Binop(d, op, d, 'x1', t))
        em(b1, ir.Jump(b2))
        ph = em(b2, ir.Phi('x', t))
        ph.set_incoming(b, u)
        ph.set_incoming(b1, x1)
        em(b2, ir.Return(em(b2, ir.Binop(ph, op, d, 'r', t))))
    return m
