"""C06 — register allocation never clobbers a live value (DESIGN §4 C06, pattern V).

Verified validator: Model/RegAllocCheck.v (check_frame) with soundness theorems in Props/C06.v.
This module wraps GraphColoringRegisterAllocator.alloc_frame (monkeypatch inside the check
process, no source hooks), dumps every frame before/after allocation for generated programs on
several targets, computes a liveness certificate and lets the Coq validator decide each frame.
A rejected frame is handed to an independent Python interpreter of the abstract machine that
searches for a distinguishing semantics/state before a violation is reported.
"""
import io
import json
import os
import random
import sys
import time

LEVEL = 'translation_validation'
RULE = ('programs: seeded random C (c3 for avr) functions built from templates that create register pressure '
        '(many simultaneously live values, deep expressions), loops, calls with many arguments, mixed integer '
        'widths (aliasing register classes), pointers, division/shifts (fixed registers), compiled at opt level '
        '0 and 2 for each target; every frame handed to alloc_frame is one case; a frame is non-trivial when it '
        'has >= 8 virtual registers and >= 1 interference check between distinct registers; distinct = distinct '
        '(target, instruction-shape, colouring) digest')
EXPLANATION = ('translation validation: the Coq function check_frame (computes a liveness table and validates it as a '
               'post-fixpoint; interference/alias check with the move exception; deleted instructions are same-colour '
               'copies; physical registers keep their colour; rewritten program = renamed program without the deleted '
               'copies) is proved sound for all instruction semantics, all alias effects and all machine states '
               '(c06_check_alloc_sound: lock-step simulation, every live register agrees, every read returns the '
               'virtual program\'s value; c06_compact_sound: deleting the no-op entries; c06_liveness_fixpoint_sound; '
               'c06_no_shared_live + c06_shared_are_copies) and is run on every frame (last colouring round) the real '
               'allocator produces for the generated programs. Spill-code insertion (rewrite_program, every earlier round) '
               'is validated by a second verified validator check_spill (fact certificate per program point; '
               'c06_check_spill_sound: the rewritten program simulates the program before the round for every '
               'semantics/state: non-spilled registers equal, slot or pending temporary holds each live spilled value, '
               'same reads; physical scratch registers overwritten by spill code (AVR: Z) are tracked as dirty and must '
               'not be read before both programs rewrite them; c06_slots_disjoint_sound); quick tier: a size-bounded '
               'selection of rounds covering every target, thorough: up to 9 MB of rounds (normally all). The real load/store instructions are abstracted to XLoad/XStore of the '
               'slot (tagging by the harness from what insert_code_before/after received); their address operands and '
               'in-order address computation are checked structurally in Python (check_spill_py) and by the entry-live '
               'check (c06_entry_live_sound). Hand models (tie H) of FlowGraph.calculate_liveness '
               '(c06_liveness_model_fixpoint) and InterferenceGraph.calculate_interference (c06_interference_complete) '
               'are compared with the real algorithms\' results per frame (frames up to 80 nodes / 160 instructions). Pairs of two physical registers named by the input program are not '
               'checked (their aliasing is the hardware\'s, identical before and after) unless the instruction is deleted.')
TRUSTED = ['frame dump (this module): used/defined registers, clobbers, ismove, jumps are read through the same '
           'Instruction properties the allocator reads; register identity = Python object identity for virtual '
           'registers, (class, name) for physical ones; physical register of a coloured virtual register = '
           'get_real() (class.from_num(color))',
           'control-flow reading of FlowGraph: a non-empty ins.jumps is the complete successor list, otherwise fall through',
           'arch.info.alias is the alias relation of the target (symmetrised by the validator)',
           'the liveness table is computed inside Coq by an unverified iteration and then validated by check_live '
           '(nothing trusted there); jump targets are passed as instruction indices computed by this module',
           'that the machine instructions really read/write only what they declare is property C07, not C06']
ASSUMPTIONS = ['spill model: the target\'s generated spill load/store instructions behave as a load/store of the slot '
               'allocated for the spilled node (instruction selection, not register allocation)',
               'abstract machine: a write changes every aliasing register by an arbitrary function of (program point, both '
               'registers, value written, old contents); instruction results and branch decisions are arbitrary '
               'functions of the values read; an instruction flagged ismove with one use and one def copies',
               'spill slots and memory are outside the abstract machine; spill rewriting is checked structurally in Python']
MANIFEST = {
    'text': 'translation_validation: a Coq-verified certificate checker decides, for every frame the real allocator '
            'produced for the generated programs on each target, that the colouring preserves every live value '
            '(simulation for all instruction semantics and all states); proved once, run per frame',
    'note': 'trusted: frame dump, CFG reading and spill-code tagging (tools/props/c06.py), arch.info.alias, Coq kernel; that '
            'instructions read/write what they declare is C07; real load/store semantics are abstracted. Spill rounds: '
            'verified validator check_spill (whole-program simulation) + Python structural check. Hand models of '
            'calculate_liveness / calculate_interference with theorems, compared per frame. The guarantee is per validated '
            'frame, not for all programs. No axioms.',
    'technique': 'verified validator (Coq) + per-frame certificates + interpreter-confirmed rejections',
}

from vlib import REPO  # noqa: E402


# ===================================================================== register files: ground truth
REGFILE_TARGETS = ['x86_64', 'arm', 'arm:thumb', 'riscv', 'msp430', 'avr', 'or1k', 'microblaze', 'mips', 'xtensa',
                   'm68k', 'stm8', 'mcs6500']
_X86_FAM = {'a': 'a', 'b': 'b', 'c': 'c', 'd': 'd'}


def _x86_truth(name, bits):
    """(family, set of byte positions) of an x86_64 register from its architectural NAME (independent of
    Register.aliases / num)"""
    import re
    m = re.fullmatch(r'xmm(\d+)', name)
    if m:
        return ('xmm' + m.group(1), frozenset(range(bits // 8)))
    m = re.fullmatch(r'r(\d+)([dwb]?)', name)
    if m:
        n = {'': 8, 'd': 4, 'w': 2, 'b': 1}[m.group(2)]
        return ('r' + m.group(1), frozenset(range(n)))
    m = re.fullmatch(r'([re]?)([abcd])x', name)
    if m:
        return (m.group(2), frozenset(range({'r': 8, 'e': 4, '': 2}[m.group(1)])))
    m = re.fullmatch(r'([abcd])([lh])', name)
    if m:
        return (m.group(1), frozenset([0] if m.group(2) == 'l' else [1]))
    m = re.fullmatch(r'([re]?)(si|di|bp|sp)(l?)', name)
    if m and not (m.group(1) and m.group(3)):
        n = 1 if m.group(3) else {'r': 8, 'e': 4, '': 2}[m.group(1)]
        return (m.group(2), frozenset(range(n)))
    return None


def _avr_truth(name, bits):
    import re
    m = re.fullmatch(r'r(\d+)', name)
    if m:
        return ('gpr', frozenset([int(m.group(1))]))
    m = re.fullmatch(r'r(\d+):r(\d+)', name)
    if m and int(m.group(1)) == int(m.group(2)) + 1:
        return ('gpr', frozenset([int(m.group(2)), int(m.group(1))]))
    if name in ('W', 'X', 'Y', 'Z'):
        lo = {'W': 24, 'X': 26, 'Y': 28, 'Z': 30}[name]
        return ('gpr', frozenset([lo, lo + 1]))
    return None


def truth_overlap(march, arch):
    """ground-truth overlap relation {(class, name): set of (class, name) incl. itself} computed from the
    architectural register NAMES (x86_64: rax>eax>ax>al/ah ..., avr: rN+1:rN = {rN, rN+1}, W/X/Y/Z), or
    None when no independent description is available for the target"""
    fn = {'x86_64': _x86_truth, 'avr': _avr_truth}.get(march)
    if fn is None:
        return None
    regs = {}
    for r in arch.info.alias:
        regs[(type(r).__name__, r.name)] = fn(r.name, getattr(type(r), 'bitsize', 8))
    out = {}
    for k, t in regs.items():
        if t is None:
            out[k] = None
            continue
        out[k] = set(k2 for k2, t2 in regs.items() if t2 is not None and t2[0] == t[0] and (t2[1] & t[1]))
    return out


def check_register_files(ctx):
    """every run, all targets: arch.info.alias (what assign_colors/has_edge and this validator use) against the
    ground truth where available, generic well-formedness elsewhere"""
    from ppci.api import get_arch
    stats = {}
    for march in REGFILE_TARGETS:
        try:
            arch = get_arch(march)
            table = arch.info.alias
        except Exception as ex:   # noqa: BLE001
            stats[march] = 'unavailable: %s' % type(ex).__name__
            continue
        key = lambda r: (type(r).__name__, r.name)    # noqa: E731
        tbl = {key(r): set(key(x) for x in s2) for r, s2 in table.items()}
        problems = []
        for k, s2 in tbl.items():
            for q in s2:
                if q not in tbl or k not in tbl[q]:
                    problems.append((k, 'alias relation not symmetric with %s' % (q,), sorted(s2), None))
        by = {key(r): r for r in table}
        for k, s2 in tbl.items():
            for q in s2:
                if q != k and q in by and type(by[q]) is type(by[k]) and \
                        getattr(type(by[q]), 'bitsize', 0) == getattr(type(by[k]), 'bitsize', 1) and march not in ('x86_64',):
                    problems.append((k, 'aliases a distinct register of the same class and size: %s' % (q,), sorted(s2), None))
        truth = truth_overlap(march, arch)
        if truth is not None:
            for k, t in truth.items():
                if t is None:
                    problems.append((k, 'register name not covered by the ground-truth description', sorted(tbl[k]), None))
                elif t - {k} != tbl[k] - {k}:     # (self entries exist only for registers of a register class)
                    problems.append((k, 'alias table differs from the physical overlap', sorted(tbl[k]), sorted(t)))
        stats[march] = {'registers': len(tbl), 'ground_truth': truth is not None, 'problems': len(problems)}
        for k, what, actual, expected in problems[:6]:
            ctx.violation({'fn': 'arch.info.alias', 'key': 'regfile:%s:%s' % (march, k[1]), 'args': [march, k[1]],
                           'what': what, 'expected': [list(x) for x in expected] if expected is not None else 'well-formed alias relation',
                           'actual': [list(x) for x in actual],
                           'how_to_replay': 'PYTHONPATH=/repo python -c "from ppci.api import get_arch; a=get_arch(%r); '
                                            'print({r.name: sorted(x.name for x in s) for r, s in a.info.alias.items() if r.name == %r})"'
                                            % (march, k[1])})
    ctx.cov['stages']['register_files'] = stats


# ===================================================================== capture
class Capture:
    def __init__(self):
        self.frames = []
        self.installed = False
        self.current = None

    @staticmethod
    def rkey(reg):
        if reg._num is not None:
            return ('P', type(reg).__name__, reg.name)
        return ('V', id(reg))

    def real_of(self, reg, arch):
        """physical register object (or synthetic key) of a coloured register"""
        if reg._num is not None:
            return (type(reg).__name__, reg.name)
        try:
            r = reg.get_real()
            return (type(r).__name__, r.name)
        except NotImplementedError:
            pass
        cands = []
        for r in arch.info.alias:
            if r.num == reg.color and isinstance(r, type(reg)):
                cands.append(r)
        exact = [r for r in cands if type(r) is type(reg)]
        if exact:
            return (type(exact[0]).__name__, exact[0].name)
        if cands:
            return (type(cands[0]).__name__, cands[0].name)
        for rc in arch.info.register_classes:
            for r in rc.registers:
                if r.num == reg.color and isinstance(r, type(reg)):
                    return (type(r).__name__, r.name)
        return (type(reg).__name__, '#%d' % reg.color)

    def snap(self, frame, regs, arch):
        out = []
        for ins in frame.instructions:
            u = list(ins.used_registers)
            d = list(ins.defined_registers)
            c = list(ins.clobbers)
            for r in u + d + c:
                k = self.rkey(r)
                if k not in regs:
                    regs[k] = (r, r.color, self.real_of(r, arch) if r.is_colored else None)
            try:
                txt = str(ins)[:70]
            except Exception:   # noqa: BLE001  (some register classes cannot print a coloured virtual register)
                txt = type(ins).__name__
            out.append({'id': id(ins), 'txt': txt, 'uses': [self.rkey(r) for r in u],
                        'defs': [self.rkey(r) for r in d], 'clob': [self.rkey(r) for r in c],
                        'move': bool(ins.ismove), 'jumps': [id(j) for j in ins.jumps]})
        return out

    @staticmethod
    def finalise(rec):
        """replace Python object identities by small frame-local numbers and drop every object
        reference (objects were kept alive until here, so identities were unique)"""
        imap, vmap = {}, {}

        def ii(x):
            return imap.setdefault(x, len(imap))

        def vk(k):
            if k[0] == 'V':
                return ('V', vmap.setdefault(k[1], len(vmap)))
            return k
        for prog in [rec['entry']] + rec['rounds'] + [rec['after']]:
            for i in prog:
                i['id'] = ii(i['id'])
            for i in prog:
                i['jumps'] = [ii(j) for j in i['jumps']]
                for f in ('uses', 'defs', 'clob'):
                    i[f] = [vk(k) for k in i[f]]
        rec['regs'] = {vk(k): (None, c0, p0) for k, (r, c0, p0) in rec['regs'].items()}
        rec['color'] = {vk(k): v for k, v in rec['color'].items()}
        rec['pre'] = {vk(k): v for k, v in rec['pre'].items()}
        rec['own_live_out'] = {ii(k): set(vk(x) for x in v) for k, v in rec['own_live_out'].items()}
        for sp in rec['spills']:
            sp['temps'] = [(vk(t), b) for t, b in sp['temps']]
        if rec.get('fg'):
            for nd in rec['fg']:
                for f in ('gen', 'kill', 'lin', 'lout'):
                    nd[f] = [vk(x) for x in nd[f]]
        if rec.get('igm'):
            for i in rec['igm']['ins']:
                for f in ('defs', 'clob', 'lout'):
                    i[f] = [vk(x) for x in i[f]]
            rec['igm']['edges'] = [(vk(a), vk(b)) for a, b in rec['igm']['edges']]
        info = {}
        for k, v in rec.get('ins_info', {}).items():
            v = dict(v)
            v['anchor'] = ii(v['anchor'])
            if v['tag']:
                v['tag'] = (v['tag'][0], vk(v['tag'][1]))
            info[ii(k)] = v
        rec['ins_info'] = info
        rec.pop('keep_r', None)
        # spill rewriting is checked right away so that only the last round has to be kept
        rec['n_rounds'] = len(rec['rounds'])
        # virtual registers the allocator's INPUT program already reads before any write (not the allocator's doing)
        try:
            rec['entry_undef'] = set(k for k in liveness(rec['entry'])[0][0] if k[0] == 'V') if rec['entry'] else set()
        except Exception:   # noqa: BLE001
            rec['entry_undef'] = set()
        rec['spill_errs'] = check_spill_py(rec) if len(rec['rounds']) > 1 else []
        rec['spill_cases'] = []
        for r in range(len(rec['rounds']) - 1):
            try:
                rec['spill_cases'].append(encode_spill_round(rec, r))
            except Exception as ex:   # noqa: BLE001
                rec['spill_cases'].append((None, 'encoder: %r' % (ex,)))
        if rec['rounds']:
            rec['rounds'] = [rec['rounds'][-1]]
            rec['entry'] = None
        for i in rec['after']:
            i.pop('txt', None)

    def install(self):
        from ppci.codegen import registerallocator as ra
        cap = self
        cls = ra.GraphColoringRegisterAllocator
        self.cls = cls
        self.orig = {n: cls.__dict__.get(n) for n in ('alloc_frame', 'init_data', 'rewrite_program')}
        orig_alloc, orig_init, orig_rw = cls.alloc_frame, getattr(cls, 'init_data', None), getattr(cls, 'rewrite_program', None)

        def alloc_frame(self, frame):
            rec = {'name': frame.name, 'arch': self.arch.name, 'regs': {}, 'rounds': [], 'spills': []}
            rec['entry'] = cap.snap(frame, rec['regs'], self.arch)
            self._c06 = rec
            cap.current = rec
            try:
                r = orig_alloc(self, frame)
            finally:
                self._c06 = None
                cap.current = None
            rec['after'] = cap.snap(frame, {}, self.arch)
            rec['after_phys'] = []
            unc = []
            for i in frame.instructions:
                row = {}
                for f, regs in (('uses', i.used_registers), ('defs', i.defined_registers), ('clob', i.clobbers)):
                    row[f] = []
                    for x in regs:
                        if x.is_colored:
                            row[f].append(cap.real_of(x, self.arch))
                        else:
                            unc.append(str(x))
                            row[f].append(('?', str(x)))
                rec['after_phys'].append(row)
            rec['uncoloured'] = unc
            rec['color'] = {k: cap.real_of(r, self.arch) for k, (r, c0, p0) in rec['regs'].items() if r.is_colored}
            rec['pre'] = {k: p0 for k, (r, c0, p0) in rec['regs'].items() if p0 is not None}
            al = {}
            for r, s in self.arch.info.alias.items():
                al[(type(r).__name__, r.name)] = set((type(x).__name__, x.name) for x in s)
            # where an independent description exists (x86_64, avr) the validator uses the ground-truth
            # overlap, not the target's own alias table
            try:
                truth = truth_overlap(self.arch.name if self.arch.name in ('x86_64', 'avr') else '', self.arch)
            except Exception:   # noqa: BLE001
                truth = None
            if truth is not None and all(v is not None for v in truth.values()):
                al = truth
            rec['alias'] = al
            # the allocator's own liveness of the last round (for localisation statistics)
            own = {}
            for i in frame.instructions:
                lo = getattr(i, 'live_out', None)
                if lo is not None:
                    own[id(i)] = set(cap.rkey(x) for x in lo)
            rec['own_live_out'] = own
            cap.finalise(rec)
            cap.frames.append(rec)
            return r

        def init_data(self, frame):
            rec = getattr(self, '_c06', None)
            if rec is not None:
                rec['rounds'].append(cap.snap(frame, rec['regs'], self.arch))
                rec['keep_r'] = rec.get('keep_r', []) + [list(frame.instructions)]
            r = orig_init(self, frame)
            if rec is not None:
                # localisation aid: does the freshly built interference graph contain every pair the
                # validator will require (written register vs. register live across, by the allocator's
                # own liveness)?
                missing = []
                try:
                    ig = frame.ig
                    for ins in frame.instructions:
                        lo = getattr(ins, 'live_out', None)
                        if lo is None:
                            continue
                        for d in list(ins.defined_registers) + list(ins.clobbers):
                            for v in lo:
                                if v is d:
                                    continue
                                if d._num is not None and v._num is not None:
                                    continue
                                if not (ig.has_node(d) and ig.has_node(v) and ig.interfere(d, v)):
                                    missing.append((str(d), str(v)))
                except Exception as ex:   # noqa: BLE001
                    missing.append(('error', repr(ex)[:80]))
                rec['ig_missing'] = missing[:5]
                rec['ig_missing_n'] = len(missing)
            return r

        def rewrite_program(self, node):
            rec = getattr(self, '_c06', None)
            if rec is None:
                return orig_rw(self, node)
            slots = []
            fr = self.frame
            orig_frame_alloc = fr.alloc

            def alloc(size, alignment):
                loc = orig_frame_alloc(size, alignment)
                slots.append((loc.offset, loc.size))
                return loc
            fr.alloc = alloc
            o_after, o_before = fr.insert_code_after, fr.insert_code_before

            slot_id = len(rec['spills'])          # one slot per spilled node

            def note(instruction, code, side):
                # tag the inserted instructions; the slot access is the last inserted instruction that
                # defines a register the anchor reads (load) / reads a register the anchor defines (store)
                info = rec.setdefault('ins_info', {})
                rec.setdefault('keep_r', []).append(code)
                anchor_regs = set(id(x) for x in (instruction.used_registers if side == 'before'
                                                  else instruction.defined_registers))
                acc = None
                for ci in code:
                    regs = ci.defined_registers if side == 'before' else ci.used_registers
                    hit = [x for x in regs if id(x) in anchor_regs]
                    if hit:
                        acc = (ci, hit[0])
                for ci in code:
                    info[id(ci)] = {'side': side, 'anchor': id(instruction), 'slot': slot_id, 'tag': None}
                if acc is not None:
                    info[id(acc[0])]['tag'] = ('L' if side == 'before' else 'S', cap.rkey(acc[1]))

            def ins_after(instruction, code):
                code = list(code)
                rec['spill_seq_max'] = max(rec.get('spill_seq_max', 0), len(code))
                note(instruction, code, 'after')
                return o_after(instruction, code)

            def ins_before(instruction, code):
                code = list(code)
                rec['spill_seq_max'] = max(rec.get('spill_seq_max', 0), len(code))
                note(instruction, code, 'before')
                return o_before(instruction, code)
            fr.insert_code_after, fr.insert_code_before = ins_after, ins_before
            temps = [(cap.rkey(t), getattr(type(t), 'bitsize', None)) for t in node.temps]
            try:
                return orig_rw(self, node)
            finally:
                del fr.alloc
                del fr.insert_code_after
                del fr.insert_code_before
                rec['spills'].append({'round': len(rec['rounds']), 'temps': temps, 'slots': slots})

        # helper algorithms (tie H): record inputs/results of the last round's calculate_liveness and
        # calculate_interference for small frames
        from ppci.codegen import flowgraph as fgm, interferencegraph as igm
        self.helper_orig = (fgm.FlowGraph, fgm.FlowGraph.__dict__.get('calculate_liveness'),
                            igm.InterferenceGraph, igm.InterferenceGraph.__dict__.get('calculate_interference'))
        o_live, o_interf = fgm.FlowGraph.calculate_liveness, igm.InterferenceGraph.calculate_interference

        def calculate_liveness(fg):
            r = o_live(fg)
            rec = cap.current
            try:
                if rec is not None:
                    nodes = list(fg.nodes)
                    if len(nodes) <= 80:
                        ix = {id(n): k for k, n in enumerate(nodes)}
                        rec['fg'] = [{'gen': [cap.rkey(x) for x in n.gen], 'kill': [cap.rkey(x) for x in n.kill],
                                      'succ': [ix[id(m)] for m in n.successors],
                                      'lin': [cap.rkey(x) for x in n.live_in],
                                      'lout': [cap.rkey(x) for x in n.live_out]} for n in nodes]
                    else:
                        rec['fg'] = None
            except Exception as ex:   # noqa: BLE001
                rec['fg'] = None
                rec['helper_err'] = repr(ex)[:100]
            return r

        def calculate_interference(ig, flowgraph):
            r = o_interf(ig, flowgraph)
            rec = cap.current
            try:
                if rec is not None:
                    inss = [ins for n in flowgraph for ins in n.instructions]
                    if len(inss) <= 160:
                        edges = set()
                        for n in ig.nodes:
                            a = cap.rkey(next(iter(n.temps)))
                            for m in n.adjecent:
                                b = cap.rkey(next(iter(m.temps)))
                                if a != b:
                                    edges.add((a, b) if repr(a) < repr(b) else (b, a))
                        rec['igm'] = {'ins': [{'defs': [cap.rkey(x) for x in i.defined_registers],
                                               'clob': [cap.rkey(x) for x in i.clobbers],
                                               'lout': [cap.rkey(x) for x in i.live_out]} for i in inss],
                                      'edges': sorted(edges, key=repr)}
                    else:
                        rec['igm'] = None
            except Exception as ex:   # noqa: BLE001
                rec['igm'] = None
                rec['helper_err'] = repr(ex)[:100]
            return r
        fgm.FlowGraph.calculate_liveness = calculate_liveness
        igm.InterferenceGraph.calculate_interference = calculate_interference

        cls.alloc_frame = alloc_frame
        if orig_init is not None:
            cls.init_data = init_data
        if orig_rw is not None:
            cls.rewrite_program = rewrite_program
        self.installed = True

    def uninstall(self):
        if not self.installed:
            return
        for n, f in self.orig.items():
            if f is not None:
                setattr(self.cls, n, f)
        fgc, fl, igc, il = self.helper_orig
        if fl is not None:
            fgc.calculate_liveness = fl
        if il is not None:
            igc.calculate_interference = il
        self.installed = False


# ===================================================================== reference liveness / checker (diagnostics)
def succs_of(prog):
    idx = {ins['id']: k for k, ins in enumerate(prog)}
    out = []
    for k, ins in enumerate(prog):
        if ins['jumps']:
            out.append([idx.get(j, len(prog)) for j in ins['jumps']])
        else:
            out.append([k + 1])
    return out


def liveness(prog):
    """least fixpoint of live_in = uses U (live_out - defs), live_out = U live_in(succ)"""
    sc = succs_of(prog)
    n = len(prog)
    lin = [set() for _ in range(n + 1)]
    lout = [set() for _ in range(n)]
    uses = [set(i['uses']) for i in prog]
    defs = [set(i['defs']) for i in prog]
    ch = True
    while ch:
        ch = False
        for k in range(n - 1, -1, -1):
            o = set()
            for s in sc[k]:
                if s < n:
                    o |= lin[s]
            i = uses[k] | (o - defs[k])
            if o != lout[k] or i != lin[k]:
                ch = True
                lout[k] = o
                lin[k] = i
    return lin, lout, sc


def conflict(alias, p, q):
    return p == q or q in alias.get(p, ()) or p in alias.get(q, ())


def last_round(rec):
    return rec['rounds'][-1] if rec['rounds'] else rec['entry']


def pycheck(rec):
    """Python mirror of check_frame, used only to name the failing clause in reports"""
    prog = last_round(rec)
    color, alias = rec['color'], rec['alias']
    lin, lout, sc = liveness(prog)
    errs = []
    if rec['uncoloured']:
        errs.append(('uncoloured-after', rec['uncoloured'][:3]))
    after_ids = [i['id'] for i in rec['after']]
    aset = set(after_ids)
    kept = [i for i in prog if i['id'] in aset]
    if [i['id'] for i in kept] != after_ids:
        errs.append(('rewritten-order-or-new-instructions',))
    for k, i in enumerate(prog):
        if i['id'] not in aset:
            if not (i['move'] and len(i['uses']) == 1 and len(i['defs']) == 1 and not i['clob'] and not i['jumps']
                    and color.get(i['uses'][0]) == color.get(i['defs'][0])):
                errs.append(('removed-not-a-coalesced-move', k, i['txt']))
    if len(kept) == len(rec['after_phys']):
        for i, a in zip(kept, rec['after_phys']):
            for f in ('uses', 'defs', 'clob'):
                if [color.get(r) for r in i[f]] != a[f]:
                    errs.append(('rename', i['txt']))
    for k, p0 in rec['pre'].items():
        if color.get(k) != p0:
            errs.append(('precoloured-changed', k, p0, color.get(k)))
    nchecks = 0
    for k, i in enumerate(prog):
        rm = i['id'] not in aset
        for d in i['defs'] + i['clob']:
            for v in lout[k]:
                if v == d:
                    continue
                if d[0] == 'P' and v[0] == 'P' and not rm:
                    continue        # two physical registers of the input program: hardware aliasing, same in both
                nchecks += 1
                if d not in color or v not in color:
                    errs.append(('uncoloured', k))
                    continue
                if conflict(alias, color[d], color[v]):
                    if (i['move'] and i['uses'] == [v] and i['defs'] == [d] and not i['clob']
                            and color[d] == color[v]):
                        continue
                    errs.append(('conflict', k, i['txt'], color[d], color[v]))
    e = sorted(lin[0]) if prog else []
    for a in e:
        if a[0] == 'V' and a not in rec.get('entry_undef', ()):
            errs.append(('virtual-register-live-at-entry', a))
    for a in e:
        for b in e:
            if a < b and not (a[0] == 'P' and b[0] == 'P') and a in color and b in color and conflict(alias, color[a], color[b]):
                errs.append(('entry-live-registers-alias', color[a], color[b]))
    return errs, nchecks


def check_spill_py(rec):
    """structural validation of rewrite_program between consecutive rounds (Python only):
    old instructions keep their order; inserted instructions only touch fresh registers (and
    precoloured ones, e.g. the frame pointer); a spilled temporary no longer occurs; every
    replaced use is preceded by an inserted definition of the fresh register and every replaced
    definition is followed by an inserted use of it, both within the inserted block adjacent to the
    instruction; slots of distinct spilled nodes are disjoint and large enough."""
    errs = []
    rounds = rec['rounds']
    for r in range(len(rounds) - 1):
        a, b = rounds[r], rounds[r + 1]
        ida = [i['id'] for i in a]
        sa = set(ida)
        pos = {i['id']: k for k, i in enumerate(b)}
        if [i['id'] for i in b if i['id'] in sa] != ida:
            errs.append(('spill-order', r))
            continue
        spilled = set()
        for s in rec['spills']:
            if s['round'] == r + 1:
                spilled |= set(t for t, _ in s['temps'])
        olda = {i['id']: i for i in a}
        regs_a = set()
        for i in a:
            regs_a |= set(i['uses']) | set(i['defs'])
        for i in b:
            for x in i['uses'] + i['defs']:
                if x in spilled:
                    errs.append(('spilled-temp-still-used', r, i['txt']))
        written = set()      # fresh registers written so far in the current inserted sequence (in order)
        for k, i in enumerate(b):
            if i['id'] in sa:
                written = set(x for x in i['defs'] if x[0] == 'V' and x not in regs_a)
            else:
                for x in i['uses']:
                    if x[0] == 'V' and x not in regs_a and x not in written:
                        errs.append(('spill-code-reads-temporary-before-it-is-written', r, i['txt']))
                written |= set(x for x in i['defs'] if x[0] == 'V')
        for k, i in enumerate(b):
            if i['id'] not in sa:
                for x in i['uses'] + i['defs']:
                    if x[0] == 'V' and x in regs_a:
                        errs.append(('spill-code-touches-old-vreg', r, i['txt']))
                continue
            o = olda[i['id']]
            for f in ('uses', 'defs'):
                if len(o[f]) != len(i[f]):
                    errs.append(('spill-arity', r, i['txt']))
                    continue
                for x, y in zip(o[f], i[f]):
                    if x == y:
                        continue
                    if x not in spilled or y in regs_a or y[0] != 'V':
                        errs.append(('spill-bad-replacement', r, i['txt']))
                        continue
                    if f == 'uses':
                        j = k - 1
                        ok = False
                        while j >= 0 and b[j]['id'] not in sa:
                            if y in b[j]['defs']:
                                ok = True
                            j -= 1
                        if not ok:
                            errs.append(('spill-use-without-load', r, i['txt']))
                    else:
                        j = k + 1
                        ok = False
                        while j < len(b) and b[j]['id'] not in sa:
                            if y in b[j]['uses']:
                                ok = True
                            j += 1
                        if not ok:
                            errs.append(('spill-def-without-store', r, i['txt']))
    slots = []
    for s in rec['spills']:
        if len(s['slots']) != 1:
            errs.append(('spill-slot-count', s['slots']))
            continue
        off, size = s['slots'][0]
        for t, bits in s['temps']:
            if bits is not None and size * 8 < bits:
                errs.append(('spill-slot-too-small', off, size, bits))
        for (o2, s2) in slots:
            if off < o2 + s2 and o2 < off + size:
                errs.append(('spill-slots-overlap', (off, size), (o2, s2)))
        slots.append((off, size))
    return errs


# ===================================================================== independent interpreter (rejection confirmation)
def _h(*a):
    import hashlib
    return int.from_bytes(hashlib.blake2b(repr(a).encode(), digest_size=6).digest(), 'big')


def interp_search(rec, tries=60, steps=1500):
    """run the virtual program and the actual rewritten program side by side under pseudo-random
    instruction semantics, branch decisions, initial states and alias junk; return a witness dict when
    some executed instruction of the rewritten program reads values different from the ones the
    virtual program reads (or control diverges), else None"""
    prog = last_round(rec)
    color, alias = rec['color'], rec['alias']
    after = rec['after']
    aset = {i['id']: k for k, i in enumerate(after)}
    if any(i['id'] not in set(x['id'] for x in prog) for i in after) or rec['uncoloured']:
        return None
    idx = {i['id']: k for k, i in enumerate(prog)}
    lin, lout, sc = liveness(prog)
    n = len(prog)
    allp = set(color.values())
    for s in alias.values():
        allp |= set(s)
    def aliases(p):
        return [q for q in allp if q != p and (q in alias.get(p, ()) or p in alias.get(q, ()))]
    for k in rec['regs']:
        if k[0] == 'P':
            allp.add((k[1], k[2]))
    for t in range(tries):
        seed = t
        vrf = {}
        prf = {}

        def vget(r):
            if r not in vrf:
                # physical registers of the input program start with the machine's value
                vrf[r] = _h('p', seed, (r[1], r[2])) if r[0] == 'P' else _h('v', seed, r)
            return vrf[r]
        for v in lin[0]:
            if v in color:
                prf.setdefault(color[v], vget(v))

        def pget(p):
            if p not in prf:
                prf[p] = _h('p', seed, p)
            return prf[p]
        pc = 0
        apc = 0
        for st in range(steps):
            if pc >= n:
                break
            ins = prog[pc]
            vals = [vget(r) for r in ins['uses']]
            W = ins['defs'] + ins['clob']
            outs = list(vals) + [0] * len(W) if ins['move'] else [_h('o', seed, pc, tuple(vals), k) for k in range(len(W))]
            bsel = _h('b', seed, st, pc, tuple(vals))
            if ins['jumps']:
                npc = idx.get(ins['jumps'][bsel % len(ins['jumps'])], n)
            else:
                npc = pc + 1
            if ins['id'] in aset:
                # the rewritten program must be at the corresponding instruction
                if apc >= len(after) or after[apc]['id'] != ins['id']:
                    return {'what': 'control diverges', 'seed': seed, 'step': st, 'virtual_pc': pc,
                            'instruction': ins['txt']}
                prow = rec['after_phys'][apc]
                pvals = [pget(p) for p in prow['uses']]
                if pvals != vals:
                    bad = [(str(r), p) for r, p, a, b in zip(ins['uses'], prow['uses'], vals, pvals) if a != b]
                    return {'what': 'a read returns a value that is not the most recent definition',
                            'seed': seed, 'step': st, 'virtual_pc': pc, 'instruction': ins['txt'],
                            'register': [list(b[1]) for b in bad][:2]}
                PW = prow['defs'] + prow['clob']
                for p, x in zip(PW, outs):
                    for q in aliases(p):
                        prf[q] = _h('j', seed, pc, p, q, x, pget(q))
                    prf[p] = x
                aj = after[apc]['jumps']
                if aj:
                    # same branch decision (a function of the values read), the rewritten program's own targets
                    apc = aset.get(aj[bsel % len(aj)], len(after))
                else:
                    apc += 1
            for r, x in zip(W, outs):
                if r[0] == 'P':
                    # hardware aliasing among the physical registers named by the input program
                    p = (r[1], r[2])
                    for q in aliases(p):
                        kq = ('P', q[0], q[1])
                        vrf[kq] = _h('j', seed, pc, p, q, x, vget(kq))
                vrf[r] = x
            pc = npc
    return None


# ===================================================================== program generators
ARCH = {
    # name: (language, types, extra binary ops, max call args, weight)
    'x86_64': ('c', ['int', 'long', 'char', 'short', 'int', 'long'], ['*', '^', '*'], 8, 8),
    'arm': ('c', ['int', 'int', 'char'], ['*', '^'], 6, 5),
    'riscv': ('c', ['int'], ['*', '^'], 6, 5),
    'msp430': ('c', ['int'], [], 5, 4),
    'avr': ('c3', ['int', 'byte', 'int'], [], 3, 4),
    'arm:thumb': ('c', ['int'], ['*'], 4, 2),
    'or1k': ('c', ['int', 'char'], ['*', '^'], 4, 2),
    'microblaze': ('c', ['int', 'char'], ['*', '^'], 4, 2),
    'mips': ('c', ['int'], ['*', '^'], 4, 1),
    'xtensa': ('c', ['int', 'char'], ['*'], 4, 2),
    # m68k is not exercised: its selector rejects almost every generated program and the allocator
    # occasionally does not terminate on the rest (termination is outside C06)
}
QUICK_TARGETS = ['x86_64', 'arm', 'riscv', 'msp430', 'avr', 'arm:thumb', 'or1k', 'microblaze', 'xtensa']
LONG_TARGETS = ['x86_64', 'arm', 'riscv']     # targets of the "long function" family
THOROUGH_TARGETS = list(ARCH)


class Gen:
    def __init__(self, rng, march):
        self.rng = rng
        self.march = march
        self.lang, self.types, extra, self.maxargs, _ = ARCH[march]
        self.ops = ['+', '-', '&', '|', '+', '-'] + extra

    def ty(self):
        return self.rng.choice(self.types)

    def expr(self, vars_, depth):
        r = self.rng
        if depth <= 0 or r.random() < 0.15:
            if r.random() < 0.2:
                return str(r.choice([1, 2, 3, 5, 7, 12, 100]))
            return r.choice(vars_)
        a = self.expr(vars_, depth - 1)
        b = self.expr(vars_, depth - 1)
        return '(%s %s %s)' % (a, r.choice(self.ops), b)

    def wide(self, vars_, n):
        """balanced sum of products: forces many temporaries to be live at once"""
        r = self.rng
        terms = ['(%s %s %s)' % (r.choice(vars_), r.choice(self.ops), r.choice(vars_)) for _ in range(n)]
        while len(terms) > 1:
            nxt = []
            for k in range(0, len(terms) - 1, 2):
                nxt.append('(%s %s %s)' % (terms[k], r.choice(['+', '-', '+']), terms[k + 1]))
            if len(terms) % 2:
                nxt.append(terms[-1])
            terms = nxt
        return terms[0]

    def decl(self, t, name, init):
        if self.lang == 'c':
            return '%s %s = %s;' % (t, name, init)
        return 'var %s %s = %s;' % (t, name, init)

    def func(self, name, kind, callee=None):
        r = self.rng
        nparams = r.randint(2, min(4, self.maxargs))
        params = ['p%d' % k for k in range(nparams)]
        ptys = [self.ty() for _ in params]
        rty = self.types[0]
        body = []
        vars_ = list(params)
        nloc = {'pressure': r.randint(6, 14), 'calls': r.randint(3, 6), 'loop': r.randint(3, 7),
                'mixed': r.randint(4, 8), 'ptr': r.randint(2, 4), 'divshift': r.randint(2, 4)}[kind]
        for k in range(nloc):
            v = 'x%d' % k
            body.append(self.decl(self.ty(), v, self.expr(vars_, 2)))
            vars_.append(v)
        acc = 'acc'
        body.append(self.decl(rty, acc, '0'))
        ctr = 'i'
        body.append(self.decl(self.types[0], ctr, '0'))
        inner = []
        if kind in ('pressure', 'mixed'):
            inner.append('%s = %s + %s;' % (acc, acc, self.wide(vars_, r.randint(4, 9))))
            for _ in range(r.randint(1, 3)):
                v = r.choice(vars_[nparams:])
                inner.append('%s = %s;' % (v, self.expr(vars_, 2)))
        elif kind == 'loop':
            for _ in range(r.randint(2, 4)):
                v = r.choice(vars_[nparams:])
                inner.append('%s = %s;' % (v, self.expr(vars_, 3)))
            inner.append('if (%s > %s) { %s = %s - %s; } else { %s = %s + %s; }' % (
                r.choice(vars_), r.choice(vars_), acc, acc, r.choice(vars_), acc, acc, self.expr(vars_, 2)))
        elif kind == 'calls' and callee:
            cname, cn = callee
            args = ', '.join(self.expr(vars_, 1) for _ in range(cn))
            inner.append('%s = %s + %s(%s);' % (acc, acc, cname, args))
            inner.append('%s = %s + %s;' % (acc, acc, self.wide(vars_, r.randint(2, 5))))
            if r.random() < 0.5:
                args = ', '.join(r.choice(vars_) for _ in range(cn))
                inner.append('%s = %s - %s(%s);' % (acc, acc, cname, args))
        elif kind == 'divshift':
            a, b = r.choice(vars_), r.choice(vars_)
            inner.append('%s = %s + (%s / (%s | 1)) + (%s %% (%s | 1));' % (acc, acc, a, b, b, a))
            inner.append('%s = %s + ((%s << (%s & 7)) + (%s >> (%s & 3)));' % (acc, acc, a, b, b, a))
            inner.append('%s = %s + %s;' % (acc, acc, self.wide(vars_, 4)))
        else:
            inner.append('%s = %s + %s;' % (acc, acc, self.expr(vars_, 3)))
        inner.append('%s = %s + 1;' % (ctr, ctr))
        body.append('while (%s < %s) { %s }' % (ctr, r.choice(['3', 'p0', '10']), ' '.join(inner)))
        body.append('return %s + %s;' % (acc, self.wide(vars_, min(len(vars_), r.randint(3, 8)))))
        if self.lang == 'c':
            head = '%s %s(%s)' % (rty, name, ', '.join('%s %s' % (t, p) for t, p in zip(ptys, params)))
        else:
            head = 'function %s %s(%s)' % (rty, name, ', '.join('%s %s' % (t, p) for t, p in zip(ptys, params)))
        return head + ' {\n  ' + '\n  '.join(body) + '\n}\n', nparams

    def smallcallprogram(self, seq):
        """a small caller with values live across calls (clobbers): small enough for the helper-model
        correspondence of calculate_interference"""
        t = self.types[0]
        kw = '' if self.lang == 'c' else 'function '
        head = '' if self.lang == 'c' else 'module q%d;\n' % seq
        return (head + '%s%s sq%d(%s a, %s b) { return a + b; }\n' % (kw, t, seq, t, t)
                + '%s%s sc%d(%s a, %s b) {\n  %s\n  %s\n  return x + y + a - b;\n}\n' % (
                    kw, t, seq, t, t, self.decl(t, 'x', 'sq%d(a, b)' % seq), self.decl(t, 'y', 'sq%d(b, x)' % seq)))

    def spillprogram(self, seq):
        """dedicated spill-forcing program: one callee and one function with 10-13 values live across the call"""
        t = self.rng.choice(self.types)
        kw = '' if self.lang == 'c' else 'function '
        head = '' if self.lang == 'c' else 'module s%d;\n' % seq
        save, self.types = self.types, [t]
        try:
            # xtensa cannot address far spill slots: keep the number of spills moderate there
            lo, hi = (6, 9) if self.march == 'xtensa' else (10, 13)
            body = self.spillfunc('sp%d' % seq, ('spcal%d' % seq, 2), nv=self.rng.randint(lo, hi))
        finally:
            self.types = save
        return head + '%s%s spcal%d(%s a, %s b) { return a + b; }\n' % (kw, t, seq, t, t) + body

    def spillfunc(self, name, callee, nv=None):
        """many values live across a call: forces spills (all targets, incl. two-instruction spill stores)"""
        r = self.rng
        t = r.choice(self.types)
        cname, cn = callee
        nv = nv or r.randint(6, 11)
        names = ['t%d' % k for k in range(nv)]
        lines = []
        if self.lang == 'c':
            lines.append('%s %s(%s a, %s b) {' % (t, name, t, t))
        else:
            lines.append('function %s %s(%s a, %s b) {' % (t, name, t, t))
        for k, v in enumerate(names):
            lines.append('  ' + self.decl(t, v, 'a + b + %d' % (k + 3)))
            lines.append('  a = a + %s; b = b - %s;' % (v, v))
        lines.append('  ' + self.decl(t, 'r', '%s(%s)' % (cname, ', '.join(['a'] * cn))))
        for v in names:
            lines.append('  r = r + r + %s;' % v)
        for k, v in enumerate(names):
            lines.append('  r = r - (%s + %d);' % (v, k))
        lines.append('  return r;')
        lines.append('}')
        return '\n'.join(lines) + '\n'

    def longprogram(self, seq):
        """120-200 basic blocks in sequence (if/else chain, a loop around part of it) with 2-6 values
        defined at the top and used at the bottom"""
        r = self.rng
        t = r.choice(['long', 'int']) if self.march == 'x86_64' else 'int'
        nk = r.randint(2, 6)
        nif = r.randint(40, 66)
        lines = ['%s lf%d(%s a, %s b) {' % (t, seq, t, t)]
        for k in range(nk):
            lines.append('  %s k%d = a * %d + %d;' % (t, k, k + 3, k + 1))
        lines += ['  %s x = b;' % t, '  %s y = a - b;' % t, '  %s i = 0;' % t]

        def ifelse(i):
            v, w = r.choice([('x', 'y'), ('y', 'x'), ('x', 'x')])
            return '  if (%s & %d) { %s = %s + %d; } else { %s = %s - %d; %s = %s + 1; }' % (
                w, 1 << (i % 5), v, v, i + 1, v, v, 2 * i + 1, w, w)
        cut1 = r.randint(5, nif // 3)
        cut2 = r.randint(cut1 + 5, 2 * nif // 3)
        for i in range(cut1):
            lines.append(ifelse(i))
        lines.append('  while (i < 3) {')
        for i in range(cut1, cut2):
            lines.append('  ' + ifelse(i))
        lines.append('    i = i + 1;')
        lines.append('  }')
        for i in range(cut2, nif):
            lines.append(ifelse(i))
        lines.append('  return %s + x + y;' % ' + '.join('k%d' % k for k in range(nk)))
        lines.append('}')
        return '\n'.join(lines) + '\n'

    def ptrfunc(self, name):
        r = self.rng
        t = self.types[0]
        if self.lang != 'c':
            return self.func(name, 'loop')[0]
        n = r.randint(2, 5)
        lines = ['%s %s(%s *p, %s *q, %s n) {' % (t, name, t, t, t), '  %s s = 0; %s i = 0;' % (t, t)]
        for k in range(n):
            lines.append('  %s a%d = p[%d] + q[%d];' % (t, k, k, (k * 3) % 7))
        vs = ['a%d' % k for k in range(n)] + ['s', 'n']
        lines.append('  while (i < n) { s = s + p[i] %s q[i]; q[i] = %s; i = i + 1; }' % (
            r.choice(self.ops), self.wide(vs, r.randint(2, 5))))
        lines.append('  return s + %s;' % self.wide(vs, n + 1))
        lines.append('}')
        return '\n'.join(lines) + '\n'

    def program(self, seq):
        r = self.rng
        kinds = ['pressure', 'calls', 'loop', 'mixed', 'ptr', 'divshift', 'pressure', 'calls', 'spill']
        if self.march == 'xtensa':
            kinds = ['spill', 'spill', 'calls', 'loop', 'ptr']
        if self.march not in ('x86_64', 'arm', 'riscv', 'or1k', 'microblaze'):
            kinds = [k for k in kinds if k != 'divshift']
        parts = []
        cn = r.randint(2, self.maxargs)
        cty = self.types[0]
        cps = ['a%d' % k for k in range(cn)]
        if self.lang == 'c':
            parts.append('%s callee%d(%s) { return %s; }\n' % (
                cty, seq, ', '.join('%s %s' % (cty, p) for p in cps), ' + '.join(cps)))
        else:
            parts.append('function %s callee%d(%s) { return %s; }\n' % (
                cty, seq, ', '.join('%s %s' % (cty, p) for p in cps), ' + '.join(cps)))
        for k in range(r.randint(2, 3)):
            kind = r.choice(kinds)
            name = 'f%d_%d' % (seq, k)
            if kind == 'ptr':
                parts.append(self.ptrfunc(name))
            elif kind == 'spill':
                parts.append(self.spillfunc(name, ('callee%d' % seq, cn)))
            else:
                parts.append(self.func(name, kind, ('callee%d' % seq, cn))[0])
        src = ''.join(parts)
        if self.lang == 'c3':
            src = 'module m%d;\n' % seq + src
        return src


PROGRAM_TIMEOUT_S = 25     # a compile that takes longer is abandoned (termination is not C06's claim)


def compile_program(march, lang, src, opt):
    from ppci import api
    import logging
    import signal

    class _Timeout(Exception):
        pass

    def _alarm(signum, frame):
        raise _Timeout('compile exceeded %d s' % PROGRAM_TIMEOUT_S)
    logging.disable(logging.CRITICAL)
    old = None
    try:
        old = signal.signal(signal.SIGALRM, _alarm)
        signal.setitimer(signal.ITIMER_REAL, PROGRAM_TIMEOUT_S)
    except (ValueError, AttributeError):   # not in the main thread
        old = None
    try:
        if lang == 'c':
            api.cc(io.StringIO(src), march, opt_level=opt)
        else:
            api.c3c([io.StringIO(src)], [], march, opt_level=opt)
        return None
    except Exception as ex:   # noqa: BLE001  (front end / selector limitations of a target are not C06's business)
        return '%s: %s' % (type(ex).__name__, str(ex)[:80])
    finally:
        if old is not None:
            signal.setitimer(signal.ITIMER_REAL, 0)
            signal.signal(signal.SIGALRM, old)
        logging.disable(logging.NOTSET)
        # the allocator memoises q()/common_reg_class() with lru_cache on methods, which keeps every
        # allocator (and its last frame and interference graph) alive: drop those caches between programs
        try:
            from ppci.codegen.registerallocator import GraphColoringRegisterAllocator as _G
            for nm in ('q', 'common_reg_class'):
                f = getattr(_G, nm, None)
                if hasattr(f, 'cache_clear'):
                    f.cache_clear()
        except Exception:   # noqa: BLE001
            pass


# ===================================================================== frame -> Coq literal
def zl(xs):
    return '[' + ';'.join(str(x) if x >= 0 else '(%d)' % x for x in xs) + ']'


def encode_frame(rec):
    """returns (coq term, stats) or (None, reason) when the frame cannot be encoded"""
    prog = last_round(rec)
    color, alias = rec['color'], rec['alias']
    if rec['uncoloured']:
        return None, 'uncoloured register after allocation: %s' % rec['uncoloured'][:3]
    physset = set(color.values()) | set(rec['pre'].values())
    for row in rec['after_phys']:
        for f in ('uses', 'defs', 'clob'):
            physset |= set(row[f])
    phys = {p: k for k, p in enumerate(sorted(physset))}
    if len(phys) >= 1000:
        return None, 'too many physical registers'
    vid = {}

    def rid(k):
        if k[0] == 'P':
            p = (k[1], k[2])
            if p not in phys:
                phys[p] = len(phys)
            return phys[p]
        if k not in vid:
            vid[k] = 1000 + len(vid)
        return vid[k]
    lin, lout, sc = liveness(prog)
    n = len(prog)
    after_ids = {i['id']: k for k, i in enumerate(rec['after'])}

    def instr(uses, defs, clob, move, jumps):
        return 'mkInstr %s %s %s %s [%s]' % (zl(uses), zl(defs), zl(clob), 'true' if move else 'false',
                                            ';'.join('%d%%nat' % j for j in jumps))
    ptxt = []
    for k, i in enumerate(prog):
        ptxt.append(instr([rid(r) for r in i['uses']], [rid(r) for r in i['defs']], [rid(r) for r in i['clob']],
                          i['move'], sc[k] if i['jumps'] else []))
    ctbl = []
    for k, (r, c0, p0) in rec['regs'].items():
        if k in color:
            ctbl.append((rid(k), phys[color[k]]))
    used = set(p for _, p in ctbl)
    atbl = []
    for p, pid in sorted(phys.items(), key=lambda x: x[1]):
        qs = sorted(phys[q] for q in alias.get(p, ()) if q in phys and q != p)
        if qs:
            atbl.append('(%d,%s)' % (pid, zl(qs)))
    removed = ['%d%%nat' % k for k, i in enumerate(prog) if i['id'] not in after_ids]
    physl = sorted(set(rid(k) for k in rec['regs'] if k[0] == 'P'))
    extra = sorted(rid(k) for k in rec.get('entry_undef', ()) if k in rec['regs'])
    pre = ['(%d,%d)' % (rid(k), phys[p0]) for k, p0 in rec['pre'].items()]
    atxt = []
    na = len(rec['after'])
    for i, row in zip(rec['after'], rec['after_phys']):
        atxt.append(instr([phys[p] for p in row['uses']], [phys[p] for p in row['defs']], [phys[p] for p in row['clob']],
                          i['move'], [after_ids.get(j, na) for j in i['jumps']]))
    term = 'check_frame [%s] 60%%nat [%s] [%s] %s %s [%s] [%s] [%s]' % (
        ';\n'.join(ptxt), ';'.join('(%d,%d)' % cp for cp in ctbl), ';'.join(atbl),
        zl(physl), zl(extra), ';'.join(removed), ';'.join(pre), ';\n'.join(atxt))
    stats = {'instructions': n, 'vregs': len(vid), 'phys': len(phys), 'removed': len(removed),
             'maxlive': max([len(x) for x in lout] + [0])}
    return term, stats


def encode_spill_round(rec, r):
    """Coq term check_spill ... for the rewriting round r -> r+1 (program before, rewritten program with
    the inserted instructions marked and the slot accesses tagged, fact certificate)"""
    a, b = rec['rounds'][r], rec['rounds'][r + 1]
    info = rec.get('ins_info', {})
    ida = {i['id']: k for k, i in enumerate(a)}
    idb = {i['id']: k for k, i in enumerate(b)}
    if [i['id'] for i in b if i['id'] in ida] != [i['id'] for i in a]:
        return (None, 'original instructions reordered or dropped')
    slot_of = {}
    for n, spn in enumerate(rec['spills']):
        if spn['round'] == r + 1:
            for t, _ in spn['temps']:
                slot_of[t] = n
    regs_a = set()
    for i in a:
        regs_a |= set(i['uses']) | set(i['defs']) | set(i['clob'])
    fresh = set()
    for i in b:
        for x in i['uses'] + i['defs']:
            if x[0] == 'V' and x not in regs_a:
                fresh.add(x)
    phys, vid = {}, {}

    def rid(k):
        if k[0] == 'P':
            return phys.setdefault((k[1], k[2]), len(phys))
        return vid.setdefault(k, 1000 + len(vid))
    lin_a, lout_a, sc_a = liveness(a)
    sc_b = succs_of(b)

    def instr(i, sc):
        return 'mkInstr %s %s %s %s [%s]' % (zl([rid(x) for x in i['uses']]), zl([rid(x) for x in i['defs']]),
                                            zl([rid(x) for x in i['clob']]), 'true' if i['move'] else 'false',
                                            ';'.join('%d%%nat' % j for j in sc))
    xp, marks = [], []
    for p, i in enumerate(b):
        ins = i['id'] not in ida
        marks.append('true' if ins else 'false')
        tag = info.get(i['id'], {}).get('tag') if ins else None
        if tag and tag[0] == 'L':
            xp.append('XLoad %d %d' % (rid(tag[1]), info[i['id']]['slot']))
        elif tag and tag[0] == 'S':
            xp.append('XStore %d %d' % (info[i['id']]['slot'], rid(tag[1])))
        else:
            xp.append('XI (%s)' % instr(i, sc_b[p] if i['jumps'] else []))
    ptxt = [instr(i, sc_a[k] if i['jumps'] else []) for k, i in enumerate(a)]
    # ---- fact certificate
    facts = []
    k = 0
    for p, i in enumerate(b):
        F = []
        ins = i['id'] not in ida
        inf = info.get(i['id']) if ins else None
        anchor_b = idb.get(inf['anchor']) if inf else (p if not ins else None)
        pend = set()
        if anchor_b is not None and b[anchor_b]['id'] in ida:
            ai, bi = a[ida[b[anchor_b]['id']]], b[anchor_b]
            upairs = [(u2, u) for u2, u in zip(bi['uses'], ai['uses']) if u2 != u]
            dpairs = [(d2, d) for d2, d in zip(bi['defs'], ai['defs']) if d2 != d]
            if p <= anchor_b:
                # loads of this anchor's pre-sequence that were already executed
                q = anchor_b - 1
                loaded = set()
                while q >= 0 and b[q]['id'] not in ida:
                    t = info.get(b[q]['id'], {})
                    if q < p and t.get('anchor') == bi['id'] and t.get('tag') and t['tag'][0] == 'L':
                        loaded.add(t['tag'][1])
                    q -= 1
                for u2, u in upairs:
                    if u2 in loaded:
                        F.append('(LReg %d,%d)' % (rid(u2), rid(u)))
            else:
                for d2, d in dpairs:
                    spos = None
                    q = anchor_b + 1
                    while q < len(b) and b[q]['id'] not in ida:
                        t = info.get(b[q]['id'], {})
                        if t.get('anchor') == bi['id'] and t.get('tag') == ('S', d2):
                            spos = q
                        q += 1
                    if spos is None or p <= spos:
                        pend.add(d)
                        F.append('(LReg %d,%d)' % (rid(d2), rid(d)))
        live = lin_a[k] if k < len(lin_a) else set()
        for t in sorted(live):
            if t in slot_of and t not in pend:
                F.append('(LSlot %d,%d)' % (slot_of[t], rid(t)))
        facts.append('[' + ';'.join(sorted(set(F))) + ']')
        if not ins:
            k += 1
    special = sorted(set(rid(t) for t in slot_of) | set(rid(x) for x in fresh))
    pkeys = [kx for kx in rec['regs'] if kx[0] == 'P']
    physl = sorted(rid(kx) for kx in pkeys)
    alias = rec['alias']

    def aliased(d, q):      # d, q: 'P' keys
        return (q[1], q[2]) in alias.get((d[1], d[2]), ()) and q != d
    # ---- dirty certificate: physical registers overwritten by inserted (untagged) spill code, and their
    # aliases, until an original instruction rewrites them (forward dataflow over the rewritten program)
    nb = len(b)
    gen, kill = [set() for _ in b], [set() for _ in b]
    for p, i in enumerate(b):
        if i['id'] in ida:
            kill[p] = set(i['defs']) | set(i['clob'])
        elif not (info.get(i['id'], {}).get('tag')):
            ds = [d for d in i['defs'] if d[0] == 'P']
            for q in pkeys:
                if q in ds or any(aliased(d, q) for d in ds):
                    gen[p].add(q)
    din = [set() for _ in range(nb + 1)]
    ch = True
    while ch:
        ch = False
        for p in range(nb):
            out = (din[p] | gen[p]) - kill[p]
            for s2 in (sc_b[p] if b[p]['jumps'] else [p + 1]):
                if s2 <= nb and not out <= din[s2]:
                    din[s2] |= out
                    ch = True
    dirty = [zl(sorted(rid(q) for q in din[p])) for p in range(nb + 1)]
    atbl = []
    for d in pkeys:
        qs = sorted(rid(q) for q in pkeys if aliased(d, q))
        if qs:
            atbl.append('(%d,%s)' % (rid(d), zl(qs)))
    term = 'check_spill %s %s (alias_of [%s]) [%s] [%s] [%s] [%s] [%s]' % (
        zl(physl), zl(special), ';'.join(atbl), ';\n'.join(xp), ';'.join(marks), ';\n'.join(ptxt),
        ';'.join(facts), ';'.join(dirty))
    slots = [(n, sp['slots'][0][0], sp['slots'][0][1]) for n, sp in enumerate(rec['spills']) if len(sp['slots']) == 1]
    return (term, {'round': r, 'inserted': marks.count('true'), 'spilled': len(slot_of), 'slots': slots})


def digest(rec):
    import hashlib
    prog = last_round(rec)
    ids = {}

    def g(k):
        return ids.setdefault(k, len(ids)) if k[0] == 'V' else k
    shape = [(tuple(g(r) for r in i['uses']), tuple(g(r) for r in i['defs']), i['move'], len(i['jumps'])) for i in prog]
    cols = sorted((str(g(k)), v) for k, v in rec['color'].items())
    return hashlib.sha1(repr((rec['arch'], shape, cols)).encode()).hexdigest()[:16]


# ===================================================================== run
def collect_frames(ctx, cap, budget_frames, targets):
    rng = ctx.rng
    nprog = 0
    fails = {}
    per_target = {}
    weights = {t: ARCH[t][4] for t in targets}
    tot = float(sum(weights.values()))
    seq = 0
    for march in targets:
        want = max(3, int(round(budget_frames * weights[march] / tot)))
        g = Gen(rng, march)
        n0 = len(cap.frames)
        attempts = 0
        t_target = time.time()
        t_budget = max(20.0, (90.0 if ctx.quick() else 700.0) * weights[march] / tot * 1.5)
        while (len(cap.frames) - n0 < want and attempts < want * 3 + 6
               and time.time() - t_target < t_budget):
            attempts += 1
            if attempts % 8 == 0:
                import gc
                gc.collect()
                gc.freeze()     # captured frames are plain long-lived data: keep them out of later GC passes
            seq += 1
            src = g.program(seq)
            opt = rng.choice([0, 2, 2])
            before = len(cap.frames)
            err = compile_program(march, g.lang, src, opt)
            nprog += 1
            for fr in cap.frames[before:]:
                fr['march'] = march
                fr['opt'] = opt
                fr['src_seq'] = seq
                fr['src'] = src
            if err:
                fails.setdefault(march, {}).setdefault(err.split(':')[0], 0)
                fails[march][err.split(':')[0]] += 1
        for opt in ((2,) if ctx.quick() else (0, 2)):
            seq += 1
            src = g.smallcallprogram(seq)
            before = len(cap.frames)
            err = compile_program(march, g.lang, src, opt)
            nprog += 1
            for fr in cap.frames[before:]:
                fr.update({'march': march, 'opt': opt, 'src_seq': seq, 'src': src, 'family': 'smallcall'})
            if err:
                fails.setdefault(march, {}).setdefault(err.split(':')[0], 0)
                fails[march][err.split(':')[0]] += 1
        wanted_spilled = 0 if march == 'arm:thumb' else (2 if ctx.quick() else 6)   # thumb: allocator too slow under pressure
        got_spilled = 0
        for _ in range(wanted_spilled * 3):
            if got_spilled >= wanted_spilled:
                break
            seq += 1
            src = g.spillprogram(seq)
            before = len(cap.frames)
            err = compile_program(march, g.lang, src, 2)
            nprog += 1
            for fr in cap.frames[before:]:
                fr.update({'march': march, 'opt': 2, 'src_seq': seq, 'src': src, 'family': 'spill'})
                if fr['n_rounds'] > 1:
                    got_spilled += 1
            if err:
                fails.setdefault(march, {}).setdefault(err.split(':')[0], 0)
                fails[march][err.split(':')[0]] += 1
        if march in LONG_TARGETS:
            for _ in range(1 if ctx.quick() else 4):
                seq += 1
                src = g.longprogram(seq)
                opt = rng.choice([1, 2])
                before = len(cap.frames)
                err = compile_program(march, g.lang, src, opt)
                nprog += 1
                for fr in cap.frames[before:]:
                    fr.update({'march': march, 'opt': opt, 'src_seq': seq, 'src': src, 'family': 'long'})
                if err:
                    fails.setdefault(march, {}).setdefault(err.split(':')[0], 0)
                    fails[march][err.split(':')[0]] += 1
        per_target[march] = len(cap.frames) - n0
    ctx.cov['programs'] = nprog
    ctx.cov['stages']['frames_per_target'] = per_target
    ctx.cov['stages']['frontend_or_selector_failures'] = fails
    return nprog


def entry_witness(rec):
    """a concrete path from the function entry to an instruction that reads a virtual register which no
    instruction on the path has written (and which the allocator's input program did not already read
    undefined): the read cannot return 'the most recent definition'"""
    prog = last_round(rec)
    if not prog:
        return None
    lin, lout, sc = liveness(prog)
    for v in sorted(lin[0]):
        if v[0] != 'V' or v in rec.get('entry_undef', ()):
            continue
        prev = {0: None}
        todo = [0]
        while todo:
            k = todo.pop(0)
            if v in prog[k]['uses']:
                path = []
                j = k
                while j is not None:
                    path.append(j)
                    j = prev[j]
                path.reverse()
                return {'what': 'a virtual register is read before any instruction has written it',
                        'register': str(v), 'colour': list(rec['color'].get(v, ())),
                        'reading_instruction': prog[k]['txt'], 'instruction_index': k,
                        'path_from_entry': path if len(path) <= 12 else path[:6] + ['...'] + path[-6:],
                        'next_instructions': [i['txt'] for i in prog[k + 1:k + 3]]}
            if v in prog[k]['defs']:
                continue
            for s2 in sc[k]:
                if s2 < len(prog) and s2 not in prev:
                    prev[s2] = k
                    todo.append(s2)
    return None


def report_rejection(ctx, rec, why):
    """a frame the validator (or the encoder) rejected: confirm with the interpreter"""
    ctx.cov['disagreements_checked'] = ctx.cov.get('disagreements_checked', 0) + 1
    errs, _ = pycheck(rec)
    wit = entry_witness(rec) or interp_search(rec, tries=120 if not ctx.quick() else 60)
    base = {'fn': 'GraphColoringRegisterAllocator.alloc_frame', 'key': 'alloc:' + rec.get('march', rec['arch']),
            'target': rec.get('march', rec['arch']), 'function': rec['name'], 'opt_level': rec.get('opt'),
            'validator': why, 'failing_clauses': [list(map(str, e)) for e in errs[:6]],
            'localisation': {'interference_graph_missing_required_edges': rec.get('ig_missing_n'),
                             'examples': rec.get('ig_missing')},
            'source': rec.get('src', ''),
            'how_to_replay': 'compile `source` with ppci.api.cc (c3c for avr) for `target` at `opt_level`; '
                             'tools/props/c06.py Capture dumps the frame; check_frame rejects it'}
    if wit is not None:
        base.update({'args': [rec.get('march', rec['arch']), rec['name']], 'expected': 'every read returns the value of the '
                     'most recent definition (c06_check_alloc_sound simulation)', 'actual': wit})
        ctx.violation(base)
        return True
    ctx.failed_stages.append(('validator', 'check_frame rejected frame %s/%s (%s); clauses %s; no distinguishing '
                              'execution found (theorem c06_check_alloc_sound not applicable to this frame)'
                              % (rec.get('march', rec['arch']), rec['name'], why, errs[:3])))
    return False


def validate_frames(ctx, frames):
    cases, recs = [], []
    seen = set()
    nontriv = 0
    stats_all = []
    for rec in frames:
        term, st = encode_frame(rec)
        if term is None:
            report_rejection(ctx, rec, st)
            continue
        cases.append((term, True))
        recs.append(rec)
        stats_all.append(st)
        errs, nchecks = pycheck(rec)
        rec['py_errs'] = errs
        d = digest(rec)
        if d not in seen and st['vregs'] >= 8 and nchecks >= 1:
            nontriv += 1
        seen.add(d)
    ctx.cov['distinct_nontrivial'] += nontriv
    # balance the shards (coqc spends its time parsing the literals): largest first, dealt round-robin
    nsh = max(1, min(8, len(cases))) if len(cases) <= 160 else (len(cases) + 15) // 16
    order = sorted(range(len(cases)), key=lambda k: -len(cases[k][0]))
    chunks = [order[j::nsh] for j in range(nsh)]
    size = max(len(c) for c in chunks)
    perm = []
    for c in chunks:
        perm += c
    # run_cases cuts contiguous chunks of `size`; pad short chunks with a trivially true case
    padded, back = [], []
    for c in chunks:
        for k in c:
            padded.append(cases[k])
            back.append(k)
        for _ in range(size - len(c)):
            padded.append(('true', True))
            back.append(None)
    bad = ctx.run_cases('frames', ['Spec.RegAllocSpec', 'Model.RegAllocCheck'], padded, shard=size, timeout=1500)
    ctx.cov['evaluations'] -= len(padded) - len(cases)
    if bad is not None:
        bad = sorted(back[k] for k in bad if back[k] is not None)
    if bad is None:
        return recs, stats_all, None
    # the Python mirror must agree with the Coq validator (harness self-check)
    mism = [k for k, rec in enumerate(recs) if bool(rec['py_errs']) != (k in bad)]
    if mism:
        ctx.log('note: Python mirror and Coq validator disagree on %d frames (Coq decides)' % len(mism))
        ctx.cov['stages']['mirror_disagreements'] = len(mism)
    for k in bad:
        report_rejection(ctx, recs[k], 'check_frame = false')
    return recs, stats_all, bad


def balanced_cases(ctx, name, imports, cases, quick_shards=8):
    """run_cases with shards of similar size; returns bad indices into `cases` (None on coqc failure)"""
    if not cases:
        return []
    nsh = max(1, min(quick_shards, len(cases))) if len(cases) <= 160 else (len(cases) + 15) // 16
    order = sorted(range(len(cases)), key=lambda k: -len(cases[k][0]))
    chunks = [order[j::nsh] for j in range(nsh)]
    size = max(len(c) for c in chunks)
    padded, back = [], []
    for c in chunks:
        for k in c:
            padded.append(cases[k])
            back.append(k)
        for _ in range(size - len(c)):
            padded.append(('true', True))
            back.append(None)
    bad = ctx.run_cases(name, imports, padded, shard=size, timeout=1500)
    if bad is None and ctx.failed_stages and ctx.failed_stages[-1][0] == 'cases_' + name:
        # a coqc process can fail transiently when another builder rebuilds shared .vo files: retry once
        ctx.failed_stages.pop()
        ctx.cov['evaluations'] -= len(padded)
        ctx.log('retrying case files of', name)
        bad = ctx.run_cases(name, imports, padded, shard=size, timeout=1500)
    ctx.cov['evaluations'] -= len(padded) - len(cases)
    if bad is None:
        return None
    return sorted(back[k] for k in bad if back[k] is not None)


def validate_helper_models(ctx, frames):
    """tie H: the hand models of calculate_liveness / calculate_interference against the real results"""
    lcases, lown, icases, iown = [], [], [], []
    for f in frames:
        phys, vid = {}, {}

        def rid(k):
            if k[0] == 'P':
                return phys.setdefault((k[1], k[2]), len(phys))
            return vid.setdefault(k, 1000 + len(vid))
        if f.get('fg'):
            nl = ';'.join('mkNode %s %s [%s]' % (zl([rid(x) for x in n['gen']]), zl([rid(x) for x in n['kill']]),
                                                ';'.join('%d%%nat' % s for s in n['succ'])) for n in f['fg'])
            impl = ';'.join('(%s,%s)' % (zl([rid(x) for x in n['lin']]), zl([rid(x) for x in n['lout']])) for n in f['fg'])
            lcases.append(('liveness_agrees [%s] 400%%nat [%s]' % (nl, impl), True))
            lown.append(f)
        if f.get('igm') and len(f['igm']['edges']) <= 2500:
            g = f['igm']
            prog = ';'.join('mkInstr [] %s %s false []' % (zl([rid(x) for x in i['defs']]), zl([rid(x) for x in i['clob']]))
                            for i in g['ins'])
            live = ';'.join(zl([rid(x) for x in i['lout']]) for i in g['ins'])
            edges = ';'.join('(%d,%d)' % (rid(a), rid(b)) for a, b in g['edges'])
            icases.append(('interference_agrees [%s] [%s] [%s]' % (prog, live, edges), True))
            iown.append(f)
    if ctx.quick():
        # frames with clobbering instructions (calls) first, then small ones
        order = sorted(range(len(icases)), key=lambda k: (not any(i['clob'] for i in iown[k]['igm']['ins']),
                                                          len(icases[k][0])))[:20]
        icases, iown = [icases[k] for k in order], [iown[k] for k in order]
        lcases, lown = lcases[:30], lown[:30]
    else:
        lcases, lown, icases, iown = lcases[:300], lown[:300], icases[:200], iown[:200]
    imports = ['Spec.RegAllocSpec', 'Model.RegAllocCheck', 'Model.RegAllocHelpers']
    for name, cases, own, fn in (('livemodel', lcases, lown, 'FlowGraph.calculate_liveness'),
                                 ('interfmodel', icases, iown, 'InterferenceGraph.calculate_interference')):
        bad = balanced_cases(ctx, name, imports, cases, quick_shards=4)
        ctx.cov['stages']['helper_model_cases_' + name] = len(cases)
        for k in (bad or []):
            f = own[k]
            ctx.failed_stages.append(('correspondence', 'hand model of %s disagrees with the implementation on frame %s/%s'
                                      % (fn, f.get('march'), f['name'])))


def validate_spill_rounds(ctx, spilled):
    cases, owner = [], []
    slot_cases, slot_owner = [], []
    for f in spilled:
        for term, st in f.get('spill_cases', []):
            if term is None:
                cases.append(('false', True))
                owner.append((f, st))
            else:
                cases.append((term, True))
                owner.append((f, st))
        sl = [(n, sp['slots'][0][0], sp['slots'][0][1]) for n, sp in enumerate(f['spills']) if len(sp['slots']) == 1]
        if sl:
            slot_cases.append(('slots_disjoint [%s]' % ';'.join(
                '(%d,%s,%d)' % (n, str(o) if o >= 0 else '(%d)' % o, z) for n, o, z in sl), True))
            slot_owner.append(f)
    imports = ['Spec.RegAllocSpec', 'Spec.SpillSpec', 'Model.RegAllocCheck', 'Model.SpillCheck']
    ctx.cov['stages']['spill_rounds_total'] = len(cases)
    if True:
        # coqc spends its time parsing the literals: validate a size-bounded selection (every target first,
        # then the smallest rounds); the thorough tier's bound is large (normally every round fits)
        budget = 450000 if ctx.quick() else 9000000
        order = sorted(range(len(cases)), key=lambda k: len(cases[k][0]))
        seen_t, pick = set(), []
        for k in order:
            t = owner[k][0].get('march')
            if t not in seen_t:
                seen_t.add(t)
                pick.append(k)
        pick += [k for k in order if k not in pick]
        sel, tot = [], 0
        for k in pick:
            if tot + len(cases[k][0]) > budget and len(sel) >= len(seen_t):
                continue
            sel.append(k)
            tot += len(cases[k][0])
        cases = [cases[k] for k in sel]
        owner = [owner[k] for k in sel]
    bad = balanced_cases(ctx, 'spill', imports, cases)
    ctx.cov['stages']['spill_rounds_validated_in_coq'] = len(cases)
    for k in (bad or []):
        f, st = owner[k]
        ctx.cov['disagreements_checked'] = ctx.cov.get('disagreements_checked', 0) + 1
        if f['spill_errs']:
            continue    # reported below with the concrete structural finding
        ctx.failed_stages.append(('spill-validator', 'check_spill rejected %s/%s round %s; the Python structural check '
                                  'finds nothing (theorem c06_check_spill_sound not applicable to this frame)'
                                  % (f.get('march'), f['name'], st if not isinstance(st, dict) else st.get('round'))))
    bad2 = balanced_cases(ctx, 'slots', imports, slot_cases) if slot_cases else []
    for k in (bad2 or []):
        f = slot_owner[k]
        ctx.violation({'fn': 'GraphColoringRegisterAllocator.rewrite_program', 'key': 'slots:' + f.get('march', ''),
                       'args': [f.get('march'), f['name']], 'expected': 'pairwise disjoint spill slots of positive size',
                       'actual': [sp['slots'] for sp in f['spills']], 'source': f.get('src', ''), 'opt_level': f.get('opt')})


def run(ctx):
    ok, _ = ctx.build(['Proofs/C06_regalloc.vo', 'Proofs/C06_compact.vo', 'Proofs/C06_spill.vo',
                       'Proofs/C06_spillprog.vo', 'Proofs/C06_helpers.vo', 'Model/RegAllocCheck.vo',
                       'Model/SpillCheck.vo', 'Model/RegAllocHelpers.vo', 'Lib/Val.vo'])
    if ok:
        ctx.check_props('Props/C06.v')
    check_register_files(ctx)
    cap = Capture()
    cap.install()
    t0 = time.time()
    try:
        budget = 90 if ctx.quick() else 1000
        targets = QUICK_TARGETS if ctx.quick() else THOROUGH_TARGETS
        collect_frames(ctx, cap, budget, targets)
    finally:
        cap.uninstall()
    frames = cap.frames
    ctx.cov['stages']['compile_wall_s'] = round(time.time() - t0, 1)
    ctx.cov['stages']['frames'] = len(frames)
    if not frames:
        ctx.failed_stages.append(('harness', 'no frame was captured: alloc_frame is no longer the allocator entry point'))
        return
    spilled = [f for f in frames if f['n_rounds'] > 1]
    ctx.cov['stages']['frames_with_spill_rounds'] = len(spilled)
    ctx.cov['stages']['frames_with_coalesced_moves'] = sum(1 for f in frames if len(last_round(f)) > len(f['after']))
    # allocator's own liveness vs certificate (localisation statistic)
    differ = 0
    for f in frames:
        prog = last_round(f)
        lin, lout, sc = liveness(prog)
        for k, i in enumerate(prog):
            own = f['own_live_out'].get(i['id'])
            if own is not None and own != lout[k]:
                differ += 1
                break
    ctx.cov['stages']['frames_where_allocator_liveness_differs_from_certificate'] = differ
    ctx.cov['stages']['frames_whose_interference_graph_lacks_a_required_edge'] = sum(
        1 for f in frames if f.get('ig_missing_n'))
    if ok:
        recs, stats_all, bad = validate_frames(ctx, frames)
        if stats_all:
            ctx.cov['stages']['frame_size'] = {
                'max_instructions': max(s['instructions'] for s in stats_all),
                'max_vregs': max(s['vregs'] for s in stats_all),
                'max_live': max(s['maxlive'] for s in stats_all),
                'removed_moves_total': sum(s['removed'] for s in stats_all)}
        for rec, st in list(zip(recs, stats_all))[:: max(1, len(recs) // 8)]:
            ctx.note_sample({'target': rec.get('march'), 'function': rec['name'], 'opt': rec.get('opt'),
                             'instructions': st['instructions'], 'vregs': st['vregs'], 'max_live': st['maxlive'],
                             'coalesced_moves': st['removed'], 'spill_rounds': rec['n_rounds'] - 1,
                             'validator': 'accepted' if (bad is not None and recs.index(rec) not in bad) else 'rejected'})
    else:
        search(ctx, frames)
    # spill rewriting: every round through the verified validator check_spill (tie V) ...
    if ok:
        validate_spill_rounds(ctx, spilled)
        validate_helper_models(ctx, frames)
    # ... and the structural correspondence in Python (addresses/ordering of the real load/store code)
    nsp = 0
    for f in spilled:
        errs = f['spill_errs']
        nsp += 1
        if errs:
            ctx.cov['disagreements_checked'] = ctx.cov.get('disagreements_checked', 0) + 1
            ctx.violation({'fn': 'GraphColoringRegisterAllocator.rewrite_program', 'key': 'spill:' + f.get('march', ''),
                           'args': [f.get('march'), f['name']], 'expected': 'each rewritten use preceded by a load, each '
                           'def followed by a store, distinct sufficiently large slots', 'actual': [list(map(str, e)) for e in errs[:5]],
                           'source': f.get('src', ''), 'opt_level': f.get('opt')})
    ctx.cov['stages']['spill_frames_checked'] = nsp
    multi = {}
    for f in frames:
        if f.get('spill_seq_max', 0) >= 2:
            multi[f.get('march')] = multi.get(f.get('march'), 0) + 1
    ctx.cov['stages']['frames_with_multi_instruction_spill_code'] = multi
    sp = {}
    for f in frames:
        if f.get('family') == 'spill' and f['n_rounds'] > 1:
            sp[f.get('march')] = sp.get(f.get('march'), 0) + 1
    ctx.cov['stages']['spill_family_frames_that_spilled'] = sp
    longf = [f for f in frames if f.get('family') == 'long']
    ctx.cov['stages']['long_function_frames'] = [
        {'target': f.get('march'), 'instructions': len(last_round(f)),
         'blocks': sum(1 for i in last_round(f) if i['jumps'])} for f in longf]
    ctx.cov.setdefault('disagreements_checked', 0)
    ctx.cov['exhaustive'] = False


def search(ctx, frames=None):
    """fallback when the Coq side is unavailable: Python mirror + interpreter on freshly captured frames"""
    if frames is None:
        cap = Capture()
        cap.install()
        try:
            collect_frames(ctx, cap, 60, QUICK_TARGETS)
        finally:
            cap.uninstall()
        frames = cap.frames
    n = 0
    for rec in frames:
        errs, _ = pycheck(rec)
        n += 1
        if errs:
            wit = interp_search(rec)
            if wit is not None:
                ctx.violation({'fn': 'GraphColoringRegisterAllocator.alloc_frame', 'key': 'alloc:' + rec.get('march', ''),
                               'args': [rec.get('march'), rec['name']], 'failing_clauses': [list(map(str, e)) for e in errs[:6]],
                               'actual': wit, 'source': rec.get('src', ''), 'opt_level': rec.get('opt')})
    ctx.cov['stages']['python_mirror_frames'] = n
    ctx.cov['evaluations'] += n


def replay(rec):
    """./check C06 --replay FILE: recompile the recorded source on the recorded target, dump the frame
    again and re-run the Python mirror of the validator, the spill check and the interpreter search"""
    from vlib import ensure_repo_on_path
    ensure_repo_on_path()
    march = rec.get('target') or (rec.get('args') or [None])[0]
    fname = rec.get('function') or (rec.get('args') or [None, None])[1]
    src = rec.get('source')
    if not (march and src):
        print(json.dumps(rec, indent=1))
        return 0
    cap = Capture()
    cap.install()
    try:
        err = compile_program(march, ARCH.get(march, ('c',))[0], src, rec.get('opt_level') or 0)
    finally:
        cap.uninstall()
    print('compiled for %s: %s, %d frames' % (march, err or 'ok', len(cap.frames)))
    rc = 0
    for fr in cap.frames:
        if fname and fr['name'] != fname:
            continue
        errs, _ = pycheck(fr)
        serrs = fr['spill_errs']
        wit = interp_search(fr) if errs else None
        print('frame %s: validator clauses failing: %s; spill check: %s; distinguishing execution: %s'
              % (fr['name'], errs[:4] or 'none', serrs[:4] or 'ok', wit))
        if errs or serrs:
            rc = 1
    return rc
