"""C09 exporter (tie I): per ISA, the printed side (Syntax.syntax element lists, flattened over the
composite-operand alternatives) next to the grammar side (the productions the REAL assembler object
holds after gen_asm_parser, read back from arch.assembler.parser.g and flattened the same way), the
register classes (printed names and the register productions), the lexer keyword set and the extra
`instruction` productions that do not come from an ISA class (align/section/global, arm `ldr =`).

Flat atoms:  ('sp', text) | ('lit', word) | ('gl', glyph) | ('reg', class_index) | ('imm',) | ('lab',)
             | ('other', why)            (operand kinds that are not modelled: register sets)
"""
import itertools
from vlib import ensure_repo_on_path
ensure_repo_on_path()

ARCHS = [('riscv', 'riscv'), ('riscv_rvc', 'riscv:rvc'), ('arm', 'arm'), ('thumb', 'arm:thumb'),
         ('x86_64', 'x86_64'), ('msp430', 'msp430'), ('avr', 'avr'), ('m68k', 'm68k'), ('mips', 'mips'),
         ('or1k', 'or1k'), ('xtensa', 'xtensa'), ('microblaze', 'microblaze')]

MAXVAR = 2000


class ExportFail(Exception):
    pass


def closure_var(fn, name):
    """value of free variable `name` of fn, or None"""
    code = getattr(fn, '__code__', None)
    if code is None or fn.__closure__ is None or name not in code.co_freevars:
        return None
    return fn.__closure__[code.co_freevars.index(name)].cell_contents


def rule_payload(p, name):
    """the object (`cls` of generate_syntax_rule / `register` of make_register_rule_function) behind production p"""
    f = p.f
    inner = closure_var(f, 'f') if f is not None else None
    if inner is None:
        return None
    return closure_var(inner, name)


class ArchInfo:
    """everything read from one architecture object"""

    def __init__(self, nm, archname):
        from ppci.api import get_arch
        from ppci.arch.registers import Register
        from ppci.arch.generic_instructions import VirtualInstruction
        self.nm = nm
        self.arch = get_arch(archname)
        self.asm = self.arch.assembler
        self.g = self.asm.parser.g
        self.Register = Register
        self.kws = sorted(self.asm.lexer.kws)
        self.regclasses = []          # list of dict(cls, name, regs [(printed, num)], rules [(word, idx)])
        self.rc_index = {}            # register class -> index
        self.rc_by_nt = {}
        self.classes = []
        seen = set()
        for c in self.arch.isa.instructions:
            if id(c) in seen:
                continue
            seen.add(id(c))
            self.classes.append(c)
        self.virtual = VirtualInstruction
        self.prods = {}
        for p in self.g.productions:
            self.prods.setdefault(p.name, []).append(p)
        self.check_base_nts()

    # ---- lexer
    def lex(self, text):
        """real lexer on text -> [(typ, val)]"""
        return [(t.typ, t.val) for t in self.asm.lexer.tokenize(text)]

    # ---- base non-terminals: $int$ and $str$ must be what the model assumes
    def check_base_nts(self):
        ip = [tuple(p.symbols) for p in self.prods.get('$int$', [])]
        if ip != [('NUMBER',), ('-', 'NUMBER')]:
            raise ExportFail('$int$ productions changed: %r' % (ip,))
        sp = [tuple(p.symbols) for p in self.prods.get('$str$', [])]
        if not sp or sp[0] != ('ID',):
            raise ExportFail('$str$ productions changed')
        words = set()
        for s in sp[1:]:
            if len(s) != 1 or s[0] not in self.asm.lexer.kws:
                raise ExportFail('$str$ production %r is not a keyword' % (s,))
            words.add(s[0])
        import re
        idm = re.compile(r'[A-Za-z_][A-Za-z\d_]*\Z')
        for k in self.asm.lexer.kws:
            if idm.match(k) and k not in words:
                raise ExportFail('identifier-shaped keyword %r is not accepted as a label' % k)
        self.str_words = words
        # what does the semantic action of `$str$ -> <keyword>` return for a differently-cased spelling?
        from ppci.lang.common import Token
        self.kwlabel_lower = None
        for p in self.prods.get('$str$', [])[1:]:
            w = p.symbols[0]
            if w.isalpha() and w.upper() != w:
                try:
                    from ppci.common import SourceLocation
                    r = p.f(Token(w, w.upper(), SourceLocation(None, 1, 1, 1)))
                except Exception as ex:   # noqa: BLE001
                    raise ExportFail('cannot probe $str$ keyword production: %s' % ex)
                if r == w:
                    self.kwlabel_lower = True
                elif r == w.upper():
                    self.kwlabel_lower = False
                else:
                    raise ExportFail('$str$ keyword production returns %r for %r' % (r, w.upper()))
                break
        if self.kwlabel_lower is None:
            raise ExportFail('no alphabetic keyword to probe the $str$ production')

    # ---- register classes
    def regclass(self, cls):
        if cls in self.rc_index:
            return self.rc_index[cls]
        regs = list(cls.all_registers())
        ent = dict(cls=cls, name=cls.__name__, regs=[(str(r), r.num) for r in regs], objs=regs, rules=None, why=None)
        nt = self.asm.typ2nt.get(cls)
        if nt is None:
            ent['why'] = 'register class has no non-terminal in the assembler'
        else:
            rules = []
            for p in self.prods.get(nt, []):
                reg = rule_payload(p, 'register')
                idx = next((k for k, r in enumerate(regs) if r is reg), None)
                if len(p.symbols) != 1 or idx is None or self.g.is_nonterminal(p.symbols[0]) \
                        or not isinstance(p.symbols[0], str):
                    ent['why'] = 'register production %r is not a single word' % (p.symbols,)
                    break
                rules.append((p.symbols[0], idx))
            ent['rules'] = rules
            self.rc_by_nt[nt] = len(self.regclasses)
        # printed names must lex as one word token
        for r in regs:
            try:
                lx = self.lex(str(r))
            except Exception:   # noqa: BLE001
                lx = None
            if not lx or len(lx) != 1 or lx[0][1] != str(r) or not isinstance(lx[0][1], str) or \
                    not (lx[0][0] == 'ID' or lx[0][0] == str(r).lower()):
                ent['why'] = ent['why'] or 'register name %r does not lex as one word' % str(r)
        self.rc_index[cls] = len(self.regclasses)
        self.regclasses.append(ent)
        return self.rc_index[cls]

    # ---- printed side
    def syn_alternatives(self, cls, depth=0):
        """list of (path, atoms, builder) for constructor/instruction class cls; builder(values) -> (instance, rest)"""
        from ppci.arch.encoding import Operand
        if depth > 6:
            raise ExportFail('constructor nesting too deep')
        parts = []      # per element: list of (path, atoms, build) alternatives
        for e in cls.syntax.syntax:
            if isinstance(e, str):
                if e.isspace():
                    a = ('sp', e)
                elif e.isidentifier():
                    a = ('lit', e)
                else:
                    a = ('gl', e)
                parts.append([([], [a], None)])
            elif isinstance(e, Operand):
                c = e._cls
                if isinstance(c, tuple) or (isinstance(c, type) and not issubclass(c, self.Register)
                                            and c not in (int, str) and hasattr(c, 'syntax') and c.syntax is not None):
                    opts = list(c) if isinstance(c, tuple) else [c]
                    alts = []
                    for o in opts:
                        for (pth, atoms, bld) in self.syn_alternatives(o, depth + 1):
                            alts.append(([o.__name__] + pth, atoms, ('con', bld)))
                    parts.append(alts)
                elif isinstance(c, type) and issubclass(c, self.Register):
                    k = self.regclass(c)
                    why = self.regclasses[k]['why']
                    parts.append([([], [('other', why)] if why else [('reg', k)], ('leaf', 'reg', k))])
                elif c is int:
                    parts.append([([], [('imm',)], ('leaf', 'imm', None))])
                elif c is str:
                    parts.append([([], [('lab',)], ('leaf', 'lab', None))])
                else:
                    kind = 'regset' if isinstance(c, type) and issubclass(c, (set, frozenset)) else 'other'
                    parts.append([([], [('other', 'operand type %s' % getattr(c, '__name__', c))], ('leaf', kind, c))])
            else:
                raise ExportFail('syntax element %r' % (e,))
        n = 1
        for p in parts:
            n *= len(p)
        if n > MAXVAR:
            raise ExportFail('more than %d variants' % MAXVAR)
        out = []
        for combo in itertools.product(*parts):
            path, atoms, builds = [], [], []
            for (pth, ats, bld) in combo:
                path += pth
                atoms += ats
                if bld is not None:
                    builds.append(bld)

            def build(values, builds=builds, cls=cls):
                args = []
                for b in builds:
                    if b[0] == 'leaf':
                        args.append(values.pop(0))
                    else:
                        args.append(b[1](values))
                return cls(*args)
            leaves = []
            for b in builds:
                if b[0] == 'leaf':
                    leaves.append((b[1], 0, b[2]) if b[1] == 'regset' else (b[1], b[2]))
                else:
                    leaves += b[1].leaves
            build.leaves = leaves
            out.append((path, atoms, build))
        return out

    # ---- grammar side
    def rule_alternatives(self, symbols, depth=0):
        """list of (path, atoms) for a production right-hand side, non-terminals expanded"""
        if depth > 6:
            raise ExportFail('non-terminal nesting too deep')
        parts = []
        for s in symbols:
            if not isinstance(s, str):
                raise ExportFail('non-string grammar symbol %r' % (s,))
            if self.g.is_nonterminal(s):
                if s == '$int$':
                    parts.append([([], [('imm',)])])
                elif s == '$str$':
                    parts.append([([], [('lab',)])])
                elif s in self.rc_by_nt:
                    k = self.rc_by_nt[s]
                    why = self.regclasses[k]['why']
                    parts.append([([], [('other', why)] if why else [('reg', k)])])
                elif s.startswith('$reg_cls_'):
                    parts.append([([], [('other', 'register non-terminal %s not reached from a syntax' % s)])])
                elif s.startswith('w00t'):
                    alts = []
                    for p in self.prods.get(s, []):
                        con = rule_payload(p, 'cls')
                        for (pth, atoms) in self.rule_alternatives(p.symbols, depth + 1):
                            alts.append(([getattr(con, '__name__', '?')] + pth, atoms))
                    parts.append(alts)
                else:
                    parts.append([([], [('other', 'non-terminal %s' % s)])])
            elif s in ('ID', 'NUMBER'):
                parts.append([([], [('other', 'raw terminal %s' % s)])])
            elif s.isidentifier():
                parts.append([([], [('lit', s)])])
            else:
                parts.append([([], [('gl', s)])])
        n = 1
        for p in parts:
            n *= len(p)
        if n > MAXVAR:
            raise ExportFail('more than %d variants' % MAXVAR)
        out = []
        for combo in itertools.product(*parts):
            path, atoms = [], []
            for (pth, ats) in combo:
                path += pth
                atoms += ats
            out.append((path, atoms))
        return out

    def export(self):
        """-> entries (dicts), extra (dicts), unmodelled [(cls, why)], skipped [cls]"""
        # printed side first (registers the register classes in syntax order)
        printed = {}
        unmodelled, skipped = [], []
        for c in self.classes:
            if c.syntax is None:
                skipped.append(c.__name__)
                continue
            try:
                printed[c] = self.syn_alternatives(c)
            except ExportFail as ex:
                unmodelled.append((c.__name__, str(ex)))
        entries, extra = [], []
        seen_cls = set()
        for p in self.prods.get('instruction', []):
            cls = rule_payload(p, 'cls')
            try:
                ralts = self.rule_alternatives(p.symbols)
            except ExportFail as ex:
                ralts = None
                rwhy = str(ex)
            if cls is None or cls not in printed:
                if cls is not None and any(c is cls for c in self.classes):
                    continue      # ISA class already reported as unmodelled
                for (pth, atoms) in (ralts or [([], [('other', rwhy if ralts is None else '')])]):
                    extra.append(dict(cls='<asm:%s>' % ' '.join(str(s) for s in p.symbols), variant='/'.join(pth),
                                      prio=p.priority, syn=[], rule=atoms, pycls=None, build=None))
                continue
            seen_cls.add(cls)
            salts = printed[cls]
            if ralts is None or len(ralts) != len(salts):
                unmodelled.append((cls.__name__, 'grammar side has %s variants, printed side %d' % (
                    'no' if ralts is None else len(ralts), len(salts))))
                continue
            for k, ((spath, satoms, build), (rpath, ratoms)) in enumerate(zip(salts, ralts)):
                entries.append(dict(cls=cls.__name__, variant='/'.join(spath), rvariant='/'.join(rpath), prio=p.priority,
                                    syn=satoms, rule=ratoms, pycls=cls, build=build, vindex=k,
                                    leafkinds=build.leaves))
        for c in printed:
            if c not in seen_cls and not any(c.__name__ == u for u, _ in unmodelled):
                unmodelled.append((c.__name__, 'class with syntax has no production in the assembler grammar'))
        return entries, extra, unmodelled, skipped


# ------------------------------------------------------------------ python mirror of the Coq checks
def is_wordish(a):
    return a[0] in ('lit', 'reg', 'imm', 'lab')


def strip_sp(syn):
    return [a for a in syn if a[0] != 'sp']


def py_glue_ok(syn):
    for x, y in zip(syn, syn[1:]):
        if is_wordish(x) and is_wordish(y):
            return False
        if x == ('gl', '%') and y[0] == 'imm':
            return False
        if x[0] == 'imm' and y == ('gl', '.'):
            return False
        if x == ('gl', '.') and y[0] == 'imm':
            return False
    return True


def py_reg_ok(rc, kws):
    """every register is found under its printed name (lower-cased) and no word names two registers"""
    if rc['why'] or rc['rules'] is None:
        return False
    first = {}
    for w, idx in rc['rules']:
        if w != w.lower() or w not in kws:
            return False
        if w in first and first[w] != idx:
            return False
        first.setdefault(w, idx)
    for k, (printed, _num) in enumerate(rc['regs']):
        if first.get(printed.lower()) != k or printed.lower() not in kws:
            return False
    return True


def py_wf(e, regclasses, kws):
    if strip_sp(e['syn']) != e['rule']:
        return False
    if e['variant'] != e.get('rvariant', e['variant']):
        return False
    if not py_glue_ok(e['syn']):
        return False
    for a in e['rule']:
        if a[0] == 'other':
            return False
        if a[0] == 'lit' and (a[1] not in kws or a[1] != a[1].lower()):
            return False
        if a[0] == 'reg' and not py_reg_ok(regclasses[a[1]], kws):
            return False
    return True


def reg_words(rc):
    return set(w for w, _ in rc['rules'])


def py_unify_dir(s, t, regclasses):
    """mirror of AsmSyntax.unify_dir: can production t recognise a printed form of production s?"""
    if not s:
        return not t
    if not t:
        return False
    a, b = s[0], t[0]
    s1, t1 = s[1:], t[1:]
    if a[0] == 'lit':
        if b[0] == 'lit':
            return a[1] == b[1] and py_unify_dir(s1, t1, regclasses)
        if b[0] == 'reg':
            return a[1] in reg_words(regclasses[b[1]]) and py_unify_dir(s1, t1, regclasses)
        if b[0] == 'lab':
            return py_unify_dir(s1, t1, regclasses)
        return False
    if a[0] == 'reg':
        if b[0] == 'lit':
            return b[1] in reg_words(regclasses[a[1]]) and py_unify_dir(s1, t1, regclasses)
        if b[0] == 'reg':
            return bool(reg_words(regclasses[a[1]]) & reg_words(regclasses[b[1]])) and py_unify_dir(s1, t1, regclasses)
        if b[0] == 'lab':
            return py_unify_dir(s1, t1, regclasses)
        return False
    if a[0] == 'lab':
        return b[0] == 'lab' and py_unify_dir(s1, t1, regclasses)
    if a[0] == 'gl':
        if b[0] == 'gl':
            return a[1] == b[1] and py_unify_dir(s1, t1, regclasses)
        if b[0] == 'imm':
            return a[1] == '-' and bool(s1) and s1[0][0] == 'imm' and py_unify_dir(s1[1:], t1, regclasses)
        return False
    if a[0] == 'imm':
        if b[0] == 'imm':
            return py_unify_dir(s1, t1, regclasses)
        if b[0] == 'gl':
            return b[1] == '-' and bool(t1) and t1[0][0] == 'imm' and py_unify_dir(s1, t1[1:], regclasses)
        return False
    return False


def py_unify(s, t, regclasses):
    return py_unify_dir(s, t, regclasses) or py_unify_dir(t, s, regclasses)


def py_ambiguous(entries, regclasses):
    out = []
    n = len(entries)
    for i in range(n):
        for j in range(i + 1, n):
            if py_unify(entries[i]['rule'], entries[j]['rule'], regclasses):
                out.append((i, j))
    return out


# ------------------------------------------------------------------ Coq rendering
def cstr(s):
    return '"' + ''.join(ch if 32 <= ord(ch) < 127 and ch != '"' else ('""' if ch == '"' else '?') for ch in s) + '"'


def cz(v):
    return str(v) if v >= 0 else '(%d)' % v


def catom(a):
    if a[0] == 'sp':
        return 'ASp'
    if a[0] == 'lit':
        return 'ALit %s' % cstr(a[1])
    if a[0] == 'gl':
        return 'AGl %s' % cstr(a[1])
    if a[0] == 'reg':
        return 'AReg %d' % a[1]
    if a[0] == 'imm':
        return 'AImm'
    if a[0] == 'lab':
        return 'ALab'
    return 'AOther'


def centry(e):
    return 'mkS %s %s %s [%s] [%s]' % (cstr(e['cls']), cstr(e['variant']), cz(e['prio']),
                                       '; '.join(catom(a) for a in e['syn']), '; '.join(catom(a) for a in e['rule']))


def render_arch(nm, info, entries, extra, unmodelled):
    kws = set(info.kws)
    good = [e for e in entries if py_wf(e, info.regclasses, kws)]
    bad = [e for e in entries if not py_wf(e, info.regclasses, kws)]
    xgood = [e for e in extra if all(a[0] != 'other' for a in e['rule'])]
    xbad = [e for e in extra if e not in xgood]
    allr = good + xgood
    amb = py_ambiguous(allr, info.regclasses)
    out = ['(* generated by tools/props/c09_export.py from the syntax declarations and the assembler grammar of %s - do not edit *)' % nm,
           'From PV Require Import Lib.Py Model.AsmSyntax.', 'From Coq Require Import String.',
           'Local Open Scope Z_scope.', 'Local Open Scope string_scope.']
    rcs = []
    for rc in info.regclasses:
        rcs.append('mkRC %s [%s]\n     [%s]' % (
            cstr(rc['name']), '; '.join('(%s, %s)' % (cstr(p), cz(n if n is not None else -1)) for p, n in rc['regs']),
            '; '.join('(%s, %d%%nat)' % (cstr(w), k) for w, k in (rc['rules'] or []))))
    out.append('Definition regs_%s : list regclass := [\n  %s].' % (nm, ';\n  '.join(rcs)))
    out.append('Definition kws_%s : list string := [%s].' % (nm, '; '.join(cstr(k) for k in info.kws)))
    out.append('(* does `$str$ -> <keyword>` return the lower-case keyword (true) or the text as written (false)? *)')
    out.append('Definition kwlabel_lower_%s : bool := %s.' % (nm, 'true' if info.kwlabel_lower else 'false'))
    out.append('Definition stab_%s : list sentry := [\n  %s].' % (nm, ';\n  '.join(centry(e) for e in good)))
    out.append('(* productions of `instruction` that do not come from an ISA class (directives, pseudo instructions of the assembler) *)')
    out.append('Definition extra_%s : list sentry := [\n  %s].' % (nm, ';\n  '.join(centry(e) for e in xgood)))
    out.append('(* class variants whose syntax is not well-formed for the model (see wf_entry) *)')
    out.append('Definition nonwf_%s : list sentry := [\n  %s].' % (nm, ';\n  '.join(centry(e) for e in bad + xbad)))
    out.append('(* classes outside the model: (class, reason) *)')
    out.append('Definition unmodelled_%s : list (string * string) := [%s].' % (
        nm, ';\n  '.join('(%s, %s)' % (cstr(c), cstr(r)) for c, r in unmodelled)))
    out.append('(* index pairs (i < j) into stab ++ extra whose rules can match a common token sequence *)')
    out.append('Definition ambiguous_%s : list (nat * nat) := [%s]%%nat.' % (nm, '; '.join('(%d, %d)' % p for p in amb)))
    # whitespace elements: the text model (Model/AsmLexer.v) prints ASp as one space
    for e in good:
        for a in e['syn']:
            if a[0] == 'sp' and a[1] != ' ':
                raise ExportFail('whitespace element %r of %s is not a single space' % (a[1], e['cls']))
    rows = reloc_rows(info, good)
    info.reloc_rows = rows
    out.append('(* relocations of the label-form class variants: (index into stab, [(relocation type, offset, addend,\n'
               '   index among the label operands)]) as Instruction.relocations() returns them *)')
    out.append('Definition relocs_%s : list (nat * list (string * Z * Z * nat)) := [\n  %s].' % (nm, ';\n  '.join(
        '(%d%%nat, [%s])' % (i, '; '.join('(%s, %s, %s, %d%%nat)' % (cstr(t), cz(o), cz(a), k) for (t, o, a, k) in rws))
        for i, rws in rows)))
    return '\n'.join(out) + '\n', good, bad, xgood, xbad, amb


def reloc_rows(info, good):
    """[(stab index, [(type, offset, addend, label operand index)])] for the variants with a label operand whose
    relocation list does not depend on the other operands (two operand samples agree)"""
    out = []
    for i, e in enumerate(good):
        kinds = e.get('leafkinds') or []
        if not any(k[0] == 'lab' for k in kinds) or any(k[0] not in ('reg', 'imm', 'lab') for k in kinds):
            continue
        seen = []
        for pick in (0, -1):
            for z in (4, 0, 1, 8, 2):
                vals, nlab = [], 0
                for k in kinds:
                    if k[0] == 'reg':
                        vals.append(info.regclasses[k[1]]['objs'][pick])
                    elif k[0] == 'imm':
                        vals.append(z + (0 if pick == 0 else 4))
                    else:
                        vals.append('lblA%d' % nlab)
                        nlab += 1
                try:
                    ins = e['build'](list(vals))
                    ins.encode()
                    rl = ins.relocations()
                    rws = []
                    for r in rl:
                        if not (isinstance(r.symbol_name, str) and r.symbol_name.startswith('lblA')):
                            raise ValueError('relocation against something that is not a label operand')
                        rws.append((r.name, r.offset, r.addend, int(r.symbol_name[4:])))
                    seen.append(rws)
                    break
                except Exception:   # noqa: BLE001
                    continue
        if len(seen) == 2 and seen[0] == seen[1]:
            out.append((i, seen[0]))
    return out
