"""C36 -- Python front-end computes what CPython computes (PARTIAL, LEVEL 'other').

tie I: PythonToIrCompiler.binop_map, the compare map inside gen_compare and the instruction
       sequence emitted for integer `a // b` are exported to coq/Gen/Tab_py2ir.v on every run.
tie H: coq/Model/Py2Ir.v models gen_expr/gen_binop (expression -> IR tree), gen_cond/
       gen_compare/gen_bool_op (condition -> CJump decision tree) and the block skeleton of
       gen_for; Props/C36.v states the theorems against coq/Spec/PyExprSpec.v (CPython int
       semantics inside the signed 64-bit range) using IRSem.eval_binop/eval_cond.
Statements (assignment, if/while/for, break/continue, early return, calls) have NO theorem:
they are validated by differential execution only: generated annotated functions ->
python_to_ir -> tools/irsem_py.run_main, compared with CPython executing the same source.
"""
import ast
import inspect
import io
import json
import os
import sys

import vlib
from vlib import OkV, Diag, Internal, TieBroken

LEVEL = 'other'
RULE = ('expression/condition correspondence: seeded random integer expressions (depth <= 4) over the operators of the '
        'exported table, the unsupported ones and //, on boundary/random environments, model outcome vs python_to_ir + '
        'irsem_py outcome; for-skeleton correspondence: predecessor/phi-input sets and continue targets of compiled loops '
        'vs Model.gen_for; differential search: generated annotated functions (arithmetic, comparisons, and/or, nested '
        'if/while/for-range, break/continue, early return, augmented assignment, calls) x 8 argument vectors '
        '(boundary + random), CPython is the oracle, vectors on which CPython overflows 64 bits, divides by zero or '
        'exceeds the step budget are filtered out; distinct non-trivial = (function, argument vector) pairs that CPython '
        'accepts, whose function contains at least one loop or branch and whose result is not 0')
EXPLANATION = ('PARTIAL. Statement level (added): c36_stmt_exact / c36_body_exact prove, by rule induction over a relational '
               'big-step semantics of the subset (Spec/PyStmtSpec.v: assignment, augmented assignment, if/elif/else, while, '
               'for-range, break, continue, return, pass), that the code gen_statement is modelled to emit (Model/Py2IrStmt.v) '
               'returns CPython\'s value; the emitted CFG is represented unfolded along forward edges (Model/StmtCode.v) and '
               'executed with IRSem arithmetic but NOT with IRSem.run_function on numbered blocks/byte memory; the model CFG is '
               'compared structurally with the decompiled python_to_ir output on generated functions every run. '
               'Tuple assignment x1, ..., xn = e1, ..., en (simultaneous: all values in the old store, targets bound left to right) is in '
               'the statement spec, the lowering model (values as SSA registers, then stores) and c36_stmt_exact; its CFG is not part '
               'of the structural decompile comparison (differential execution: swaps, rotations, fib updates, repeated targets). '
               'Augmented assignment is covered for every operator the lowering accepts (x op= e is lowered as x op e); while-else / '
               'for-else are rejected by the front-end with a diagnostic and are not in the statement AST. Function calls x = f(e1..en) to '
               'functions of the module (also recursive) are in the statement spec (function environment), the code semantics '
               '(function table, R_call) and the theorems (c36_stmt_exact, c36_module_exact); calls nested inside expressions, '
               'conditions and loop bounds, and imported external functions are differential-execution validated only. True division a / b on ints is part of the expression language '
               '(no integer value; rejected by the lowering once the front-end diagnoses it: c36_int_truediv_rejected). '
               'Expression level: theorems (unbounded in values) cover: lowering of integer expressions over + - * // '
               '(as the current table/sequence lowers them), comparisons and short-circuit and/or, and the block skeleton '
               'of for-range loops with abstract bodies. NOT proved: block numbering, Alloc/Load/Store through byte memory, phi '
               'lookup by predecessor, delete_unreachable, the IR builder, calls, floats, strings; those are validated by the '
               'structural CFG comparison and by differential execution only.')
TRUSTED = ['export of binop_map / gen_compare.op_map / the `a // b` instruction sequence (tools/props/c36.py)',
           'hand transcription Model/Py2Ir.v (cross-checked against python_to_ir + irsem_py on every run)',
           'coq/Spec/IRSem.v eval_binop/eval_cond as the meaning of IR (shared hub), tools/irsem_py.py as its executable twin',
           'CPython itself as the executable twin of Spec/PyExprSpec.v (cross-checked on every run)']
ASSUMPTIONS = ['all intermediate values within signed 64 bits; no division by zero (eval64 = Some _)',
               'for-skeleton theorems: loop body abstracted to (ends-in-body-block?, per-iteration exit kind); '
               'bounds with n < 2^63 so that the increment cannot wrap',
               'generated functions initialise every local at function entry (ppci allocates a slot at the first '
               'assignment, wherever that is) and return on every path']

SRC = 'ppci/lang/python/python2ir.py'
PBINS = ['Add', 'Sub', 'Mult', 'FloorDiv', 'Mod', 'LShift', 'RShift', 'BitAnd', 'BitOr', 'BitXor', 'TrueDiv']
PBIN_SYM = {'Add': '+', 'Sub': '-', 'Mult': '*', 'FloorDiv': '//', 'Mod': '%', 'LShift': '<<', 'RShift': '>>',
            'BitAnd': '&', 'BitOr': '|', 'BitXor': '^', 'TrueDiv': '/'}
PBIN_COQ = {k: 'P' + k for k in PBINS}
PCMPS = {'Eq': '==', 'NotEq': '!=', 'Lt': '<', 'LtE': '<=', 'Gt': '>', 'GtE': '>='}
FLOOR_SEQ = [('/', 'SA', 'SB')]
I64 = (-2 ** 63, 2 ** 63)


def _impl():
    vlib.ensure_repo_on_path()
    from ppci.lang.python import python_to_ir
    from ppci.lang.python.python2ir import PythonToIrCompiler
    import irsem_py
    import logging
    logging.getLogger('p2p').setLevel(logging.ERROR)
    return python_to_ir, PythonToIrCompiler, irsem_py


# ------------------------------------------------------------------ export (tie I)
def export_compare_map(PythonToIrCompiler):
    src = inspect.getsource(PythonToIrCompiler.gen_compare)
    tree = ast.parse('class X:\n' + src if src.startswith('    ') else src)
    for node in ast.walk(tree):
        if isinstance(node, ast.Assign) and len(node.targets) == 1 and isinstance(node.targets[0], ast.Name) \
                and node.targets[0].id == 'op_map' and isinstance(node.value, ast.Dict):
            out = []
            for k, v in zip(node.value.keys, node.value.values):
                if not (isinstance(k, ast.Attribute) and isinstance(k.value, ast.Name) and k.value.id == 'ast'
                        and isinstance(v, ast.Constant) and isinstance(v.value, str)):
                    raise TieBroken('gen_compare.op_map: entry not of the form ast.X: "op"')
                out.append((k.attr, v.value))
            return out
    raise TieBroken('gen_compare: no literal op_map dictionary found')


def export_prog(python_to_ir, op_sym):
    """the straight-line binop program the front-end emits for `return a <op> b` on ints; None when
    the front-end rejects the operator; TieBroken when the emitted code has another shape"""
    from ppci import ir
    from ppci.common import CompilerError
    src = 'def f(a: int, b: int) -> int:\n    return a %s b\n' % op_sym
    old = sys.stdout
    sys.stdout = io.StringIO()      # not_impl prints dir(node)
    try:
        m = python_to_ir(io.StringIO(src))
    except CompilerError:
        return None
    finally:
        sys.stdout = old
    f = [x for x in m.functions if x.name == 'f'][0]
    blocks = list(f)
    if len(blocks) != 1:
        raise TieBroken('`a %s b` compiles to %d blocks' % (op_sym, len(blocks)))
    slot, ref, prog = {}, {}, []
    params = {p: n for p, n in zip(f.arguments, ('SA', 'SB'))}
    for ins in blocks[0]:
        if isinstance(ins, ir.Alloc):
            continue
        if isinstance(ins, ir.AddressOf):
            continue
        if isinstance(ins, ir.Store) and ins.value in params:
            slot[ins.address] = params[ins.value]
        elif isinstance(ins, ir.Load) and ins.address in slot and ins.ty is ir.i64:
            ref[ins] = slot[ins.address]
        elif isinstance(ins, ir.Const) and ins.ty is ir.i64 and isinstance(ins.value, int):
            ref[ins] = 'SK (%s)' % vlib.coq_z(ins.value)
        elif isinstance(ins, ir.Binop) and ins.ty is ir.i64 and ins.a in ref and ins.b in ref:
            prog.append((ins.operation, ref[ins.a], ref[ins.b]))
            ref[ins] = 'SR %d' % (len(prog) - 1)
        elif isinstance(ins, ir.Return):
            if not prog or ref.get(ins.result) != 'SR %d' % (len(prog) - 1):
                raise TieBroken('`a %s b`: returned value is not the last binop' % op_sym)
        else:
            raise TieBroken('`a %s b`: unexpected instruction %s' % (op_sym, ins))
    return prog


def export_tables():
    python_to_ir, PythonToIrCompiler, _ = _impl()
    bm = PythonToIrCompiler.binop_map
    if not isinstance(bm, dict):
        raise TieBroken('binop_map is not a dict')
    binops = []
    for k, v in bm.items():
        if not (isinstance(k, type) and issubclass(k, ast.operator) and isinstance(v, str)):
            raise TieBroken('binop_map entry %r: %r' % (k, v))
        binops.append((k.__name__, v))
    cmps = export_compare_map(PythonToIrCompiler)
    fd = export_prog(python_to_ir, '//')
    truediv_rejected = export_prog(python_to_ir, '/') is None
    return {'binops': binops, 'cmps': cmps, 'floordiv': fd or [], 'for': export_for(), 'int_truediv_rejected': truediv_rejected}


def table_text(t):
    def tab(l):
        return '[' + '; '.join('(%s, %s)' % (vlib.coq_str(a), vlib.coq_str(b)) for a, b in l) + ']'
    prog = '[' + '; '.join('(%s, %s, %s)' % (vlib.coq_str(o), a, b) for o, a, b in t['floordiv']) + ']'
    return ('(* GENERATED by tools/props/c36.py from %s -- do not edit *)\n'
            'From PV Require Import Lib.Py Spec.PyExprSpec Model.Py2Ir.\n'
            'From Coq Require Import String.\nLocal Open Scope string_scope.\nLocal Open Scope Z_scope.\n'
            'Definition binop_tab : tab := %s.\n'
            'Definition cmp_tab : tab := %s.\n'
            'Definition floordiv_prog : sprog := %s.\n'
            'Definition lowcfg_cur : lowcfg := mk_lowcfg binop_tab cmp_tab floordiv_prog %s.\n'
            'Definition for_variant_cur : variant := %s.\n'
            'Definition for_loopvar_cur : loopvar := %s.\n'
            % (SRC, tab(t['binops']), tab(t['cmps']), prog, 'true' if t['int_truediv_rejected'] else 'false',
               t['for']['variant'], t['for']['loopvar']))


def regen(ctx):
    try:
        t = export_tables()
    except TieBroken as ex:
        ctx.log('table export failed:', ex)
        ctx.failed_stages.append(('export', str(ex)))
        raise
    changed = ctx.write_gen('Tab_py2ir', table_text(t))
    ctx.cov['stages']['gen_Tab_py2ir'] = {'file': SRC, 'changed_on_disk': changed, 'binop_map': t['binops'],
                                          'compare_map': t['cmps'], 'floordiv_prog': t['floordiv'],
                                          'for_skeleton': t['for'], 'int_truediv_rejected': t['int_truediv_rejected']}
    return t


# ------------------------------------------------------------------ gen_for skeleton (export + correspondence)
SK_STRAIGHT = ('def f(a: int, b: int) -> int:\n    s = 0\n    for i in range(a):\n        s = s + i\n    return s\n')
SK_CONT = ('def f(a: int, b: int) -> int:\n    s = 0\n    for i in range(a):\n        if i == b:\n            continue\n'
           '        s = s + i\n    return s\n')
SK_BREAK = ('def f(a: int, b: int) -> int:\n    s = 0\n    for i in range(a):\n        if i == b:\n            break\n'
            '        s = s + i\n    return s\n')
SK_AFTER = 'def f(a: int, b: int) -> int:\n    s = 0\n    for i in range(a):\n        s = s + i\n    return i\n'


def compile_noverify(src):
    """python_to_ir without the final verify_module (the source as found builds CFGs the verifier rejects)"""
    python_to_ir, _, _ = _impl()
    import ppci.lang.python.python2ir as p2
    saved = p2.irutils.verify_module
    p2.irutils.verify_module = lambda m: None
    try:
        return python_to_ir(io.StringIO(src))
    finally:
        p2.irutils.verify_module = saved


def loop_skeleton(src):
    """roles of the blocks gen_for built: (phi inputs, back-edge block, continue target, break target)"""
    from ppci import ir
    m = compile_noverify(src)
    f = [x for x in m.functions if x.name == 'f'][0]
    phis = [i for b in f for i in b if isinstance(i, ir.Phi)]
    if len(phis) != 1:
        raise TieBroken('expected one phi, found %d' % len(phis))
    phi = phis[0]
    test = phi.block
    cj = test.last_instruction
    if not isinstance(cj, ir.CJump) or cj.a is not phi or cj.cond != '<':
        raise TieBroken('test block does not end in CJump(i_phi < n)')
    body, final = cj.lab_yes, cj.lab_no
    incs = [i for b in f for i in b if isinstance(i, ir.Binop) and i.a is phi and i.operation == '+'
            and isinstance(i.b, ir.Const) and i.b.value == 1]
    if len(incs) != 1:
        raise TieBroken('expected one increment of the phi')
    inc = incs[0]
    x = inc.block

    def role(b):
        if b is test:
            return 'test'
        if b is final:
            return 'final'
        if b is body:
            return 'body'
        if b is x:
            return 'inc' if all(isinstance(i, (ir.Const, ir.Binop, ir.Jump)) for i in b) else 'body_end'
        if b is f.entry or phi.inputs.get(b) is not inc and b in phi.inputs:
            return 'entry'
        return 'other'
    phi_in = [(role(b), 'inc' if v is inc else 'init') for b, v in phi.inputs.items()]
    if not isinstance(x.last_instruction, ir.Jump) or x.last_instruction.target is not test:
        raise TieBroken('increment block does not jump to the test block')
    cont = brk = None
    bl = body.last_instruction
    if isinstance(bl, ir.CJump):          # `if i == b: continue|break` at the top of the body
        j = bl.lab_yes.last_instruction
        if not isinstance(j, ir.Jump):
            raise TieBroken('if-branch does not end in a jump')
        cont = role(j.target)
    return {'phi': phi_in, 'back': role(x), 'jump_target': cont}


def export_for():
    from ppci import ir
    st = loop_skeleton(SK_STRAIGHT)
    co = loop_skeleton(SK_CONT)
    br = loop_skeleton(SK_BREAK)
    if co['jump_target'] == 'test':
        variant = 'VOrig'
    elif co['jump_target'] == 'inc':
        variant = 'VIncBlock'
    else:
        raise TieBroken('continue jumps to %r' % (co['jump_target'],))
    m = compile_noverify(SK_AFTER)
    f = [x for x in m.functions if x.name == 'f'][0]
    rets = [i for b in f for i in b if isinstance(i, ir.Return)]
    if len(rets) != 1:
        raise TieBroken('expected one return')
    v = rets[0].result
    if isinstance(v, ir.Phi):
        lv = 'LVPhi'
    elif isinstance(v, ir.Load):
        phi = [i for b in f for i in b if isinstance(i, ir.Phi)][0]
        body = phi.block.last_instruction.lab_yes
        first = body.first_instruction
        if not (isinstance(first, ir.Store) and first.value is phi and first.address is v.address):
            raise TieBroken('loop variable slot is not stored from the phi at the top of the body')
        lv = 'LVSlot'
    else:
        raise TieBroken('loop variable after the loop is %r' % (v,))
    return {'variant': variant, 'loopvar': lv, 'straight': st, 'cont': co, 'brk': br}


def skeleton_cases(fx):
    """(Coq term, real value) pairs: Model.gen_for for the exported variant vs the compiled CFGs"""
    def val(sk, cont, brk):
        return ([(a, b) for a, b in sk['phi']], sk['back'], cont, brk)
    v = fx['variant']
    return [('for_cfg_val (gen_for %s true)' % v,
             val(fx['straight'], fx['cont']['jump_target'], fx['brk']['jump_target'])),
            ('for_cfg_val (gen_for %s false)' % v,
             val(fx['cont'], fx['cont']['jump_target'], fx['brk']['jump_target'])),
            ('for_cfg_val (gen_for %s false)' % v,
             val(fx['brk'], fx['cont']['jump_target'], fx['brk']['jump_target']))]


# ------------------------------------------------------------------ expressions / conditions (model vs implementation)
CONST_POOL = [0, 1, 2, 3, 7, 10, 63, 64, 255, 2 ** 31, 2 ** 32 + 5, 2 ** 62, 2 ** 63 - 1]
VAL_POOL = [0, 1, -1, 2, -2, 3, -3, 7, -7, 8, -8, 63, 64, 100, -100, 2 ** 31 - 1, -2 ** 31, 2 ** 32, 2 ** 62, -2 ** 62,
            2 ** 63 - 1, -2 ** 63, 2 ** 63 - 2, -2 ** 63 + 1, 3037000499, -3037000500]
NVARS = 3


def gen_expr(rng, depth, ops):
    if depth == 0 or rng.random() < 0.25:
        if rng.random() < 0.6:
            return ('var', rng.randrange(NVARS))
        return ('const', rng.choice(CONST_POOL) if rng.random() < 0.7 else rng.randrange(0, 1000))
    if rng.random() < 0.04:
        return ('neg', gen_expr(rng, depth - 1, ops))
    return ('bin', rng.choice(ops), gen_expr(rng, depth - 1, ops), gen_expr(rng, depth - 1, ops))


def gen_cond(rng, depth, ops):
    """('cmp', op, a, b) | ('not', c) | ('boolop', 'and'|'or', [c1, .., cn]) with n in 2..5, as ast.BoolOp"""
    if depth == 0 or rng.random() < 0.3:
        return ('cmp', rng.choice(list(PCMPS)), gen_expr(rng, rng.choice([0, 1, 2]), ops), gen_expr(rng, 1, ops))
    r = rng.random()
    if r < 0.04:
        return ('not', gen_cond(rng, depth - 1, ops))
    n = rng.choice([2, 2, 3, 3, 3, 4, 5])
    return ('boolop', 'and' if r < 0.52 else 'or',
            [gen_cond(rng, depth - 1 if rng.random() < 0.5 else 0, ops) for _ in range(n)])


def e_src(e):
    k = e[0]
    if k == 'var':
        return 'x%d' % e[1]
    if k == 'const':
        return str(e[1])
    if k == 'neg':
        return '(-%s)' % e_src(e[1])
    return '(%s %s %s)' % (e_src(e[2]), PBIN_SYM[e[1]], e_src(e[3]))


def c_src(c, top=True):
    """operands that are themselves chains are parenthesised so that the nesting survives parsing"""
    k = c[0]
    if k == 'cmp':
        return '%s %s %s' % (e_src(c[2]), PCMPS[c[1]], e_src(c[3]))
    if k == 'not':
        return '(not %s)' % c_src(c[1], False)
    txt = (' %s ' % c[1]).join(c_src(x, False) for x in c[2])
    return txt if top else '(%s)' % txt


def e_coq(e):
    k = e[0]
    if k == 'var':
        return '(PVar %d)' % e[1]
    if k == 'const':
        return '(PConst %s)' % vlib.coq_z(e[1])
    if k == 'neg':
        return '(PNeg %s)' % e_coq(e[1])
    return '(PBin P%s %s %s)' % (e[1], e_coq(e[2]), e_coq(e[3]))


def c_coq(c):
    k = c[0]
    if k == 'cmp':
        return '(PCmp P%s %s %s)' % (c[1], e_coq(c[2]), e_coq(c[3]))
    if k == 'not':
        return '(PNot %s)' % c_coq(c[1])
    return '(PBoolOp %s [%s])' % ('true' if c[1] == 'and' else 'false', '; '.join(c_coq(x) for x in c[2]))


PARAMS = ', '.join('x%d: int' % i for i in range(NVARS))


def compile_quiet(src):
    """python_to_ir; returns (module, None) or (None, 'diag'|'internal:<type>')"""
    python_to_ir, _, _ = _impl()
    from ppci.common import CompilerError
    old = sys.stdout
    sys.stdout = io.StringIO()
    try:
        return python_to_ir(io.StringIO(src)), None
    except CompilerError:
        return None, 'diag'
    except Exception as ex:     # noqa: BLE001
        return None, 'internal:' + type(ex).__name__
    finally:
        sys.stdout = old


def ir_outcome(m, fname, args, fuel=120000):
    """irsem_py outcome rendered as the value Coq's `toval (outcome Z)` has"""
    import irsem_py
    r = irsem_py.run_main(m, fname, list(args), fuel)
    if isinstance(r, OkV):
        return OkV(r.v[0])
    return r


def in64(v):
    return I64[0] <= v < I64[1]


class _Reject(Exception):
    pass


def _chk(v):
    if isinstance(v, int) and not isinstance(v, bool) and not in64(v):
        raise _Reject('overflow')
    return v


class _Instrument(ast.NodeTransformer):
    """wrap every arithmetic result in _chk (64-bit filter) and count loop iterations (step budget);
    the arithmetic itself is CPython's"""

    def visit_BinOp(self, node):
        self.generic_visit(node)
        return ast.copy_location(ast.Call(ast.Name('_chk', ast.Load()), [node], []), node)

    def visit_AugAssign(self, node):
        self.generic_visit(node)
        val = ast.Call(ast.Name('_chk', ast.Load()),
                       [ast.BinOp(ast.Name(node.target.id, ast.Load()), node.op, node.value)], [])
        return ast.copy_location(ast.Assign([ast.Name(node.target.id, ast.Store())], val), node)

    def _loop(self, node):
        self.generic_visit(node)
        node.body.insert(0, ast.Expr(ast.Call(ast.Name('_tick', ast.Load()), [], [])))
        return node
    visit_While = _loop
    visit_For = _loop
    visit_FunctionDef = _loop          # calls count towards the step budget


def cpython_outcome(src, fname, args, budget=4000):
    """run the source under CPython: ('ok', v) | ('reject', why) when outside the property's domain"""
    tree = _Instrument().visit(ast.parse(src))
    ast.fix_missing_locations(tree)
    n = [0]

    def tick():
        n[0] += 1
        if n[0] > budget:
            raise _Reject('budget')
    ns = {'_chk': _chk, '_tick': tick}
    exec(compile(tree, '<c36>', 'exec'), ns)
    try:
        v = ns[fname](*args)
    except _Reject as ex:
        return ('reject', str(ex))
    except ZeroDivisionError:
        return ('reject', 'zerodiv')
    except (ValueError, UnboundLocalError, OverflowError, RecursionError) as ex:
        return ('reject', type(ex).__name__)
    if not isinstance(v, int) or isinstance(v, bool) or not in64(v):
        return ('reject', 'result type/range')
    return ('ok', v)


def expr_cases(ctx, n_expr, n_cond, n_env):
    rng = ctx.rng
    cases, meta = [], []
    sup = ['Add', 'Sub', 'Mult', 'FloorDiv']
    for k in range(n_expr + n_cond):
        ops = sup if rng.random() < 0.8 else PBINS
        is_cond = k >= n_expr
        if is_cond:
            c = gen_cond(rng, rng.choice([1, 2, 2, 3]), ops)
            src = 'def f(%s) -> int:\n    if %s:\n        return 1\n    return 0\n' % (PARAMS, c_src(c))
            term = 'ctree_outcome lowcfg_cur %%s %s' % c_coq(c)
        else:
            e = gen_expr(rng, rng.choice([1, 2, 3, 4]), ops)
            src = 'def f(%s) -> int:\n    return %s\n' % (PARAMS, e_src(e))
            term = 'itree_outcome lowcfg_cur %%s %s' % e_coq(e)
        m, err = compile_quiet(src)
        for _ in range(n_env):
            env = [rng.choice(VAL_POOL) if rng.random() < 0.75 else rng.randrange(-50, 50) for _ in range(NVARS)]
            if err == 'diag':
                val = Diag
            elif err:
                val = Internal
            else:
                val = ir_outcome(m, 'f', env)
                if is_cond and isinstance(val, OkV):
                    val = OkV(bool(val.v))
            cases.append((term % vlib.to_term(env), val))
            meta.append((src, env, val))
            if err:
                break
    return cases, meta


# ------------------------------------------------------------------ statements: model CFG vs decompiled python_to_ir output (tie H)
SVARS = 4
# functions of the module a generated function may call: (name, number of parameters), in definition order
TIE_FUNS = [('g0', 1), ('g1', 2)]
TIE_DEFS = ('def g0(p: int) -> int:\n    return p + 1\n\n'
            'def g1(p: int, q: int) -> int:\n    if p < q:\n        return q - p\n    return g0(p) * q\n\n')


def sgen_block(rng, depth, in_loop, n=None):
    return [sgen_stmt(rng, depth, in_loop) for _ in range(n or rng.choice([1, 1, 2]))]


def sgen_stmt(rng, depth, in_loop):
    ops = ['Add', 'Sub', 'Mult']
    r = rng.random()
    if depth > 0 and r < 0.2:
        return ('if', gen_cond(rng, rng.choice([0, 1, 2]), ops), sgen_block(rng, depth - 1, in_loop),
                sgen_block(rng, depth - 1, in_loop) if rng.random() < 0.6 else [])
    if depth > 0 and r < 0.32:
        return ('while', gen_cond(rng, rng.choice([0, 1]), ops), sgen_block(rng, depth - 1, True))
    if depth > 0 and r < 0.47:
        lo = None if rng.random() < 0.5 else gen_expr(rng, 1, ops)
        return ('for', 3, lo, gen_expr(rng, 1, ops), sgen_block(rng, depth - 1, True))
    if in_loop and r < 0.57:
        return ('if', gen_cond(rng, 0, ops), [(rng.choice(['break', 'continue']),)], [])
    if r < 0.62:
        return ('if', gen_cond(rng, 1, ops), [('ret', gen_expr(rng, 1, ops))], [])
    if r < 0.66:
        return ('pass',)
    if r < 0.74:
        fi = rng.randrange(len(TIE_FUNS))
        return ('call', rng.randrange(SVARS), fi, [gen_expr(rng, 1, ops) for _ in range(TIE_FUNS[fi][1])])
    if r < 0.84:
        return ('aug', rng.randrange(SVARS), rng.choice(ops), gen_expr(rng, 1, ops))
    return ('assign', rng.randrange(SVARS), gen_expr(rng, 2, ops))


def s_src(s, ind):
    p = ' ' * ind
    k = s[0]
    if k in ('pass', 'break', 'continue'):
        return [p + k]
    if k == 'call':
        return [p + 'x%d = %s(%s)' % (s[1], TIE_FUNS[s[2]][0], ', '.join(e_src(a) for a in s[3]))]
    if k == 'assign':
        return [p + 'x%d = %s' % (s[1], e_src(s[2]))]
    if k == 'aug':
        return [p + 'x%d %s= %s' % (s[1], PBIN_SYM[s[2]], e_src(s[3]))]
    if k == 'ret':
        return [p + 'return %s' % e_src(s[1])]
    if k == 'if':
        out = [p + 'if %s:' % c_src(s[1])] + b_src(s[2], ind + 4)
        if s[3]:
            out += [p + 'else:'] + b_src(s[3], ind + 4)
        return out
    if k == 'while':
        return [p + 'while %s:' % c_src(s[1])] + b_src(s[2], ind + 4)
    if k == 'for':
        rg = 'range(%s)' % e_src(s[3]) if s[2] is None else 'range(%s, %s)' % (e_src(s[2]), e_src(s[3]))
        return [p + 'for x%d in %s:' % (s[1], rg)] + b_src(s[4], ind + 4)
    raise AssertionError(k)


def b_src(b, ind):
    return [l for s in b for l in s_src(s, ind)] or [' ' * ind + 'pass']


def s_coq(s):
    k = s[0]
    if k == 'pass':
        return 'PSPass'
    if k == 'break':
        return 'PSBreak'
    if k == 'continue':
        return 'PSContinue'
    if k == 'call':
        return '(PSCall %d %d [%s])' % (s[1], s[2], '; '.join(e_coq(a) for a in s[3]))
    if k == 'assign':
        return '(PSAssign %d %s)' % (s[1], e_coq(s[2]))
    if k == 'aug':
        return '(PSAug %d P%s %s)' % (s[1], s[2], e_coq(s[3]))
    if k == 'ret':
        return '(PSRet %s)' % e_coq(s[1])
    if k == 'if':
        return '(PSIf %s %s %s)' % (c_coq(s[1]), b_coq(s[2]), b_coq(s[3]))
    if k == 'while':
        return '(PSWhile %s %s)' % (c_coq(s[1]), b_coq(s[2]))
    if k == 'for':
        return '(PSFor %d %s %s %s)' % (s[1], e_coq(s[2]) if s[2] is not None else '(PConst 0)', e_coq(s[3]), b_coq(s[4]))
    raise AssertionError(k)


def b_coq(b):
    if not b:
        return 'PSPass'
    if len(b) == 1:
        return s_coq(b[0])
    return '(PSSeq %s %s)' % (s_coq(b[0]), b_coq(b[1:]))


def stmt_cases(ctx, n):
    """(Coq term, decompiled real CFG) pairs"""
    sys.path.insert(0, os.path.dirname(os.path.abspath(__file__)))
    import stmt_decomp
    cases, meta = [], []
    var_index = {'x%d' % i: i for i in range(SVARS)}
    tries = 0
    while len(cases) < n and tries < 4 * n:
        tries += 1
        body = sgen_block(ctx.rng, 2, False, ctx.rng.choice([1, 2, 3])) + [('ret', gen_expr(ctx.rng, 1, ['Add', 'Sub', 'Mult']))]
        src = TIE_DEFS + 'def f(%s) -> int:\n%s\n' % (', '.join('x%d: int' % i for i in range(SVARS)), '\n'.join(b_src(body, 4)))
        m, err = compile_quiet(src)
        if err == 'diag':
            val = Diag
        elif err:
            val = Internal
        else:
            f = [x for x in m.functions if x.name == 'f'][0]
            try:
                val = stmt_decomp.decompile(f, var_index, False, lambda d: 2 * d + 1,
                                            fun_index={n: i for i, (n, _) in enumerate(TIE_FUNS)})
            except stmt_decomp.Unexpected as ex:
                if str(ex) == 'too large':
                    continue
                val = 'decompile: %s' % ex
        cases.append(('pcompile_val lowcfg_cur %s' % b_coq(body), val))
        meta.append(src)
    return cases, meta


# ------------------------------------------------------------------ differential search on generated functions
LOCALS = ['x', 'y', 'z', 's']
ARGS = ['a', 'b', 'c', 'n']        # n is kept small (loop bound)
SOPS = ['+', '-', '*', '//']


class FGen:
    def __init__(self, rng):
        self.rng = rng
        self.nloop = 0
        self.features = set()
        self.loopvars = []
        self.forvars = []

    def atom(self):
        r = self.rng.random()
        if r < 0.45:
            return self.rng.choice(LOCALS + self.loopvars)
        if r < 0.75:
            return self.rng.choice(ARGS)
        if r < 0.83:
            self.features.add('rec-call')
            if self.rng.random() < 0.3:
                return 'gcd(%s, %s)' % (self.rng.choice(ARGS + LOCALS), self.rng.choice(ARGS + LOCALS))
            return self.rng.choice(REC_CALLS + (['is_even(n)', 'is_odd(x)'] if MUTUAL[0] else []))
        return str(self.rng.choice([0, 1, 2, 3, 5, 7, 10, 100, 2 ** 31, 2 ** 40]))

    def expr(self, depth):
        if depth == 0 or self.rng.random() < 0.3:
            return self.atom()
        op = self.rng.choice(SOPS if self.rng.random() < 0.6 else ['+', '-'])
        if op == '//':
            self.features.add('floordiv')
        return '(%s %s %s)' % (self.expr(depth - 1), op, self.expr(depth - 1))

    def cond(self, depth, top=True):
        if depth == 0 or self.rng.random() < 0.45:
            return '%s %s %s' % (self.expr(1), self.rng.choice(list(PCMPS.values())), self.expr(1))
        self.features.add('boolop')
        n = self.rng.choice([2, 2, 3, 3, 4, 5])
        if n >= 3:
            self.features.add('chain3+')
        op = self.rng.choice(['and', 'or'])
        txt = (' %s ' % op).join(self.cond(depth - 1 if self.rng.random() < 0.4 else 0, False) for _ in range(n))
        return txt if top else '(%s)' % txt

    def block(self, depth, in_loop, ind):
        out = []
        for _ in range(self.rng.choice([1, 2, 2, 3])):
            out += self.stmt(depth, in_loop, ind)
        return out

    def stmt(self, depth, in_loop, ind):
        r = self.rng.random()
        p = ' ' * ind
        if depth > 0 and r < 0.22:
            self.features.add('if')
            out = [p + 'if %s:' % self.cond(2)] + self.block(depth - 1, in_loop, ind + 4)
            if self.rng.random() < 0.6:
                out += [p + 'else:'] + self.block(depth - 1, in_loop, ind + 4)
            return out
        if depth > 0 and r < 0.36 and self.nloop < 3:
            self.nloop += 1
            self.features.add('for')
            v = 'i%d' % self.nloop
            k = self.rng.random()
            if k < 0.4:
                rg = 'range(%d)' % self.rng.randrange(0, 6)
            elif k < 0.6:
                rg = 'range(n)'
            elif k < 0.7:
                self.features.add('rec-call')
                rg = 'range(fib(n))'
            else:
                rg = 'range(%s, %s)' % (self.rng.choice(['0', '1', 'n', '2']), self.rng.choice(['n', '4', '(n + 2)']))
            out = [p + 'for %s in %s:' % (v, rg)]
            self.loopvars.append(v)
            self.forvars.append(v)
            out += self.block(depth - 1, True, ind + 4)
            self.forvars.pop()
            self.loopvars.pop()
            return out
        if depth > 0 and r < 0.46 and self.nloop < 3:
            self.nloop += 1
            self.features.add('while')
            k = 'k%d' % self.nloop
            extra = ' and (%s)' % self.cond(1, True) if self.rng.random() < 0.35 else ''
            out = [p + '%s = 0' % k, p + 'while %s < %s%s:' % (k, self.rng.choice(['n', '3', '5']), extra),
                   p + '    %s += 1' % k]
            self.loopvars.append(k)
            out += self.block(depth - 1, True, ind + 4)
            self.loopvars.pop()
            return out
        if r < 0.12:
            # tuple assignment: all right-hand values are evaluated in the old store, then stored left to right
            self.features.add('tuple-assign')
            k = self.rng.random()
            vs = list(LOCALS)
            self.rng.shuffle(vs)
            if k < 0.25:
                return [p + '%s, %s = %s, %s' % (vs[0], vs[1], vs[1], vs[0])]
            if k < 0.45:
                return [p + '%s, %s, %s = %s, %s, %s' % (vs[0], vs[1], vs[2], vs[1], vs[2], vs[0])]
            if k < 0.7:
                return [p + '%s, %s = %s, (%s + %s)' % (vs[0], vs[1], vs[1], vs[0], vs[1])]
            if k < 0.8:
                return [p + '%s, %s = %s, %s' % (vs[0], vs[0], self.expr(1), self.expr(1))]
            n = self.rng.choice([2, 3])
            tg = [self.rng.choice(LOCALS) for _ in range(n)]
            return [p + '%s = %s' % (', '.join(tg), ', '.join(self.expr(1) for _ in range(n)))]
        if self.forvars and r < 0.5:
            # CPython: rebinding the loop variable does not change the iteration sequence
            self.features.add('loopvar-assign')
            v = self.forvars[-1]
            k = self.rng.random()
            asg = p + '%s = %s' % (v, self.rng.choice(['%s + %s' % (v, self.atom()), '%s * 2' % v, self.expr(1), '%s - 1' % v]))
            if k < 0.35:
                return [asg]
            if k < 0.6:
                return [p + 'if %s:' % self.cond(1), '    ' + asg]
            if k < 0.8:
                self.features.add('continue')
                return [asg, p + 'if %s:' % self.cond(1), p + '    continue']
            self.features.add('continue')
            return [p + 'if %s:' % self.cond(1), '    ' + asg, p + '    continue']
        if in_loop and r < 0.58:
            kw = self.rng.choice(['break', 'continue'])
            self.features.add(kw)
            return [p + 'if %s:' % self.cond(1), p + '    ' + kw]
        if r < 0.62:
            self.features.add('return')
            return [p + 'if %s:' % self.cond(1), p + '    return %s' % self.expr(2)]
        if r < 0.75:
            self.features.add('augassign')
            return [p + '%s %s= %s' % (self.rng.choice(LOCALS), self.rng.choice(SOPS), self.expr(2))]
        if r < 0.8:
            self.features.add('call')
            return [p + '%s = h(%s, %s)' % (self.rng.choice(LOCALS), self.expr(1), self.expr(1))]
        return [p + '%s = %s' % (self.rng.choice(LOCALS), self.expr(3))]


HELPER = ('def h(p: int, q: int) -> int:\n    if p < q:\n        return q - p\n    return p - q + 1\n\n'
          'def fact(m: int) -> int:\n    if m <= 1:\n        return 1\n    return m * fact(m - 1)\n\n'
          'def fib(m: int) -> int:\n    if m < 2:\n        return m\n    return fib(m - 1) + fib(m - 2)\n\n'
          'def gcd(p: int, q: int) -> int:\n    if q == 0:\n        return p\n    return gcd(q, p - (p // q) * q)\n\n'
          'def ack(m: int, k: int) -> int:\n    if k < 0 or m < 0:\n        return 0\n    if m == 0:\n        return k + 1\n'
          '    if k == 0:\n        return ack(m - 1, 1)\n    return ack(m - 1, ack(m, k - 1))\n\n')
REC_CALLS = ['fact(n)', 'fib(n)', 'ack(1, n)', 'ack(2, 2)', 'fib(fact(3))']
HELPER_MUTUAL = ('def is_even(m: int) -> int:\n    if m <= 0:\n        return 1\n    return is_odd(m - 1)\n\n'
                 'def is_odd(m: int) -> int:\n    if m <= 0:\n        return 0\n    return is_even(m - 1)\n\n')
MUTUAL = [False]     # set by run() from the forward-call witness


def gen_function(rng):
    g = FGen(rng)
    body = ['    %s = %s' % (v, rng.choice(ARGS + ['0', '1'])) for v in LOCALS]
    # loop variables are pre-bound so that reading them after a loop that never ran is defined
    body += ['    i1 = 0', '    i2 = 0', '    i3 = 0', '    k1 = 0', '    k2 = 0', '    k3 = 0']
    body += g.block(3, False, 4)
    if rng.random() < 0.25:
        g.features.add('loopvar-after')
        body.append('    return %s + i1' % g.expr(2))
    else:
        body.append('    return %s' % g.expr(2))
    src = HELPER + (HELPER_MUTUAL if MUTUAL[0] else '') + 'def f(a: int, b: int, c: int, n: int) -> int:\n' + '\n'.join(body) + '\n'
    return src, sorted(g.features)


def gen_argvecs(rng, k):
    out = [(0, 0, 0, 0), (-7, 2, 3, 5), (7, -2, -3, 4)]
    while len(out) < k:
        big = rng.random() < 0.3
        pool = VAL_POOL if big else [-9, -7, -5, -3, -2, -1, 0, 1, 2, 3, 4, 5, 7, 8, 11, 100, -100, 1000]
        out.append((rng.choice(pool), rng.choice(pool), rng.choice(pool), rng.choice([-2, 0, 1, 2, 3, 4, 5, 6, 7])))
    return out[:k]


def classify(src, feats, err):
    if err:
        return 'compile-' + err + ('-for' if 'for' in feats else '')
    if 'floordiv' in feats:
        return 'value-floordiv'
    if 'loopvar-after' in feats:
        return 'value-loopvar-after'
    if 'tuple-assign' in feats:
        return 'value-tuple-assign'
    if 'loopvar-assign' in feats:
        return 'value-loopvar-assign'
    if 'chain3+' in feats:
        return 'value-boolop-chain'
    return 'value-' + '+'.join(f for f in feats if f in ('for', 'while', 'break', 'continue'))


def diff_one(ctx, src, feats, vecs, st):
    m, err = compile_quiet(src)
    for args in vecs:
        ref = cpython_outcome(src, 'f', args)
        st['runs'] += 1
        if ref[0] != 'ok':
            st['rejected'][ref[1]] = st['rejected'].get(ref[1], 0) + 1
            continue
        st['accepted'] += 1
        if err:
            actual = err
        else:
            actual = ir_outcome(m, 'f', args)
            actual = actual.v if isinstance(actual, OkV) else actual
        if actual != ref[1]:
            st['mismatch'] += 1
            ctx.violation({'fn': 'python_to_ir', 'key': classify(src, feats, err), 'src': src, 'args': list(args),
                           'expected': ref[1], 'actual': repr(actual), 'features': feats,
                           'how_to_replay': 'compile src with ppci.lang.python.python_to_ir, run f(*args) with '
                                            'tools/irsem_py.run_main, compare with CPython exec of src'})
        elif (set(feats) & {'if', 'for', 'while'}) and ref[1] != 0:
            st['nontrivial'] += 1
        if err:
            break


# witnesses of the defects found while building this check; re-executed on every run
WITNESSES = [
    {'id': 'floordiv-trunc', 'src': 'def f(a: int, b: int) -> int:\n    return a // b\n', 'args': [-7, 2]},
    {'id': 'floordiv-aug', 'src': 'def f(a: int, b: int) -> int:\n    a //= b\n    return a\n', 'args': [7, -2]},
    {'id': 'for-continue', 'src': SK_CONT, 'args': [5, 2]},
    {'id': 'for-nested-if', 'src': 'def f(a: int, b: int) -> int:\n    s = 0\n    for i in range(a):\n        if i == b:\n'
                                   '            s = s + 1\n        s = s + i\n    return s\n', 'args': [5, 2]},
    {'id': 'for-nested-for', 'src': 'def f(a: int, b: int) -> int:\n    s = 0\n    for i in range(a):\n'
                                    '        for j in range(b):\n            s = s + i * j\n    return s\n', 'args': [5, 2]},
    {'id': 'for-var-after', 'src': SK_AFTER, 'args': [5, 0]},
    {'id': 'tuple-assign-fib', 'src': 'def f(a: int, b: int) -> int:\n    x = 0\n    y = 1\n    for i in range(a):\n        x, y = y, x + y\n    return x\n',
     'args': [7, 0]},
    {'id': 'tuple-assign-swap', 'src': 'def f(a: int, b: int) -> int:\n    a, b = b, a\n    return a - b\n', 'args': [7, 2]},
    # `/` on ints has no int result: the repaired front-end rejects it (diagnostic = pass), the source as found returns 3
    {'id': 'forward-call', 'fname': 'is_even', 'args': [10],
     'src': 'def is_even(m: int) -> int:\n    if m <= 0:\n        return 1\n    return is_odd(m - 1)\n\n'
            'def is_odd(m: int) -> int:\n    if m <= 0:\n        return 0\n    return is_even(m - 1)\n'},
    {'id': 'int-true-division', 'src': 'def f(a: int, b: int) -> int:\n    return a / b\n', 'args': [7, 2], 'diag_ok': True},
    {'id': 'int-true-division-aug', 'src': 'def f(a: int, b: int) -> int:\n    a /= b\n    return a\n', 'args': [7, 2],
     'diag_ok': True},
    # an operator the front-end does not support must be a diagnostic, not an internal error
    {'id': 'augassign-unsupported-op', 'src': 'def f(a: int, b: int) -> int:\n    a %= b\n    return a\n', 'args': [7, 2],
     'diag_ok': True},
]


def run_witness(w):
    """(expected, actual) with CPython as expected; no domain filter needed for these"""
    ns = {}
    exec(w['src'], ns)
    fname = w.get('fname', 'f')
    exp = ns[fname](*w['args'])
    m, err = compile_quiet(w['src'])
    if err:
        return exp, err
    act = ir_outcome(m, fname, w['args'])
    return exp, (act.v if isinstance(act, OkV) else act)


def run(ctx):
    thorough = not ctx.quick()
    try:
        t = regen(ctx)
    except TieBroken:
        t = None
    ok, _ = ctx.build(['Proofs/C36_current.vo', 'Proofs/C36_stmt.vo', 'Model/Py2Ir.vo', 'Model/Py2IrStmt.vo', 'Gen/Tab_py2ir.vo'])
    if ok:
        ctx.check_props('Props/C36.v')
    model_ok = ok or ctx.build(['Gen/Tab_py2ir.vo'])[0]

    # ---- model vs implementation: expressions, conditions, for skeleton
    if t is not None and model_ok:
        cases, meta = expr_cases(ctx, 260 if thorough else 90, 160 if thorough else 50, 6 if thorough else 4)
        sk = skeleton_cases(t['for'])
        bad = ctx.run_cases('py2ir', ['Spec.IRSyntax', 'Spec.IRSem', 'Spec.PyExprSpec', 'Model.Py2Ir', 'Gen.Tab_py2ir'],
                            cases + sk)
        ctx.cov['stages']['expr_cases'] = {'cases': len(cases), 'skeleton_cases': len(sk),
                                           'diag': sum(1 for _, v in cases if v is Diag),
                                           'ok': sum(1 for _, v in cases if isinstance(v, OkV))}
        ctx.cov['distinct_nontrivial'] += sum(1 for _, v in cases if isinstance(v, OkV) and v.v not in (0, False))
        for src, env, val in meta[:: max(1, len(meta) // 4)]:
            ctx.note_sample({'src': src, 'env': env, 'ir_outcome': repr(val.v) if isinstance(val, OkV) else repr(val)})
        if bad:
            for i in bad[:5]:
                what = meta[i] if i < len(meta) else sk[i - len(meta)]
                ctx.log('model/implementation disagree:', repr(what)[:400])
            ctx.failed_stages.append(('correspondence', 'Model.Py2Ir disagrees with python_to_ir+irsem_py on %d cases, '
                                      'first: %r' % (len(bad), (meta[bad[0]] if bad[0] < len(meta) else
                                                                sk[bad[0] - len(meta)]),)))

    # ---- statements: model CFG (Model/Py2IrStmt.v) vs decompiled python_to_ir output
    if t is not None and model_ok and t['for']['variant'] == 'VIncBlock' and t['for']['loopvar'] == 'LVSlot':
        scases, smeta = stmt_cases(ctx, 120 if thorough else 45)
        sbad = ctx.run_cases('py2irstmt', ['Spec.IRSyntax', 'Spec.IRSem', 'Spec.PyExprSpec', 'Spec.PyStmtSpec', 'Model.Py2Ir',
                                           'Model.StmtCode', 'Model.Py2IrStmt', 'Gen.Tab_py2ir'], scases)
        ctx.cov['stages']['stmt_cfg_cases'] = {'cases': len(scases), 'disagree': len(sbad or [])}
        ctx.cov['distinct_nontrivial'] += len(scases)
        if smeta:
            ctx.note_sample({'stmt_cfg_source': smeta[0]})
        if sbad:
            for i in sbad[:3]:
                ctx.log('statement model / python_to_ir CFG disagree on:\n' + smeta[i] + repr(scases[i][1])[:300])
            ctx.failed_stages.append(('correspondence', 'Model.Py2IrStmt CFG differs from python_to_ir on %d functions, first:\n%s'
                                      % (len(sbad), smeta[sbad[0]])))

    # ---- witnesses of the recorded defects
    wres = {}
    for w in WITNESSES:
        exp, act = run_witness(w)
        if w.get('diag_ok') and act == 'diag':
            wres[w['id']] = 'rejected with a diagnostic'
            continue
        wres[w['id']] = 'fails' if exp != act else 'passes'
        if exp != act:
            ctx.violation({'fn': 'python_to_ir', 'witness': w['id'], 'key': 'witness-' + w['id'], 'src': w['src'],
                           'args': w['args'], 'expected': repr(exp), 'actual': repr(act),
                           'how_to_replay': 'python tools/props/c36.py replay <this file>'})
    ctx.cov['stages']['witnesses'] = wres
    MUTUAL[0] = wres.get('forward-call') == 'passes'

    # ---- differential search: CPython vs python_to_ir + irsem_py
    deep = thorough or bool(ctx.failed_stages)
    nfun = 600 if deep else 150
    st = {'runs': 0, 'accepted': 0, 'rejected': {}, 'mismatch': 0, 'nontrivial': 0, 'features': {}}
    for k in range(nfun):
        src, feats = gen_function(ctx.rng)
        for f in feats:
            st['features'][f] = st['features'].get(f, 0) + 1
        diff_one(ctx, src, feats, gen_argvecs(ctx.rng, 8), st)
        if k % max(1, nfun // 3) == 0:
            ctx.note_sample({'function': src, 'features': feats})
    ctx.cov['stages']['differential'] = dict(st, functions=nfun)
    ctx.cov['evaluations'] += st['runs']
    ctx.cov['distinct_nontrivial'] += st['nontrivial']
    ctx.cov['exhaustive'] = False


def replay(rec):
    """re-execute a recorded counterexample; exit 1 while it still fails"""
    src, args = rec['src'], rec['args']
    if rec.get('witness'):
        exp, act = run_witness({'src': src, 'args': args})
    else:
        ref = cpython_outcome(src, 'f', args)
        exp = ref[1]
        m, err = compile_quiet(src)
        act = err if err else ir_outcome(m, 'f', args)
        act = act.v if isinstance(act, OkV) else act
    print('CPython:', exp, ' ppci (python_to_ir + irsem_py):', act)
    return 1 if exp != act else 0


MANIFEST = {
    'text': 'PARTIAL (other). Coq theorems, unbounded in operand values, for exactly this fragment of '
            'ppci/lang/python/python2ir.py: (1) integer expressions over variables, non-negative literals and + - * // as '
            'lowered by gen_expr/gen_binop with the binop_map and the `//` instruction sequence exported from the current '
            'source evaluate under the IR reference semantics (IRSem.eval_binop on i64) to exactly CPython\'s value whenever '
            'CPython raises nothing and every intermediate value fits 64 bits (c36_expr_exact, c36_floordiv_seq_exact); '
            'operators the front-end rejects (% << >> & | ^, unary -, not) are modelled as rejected; (2) conditions built '
            'from comparisons and and/or lower to a CJump decision tree that yields CPython\'s truth value and does not '
            'evaluate the operand short-circuiting skips (c36_cond_exact, c36_and_skips, c36_or_skips); (3) the block '
            'skeleton gen_for builds (phi inputs, back edge, continue/break targets, loop-variable slot; variant read from '
            'the compiled CFG on every run) performs exactly CPython\'s iterations of range(a, b) in order for every abstract '
            'body that falls through, continues or breaks per iteration, and leaves CPython\'s value in the loop variable '
            '(c36_for_range). For the source as found the same statements are refuted with witnesses (-7 // 2 = -3; '
            'continue / nested control flow in a for body leaves the phi without an input; loop variable = n after the '
            'loop) and proved on the complement (c36_expr_exact_outside, c36_for_range_orig_straight). (4) STATEMENTS: for every '
            'statement tree over assignment, tuple assignment, augmented assignment, calls x = f(e1..en) of module functions (recursion allowed; '
            'c36_module_exact: a module of functions calling each other returns what CPython returns), if/elif/else, while, for-range, break, continue, return, pass and '
            'every environment, if CPython\'s big-step execution (relational spec PyStmtSpec: terminating, exception-free, within '
            '64 bits) ends in return v, the code the gen_statement model emits returns v (c36_stmt_exact, c36_body_exact; rule '
            'induction, continuation-passing simulation, the expression/condition theorems as leaves). LIMIT of (4): the emitted '
            'CFG is modelled unfolded along its forward edges (join blocks duplicated, loop heads/back edges explicit, the for-loop '
            'phi and bound as registers, locals as slots) and executed with IRSem arithmetic, not with IRSem.run_function over '
            'numbered blocks and byte memory; that representation is tied to the real output by decompiling python_to_ir\'s CFG '
            'into the same tree form and comparing it with the model on generated functions every run (45 per quick run). Calls, '
            'block numbering, memory layout and delete_unreachable remain differential-execution validated only (generated annotated functions -> '
            'python_to_ir -> reference IR interpreter vs CPython on boundary and random arguments, 150 functions x 8 vectors '
            'per quick run). Floats and strings are not covered at all.',
    'note': 'theorems are about the hand model coq/Model/Py2Ir.v + tables regenerated from the source; model and '
            'implementation are compared on every run (random expressions/conditions incl. rejected operators, compiled '
            'loop CFG shapes). Trusted: Coq kernel, the export code, the transcription, Spec/IRSem.v as IR meaning, '
            'tools/irsem_py.py, CPython == Spec/PyExprSpec.v. Green only with fixes C36-1..3 applied; int `/` (true '
            'division compiled to integer division) stays a known finding. No axioms.',
    'technique': 'Coq proof over hand model + exported tables; differential execution vs CPython',
}


if __name__ == '__main__' and len(sys.argv) >= 3 and sys.argv[1] == 'replay':
    sys.path.insert(0, os.path.dirname(os.path.dirname(os.path.abspath(__file__))))
    sys.exit(replay(json.load(open(sys.argv[2]))))
