"""C36 -- Python front-end computes what CPython computes (PARTIAL, LEVEL 'other').

tie I: PythonToIrCompiler.binop_map, the compare map inside gen_compare and the instruction
       sequence emitted for integer `a // b` are exported to coq/Gen/Tab_py2ir.v on every run.
tie H: coq/Model/Py2Ir.v models gen_expr/gen_binop (expression -> IR tree), gen_cond/
       gen_compare/gen_bool_op (condition -> CJump decision tree) and the block skeleton of
       gen_for; Props/C36.v states the theorems against coq/Spec/PyExprSpec.v (CPython int
       semantics inside the signed 64-bit range) using IRSem.eval_binop/eval_cond.
Statements (assignment, if/while/for, break/continue, early return, calls) have NO theorem:
they are validated by differential execution only: generated annotated functions ->
python_to_ir -> tools/irsem_py.run_main, compared with CPython executing the same source.
"""
import ast
import inspect
import io
import json
import os
import sys

import vlib
from vlib import OkV, Diag, Internal, TieBroken

LEVEL = 'other'
RULE = ('expression/condition correspondence: seeded random integer expressions (depth <= 4) over the operators of the '
        'exported table, the unsupported ones and //, on boundary/random environments, model outcome vs python_to_ir + '
        'irsem_py outcome; for-skeleton correspondence: predecessor/phi-input sets and continue targets of compiled loops '
        'vs Model.gen_for; differential search: generated annotated functions (arithmetic, comparisons, and/or, nested '
        'if/while/for-range, break/continue, early return, augmented assignment, calls) x 8 argument vectors '
        '(boundary + random), CPython is the oracle, vectors on which CPython overflows 64 bits, divides by zero or '
        'exceeds the step budget are filtered out; distinct non-trivial = (function, argument vector) pairs that CPython '
        'accepts, whose function contains at least one loop or branch and whose result is not 0')
EXPLANATION = ('PARTIAL. Theorems (unbounded in values) cover only: lowering of integer expressions over + - * // '
               '(as the current table/sequence lowers them), comparisons and short-circuit and/or, and the block skeleton '
               'of for-range loops with abstract bodies. NOT proved: statements, variables/stack slots, while loops, '
               'calls, floats, strings, the IR builder, delete_unreachable; those are differential-execution validated only.')
TRUSTED = ['export of binop_map / gen_compare.op_map / the `a // b` instruction sequence (tools/props/c36.py)',
           'hand transcription Model/Py2Ir.v (cross-checked against python_to_ir + irsem_py on every run)',
           'coq/Spec/IRSem.v eval_binop/eval_cond as the meaning of IR (shared hub), tools/irsem_py.py as its executable twin',
           'CPython itself as the executable twin of Spec/PyExprSpec.v (cross-checked on every run)']
ASSUMPTIONS = ['all intermediate values within signed 64 bits; no division by zero (eval64 = Some _)',
               'for-skeleton theorems: loop body abstracted to (ends-in-body-block?, per-iteration exit kind); '
               'bounds with n < 2^63 so that the increment cannot wrap',
               'generated functions initialise every local at function entry (ppci allocates a slot at the first '
               'assignment, wherever that is) and return on every path']

SRC = 'ppci/lang/python/python2ir.py'
PBINS = ['Add', 'Sub', 'Mult', 'FloorDiv', 'Mod', 'LShift', 'RShift', 'BitAnd', 'BitOr', 'BitXor']
PBIN_SYM = {'Add': '+', 'Sub': '-', 'Mult': '*', 'FloorDiv': '//', 'Mod': '%', 'LShift': '<<', 'RShift': '>>',
            'BitAnd': '&', 'BitOr': '|', 'BitXor': '^'}
PBIN_COQ = {k: 'P' + k for k in PBINS}
PCMPS = {'Eq': '==', 'NotEq': '!=', 'Lt': '<', 'LtE': '<=', 'Gt': '>', 'GtE': '>='}
FLOOR_SEQ = [('/', 'SA', 'SB')]
I64 = (-2 ** 63, 2 ** 63)


def _impl():
    vlib.ensure_repo_on_path()
    from ppci.lang.python import python_to_ir
    from ppci.lang.python.python2ir import PythonToIrCompiler
    import irsem_py
    return python_to_ir, PythonToIrCompiler, irsem_py


# ------------------------------------------------------------------ export (tie I)
def export_compare_map(PythonToIrCompiler):
    src = inspect.getsource(PythonToIrCompiler.gen_compare)
    tree = ast.parse('class X:\n' + src if src.startswith('    ') else src)
    for node in ast.walk(tree):
        if isinstance(node, ast.Assign) and len(node.targets) == 1 and isinstance(node.targets[0], ast.Name) \
                and node.targets[0].id == 'op_map' and isinstance(node.value, ast.Dict):
            out = []
            for k, v in zip(node.value.keys, node.value.values):
                if not (isinstance(k, ast.Attribute) and isinstance(k.value, ast.Name) and k.value.id == 'ast'
                        and isinstance(v, ast.Constant) and isinstance(v.value, str)):
                    raise TieBroken('gen_compare.op_map: entry not of the form ast.X: "op"')
                out.append((k.attr, v.value))
            return out
    raise TieBroken('gen_compare: no literal op_map dictionary found')


def export_prog(python_to_ir, op_sym):
    """the straight-line binop program the front-end emits for `return a <op> b` on ints; None when
    the front-end rejects the operator; TieBroken when the emitted code has another shape"""
    from ppci import ir
    from ppci.common import CompilerError
    src = 'def f(a: int, b: int) -> int:\n    return a %s b\n' % op_sym
    old = sys.stdout
    sys.stdout = io.StringIO()      # not_impl prints dir(node)
    try:
        m = python_to_ir(io.StringIO(src))
    except CompilerError:
        return None
    finally:
        sys.stdout = old
    f = [x for x in m.functions if x.name == 'f'][0]
    blocks = list(f)
    if len(blocks) != 1:
        raise TieBroken('`a %s b` compiles to %d blocks' % (op_sym, len(blocks)))
    slot, ref, prog = {}, {}, []
    params = {p: n for p, n in zip(f.arguments, ('SA', 'SB'))}
    for ins in blocks[0]:
        if isinstance(ins, ir.Alloc):
            continue
        if isinstance(ins, ir.AddressOf):
            continue
        if isinstance(ins, ir.Store) and ins.value in params:
            slot[ins.address] = params[ins.value]
        elif isinstance(ins, ir.Load) and ins.address in slot and ins.ty is ir.i64:
            ref[ins] = slot[ins.address]
        elif isinstance(ins, ir.Const) and ins.ty is ir.i64 and isinstance(ins.value, int):
            ref[ins] = 'SK (%s)' % vlib.coq_z(ins.value)
        elif isinstance(ins, ir.Binop) and ins.ty is ir.i64 and ins.a in ref and ins.b in ref:
            prog.append((ins.operation, ref[ins.a], ref[ins.b]))
            ref[ins] = 'SR %d' % (len(prog) - 1)
        elif isinstance(ins, ir.Return):
            if not prog or ref.get(ins.result) != 'SR %d' % (len(prog) - 1):
                raise TieBroken('`a %s b`: returned value is not the last binop' % op_sym)
        else:
            raise TieBroken('`a %s b`: unexpected instruction %s' % (op_sym, ins))
    return prog


def export_tables():
    python_to_ir, PythonToIrCompiler, _ = _impl()
    bm = PythonToIrCompiler.binop_map
    if not isinstance(bm, dict):
        raise TieBroken('binop_map is not a dict')
    binops = []
    for k, v in bm.items():
        if not (isinstance(k, type) and issubclass(k, ast.operator) and isinstance(v, str)):
            raise TieBroken('binop_map entry %r: %r' % (k, v))
        binops.append((k.__name__, v))
    cmps = export_compare_map(PythonToIrCompiler)
    fd = export_prog(python_to_ir, '//')
    return {'binops': binops, 'cmps': cmps, 'floordiv': fd or []}


def table_text(t):
    def tab(l):
        return '[' + '; '.join('(%s, %s)' % (vlib.coq_str(a), vlib.coq_str(b)) for a, b in l) + ']'
    prog = '[' + '; '.join('(%s, %s, %s)' % (vlib.coq_str(o), a, b) for o, a, b in t['floordiv']) + ']'
    return ('(* GENERATED by tools/props/c36.py from %s -- do not edit *)\n'
            'From PV Require Import Lib.Py Spec.PyExprSpec Model.Py2Ir.\n'
            'From Coq Require Import String.\nLocal Open Scope string_scope.\nLocal Open Scope Z_scope.\n'
            'Definition binop_tab : tab := %s.\n'
            'Definition cmp_tab : tab := %s.\n'
            'Definition floordiv_prog : sprog := %s.\n'
            'Definition lowcfg_cur : lowcfg := mk_lowcfg binop_tab cmp_tab floordiv_prog.\n'
            % (SRC, tab(t['binops']), tab(t['cmps']), prog))


def regen(ctx):
    try:
        t = export_tables()
    except TieBroken as ex:
        ctx.log('table export failed:', ex)
        ctx.failed_stages.append(('export', str(ex)))
        raise
    changed = ctx.write_gen('Tab_py2ir', table_text(t))
    ctx.cov['stages']['gen_Tab_py2ir'] = {'file': SRC, 'changed_on_disk': changed, 'binop_map': t['binops'],
                                          'compare_map': t['cmps'], 'floordiv_prog': t['floordiv']}
    return t
