"""C21 — WebAssembly modules round-trip through binary and text forms (DESIGN §4 C21). PARTIAL.

tie I: Gen/Tab_wasm_opcodes.v = OPCODES / REVERZ / OPERANDS of ppci.wasm.opcodes, the wfm/rfm
       dispatch tables of binary/writer.py and binary/reader.py (probed with recording mocks),
       LANG_TYPES(+reverse), SECTION_IDS and the reader method of the datacount section.
tie H: Model/WasmBin.v mirrors binary/writer.py and binary/reader.py over those tables;
       correspondence = generated modules, real Module.to_bytes()/Module(bytes) vs the model.
The text form (text/parser.py, text/writer.py) is validated by round trip only.
"""
import os
import re
import struct

from vlib import OkV, Diag, Internal, TieBroken, coq_z

LEVEL = 'other'

KIND_NAMES = {
    'TYPE': 'KType', 'HEAPTYPE': 'KHeapType', 'U8': 'KU8', 'U32': 'KU32', 'I32': 'KI32', 'I64': 'KI64',
    'F32': 'KF32', 'F64': 'KF64', 'U8x16': 'KU8x16', 'TYPEIDX': 'KTypeIdx', 'TABLEIDX': 'KTableIdx',
    'LOCALIDX': 'KLocalIdx', 'BLOCKIDX': 'KBlockIdx', 'FUNCIDX': 'KFuncIdx', 'LABELIDX': 'KLabelIdx',
    'GLOBALIDX': 'KGlobalIdx', 'ELEMIDX': 'KElemIdx', 'DATAIDX': 'KDataIdx',
}


# ---------------------------------------------------------------- tie I: table export
def coq_string(s):
    if not all(32 <= ord(c) < 127 and c != '"' for c in s):
        raise TieBroken('unexpected character in table string %r' % (s,))
    return '"%s"' % s


def kind_name(o):
    import ppci.wasm.opcodes as O
    if isinstance(o, O.ArgType):
        if o.name not in KIND_NAMES:
            raise TieBroken('unknown ArgType member %s' % o.name)
        return KIND_NAMES[o.name]
    if o == 'br_table':
        return 'KBrTable'
    if o == 'result_types':
        return 'KResultTypes'
    raise TieBroken('unknown operand kind %r' % (o,))


def code_term(c):
    if isinstance(c, tuple):
        if not (len(c) == 2 and all(isinstance(x, int) for x in c)):
            raise TieBroken('unexpected opcode %r' % (c,))
        return '(%d, Some %d)' % c
    if not isinstance(c, int):
        raise TieBroken('unexpected opcode %r' % (c,))
    return '(%d, None)' % c


class _Recorder:
    """mock reader/writer that records which method a dispatch lambda calls"""
    def __init__(self):
        self.calls = []

    def __getattr__(self, name):
        def f(*a, **k):
            self.calls.append((name, a))
            return 5
        return f


def probe_wfm(wfm):
    mp = {'write_type': 'WType', 'write_vu32': 'WVu32', 'write_ref': 'WRef', 'write_vs32': 'WVs32',
          'write_vs64': 'WVs64', 'write_f32': 'WF32', 'write_f64': 'WF64'}
    out = []
    for k, fn in wfm.items():
        r = _Recorder()
        fn(r, 7)
        if len(r.calls) != 1:
            raise TieBroken('wfm[%s] makes %d writer calls' % (k, len(r.calls)))
        name, a = r.calls[0]
        if name == 'write' and a == (bytes([7]),):
            m = 'WByte'
        elif name in mp and a == (7,):
            m = mp[name]
        else:
            raise TieBroken('wfm[%s] calls %s%r' % (k, name, a))
        out.append((kind_name(k), m))
    return out


def probe_rfm(rfm):
    mp = {'read_type': 'RType', 'read_byte': 'RByte', 'read_uint': 'RUint', 'read_int': 'RInt',
          'read_f32': 'RF32', 'read_f64': 'RF64'}
    out = []
    for k, fn in rfm.items():
        r = _Recorder()
        res = fn(r)
        if len(r.calls) != 1 or res != 5:
            raise TieBroken('rfm[%s] makes %d reader calls' % (k, len(r.calls)))
        name, a = r.calls[0]
        if name in mp and a == ():
            m = mp[name]
        elif name == 'read_space_ref' and len(a) == 1 and isinstance(a[0], str):
            m = '(RSpaceRef %s)' % coq_string(a[0])
        elif name == 'read_exactly' and len(a) == 1 and isinstance(a[0], int):
            m = '(RExactly %d)' % a[0]
        else:
            raise TieBroken('rfm[%s] calls %s%r' % (k, name, a))
        out.append((kind_name(k), m))
    return out


def probe_datacount():
    """which reader method read_data_count_definition uses / which writer method its writer uses"""
    from ppci.wasm.binary.reader import BinaryFileReader
    from ppci.wasm.binary.writer import BinaryFileWriter
    from ppci.wasm import components
    r = _Recorder()
    d = BinaryFileReader.read_data_count_definition(r)
    if len(r.calls) != 1 or r.calls[0][1] != () or d.n != 5 or r.calls[0][0] not in ('read_int', 'read_uint'):
        raise TieBroken('read_data_count_definition: unexpected shape %r' % (r.calls,))
    w = _Recorder()
    BinaryFileWriter.write_data_count_definition(w, components.DataCount(7))
    if w.calls != [('write_vu32', (7,))]:
        raise TieBroken('write_data_count_definition: unexpected shape %r' % (w.calls,))
    return 'RInt' if r.calls[0][0] == 'read_int' else 'RUint'


def export_tables():
    import importlib
    import ppci.wasm.opcodes as O
    import ppci.wasm.binary.writer as W
    import ppci.wasm.binary.reader as R
    import ppci.wasm.binary.io as IO
    import ppci.wasm.components as C
    L = []
    L.append('(* GENERATED by tools/props/c21.py from ppci/wasm/opcodes.py, binary/{writer,reader,io}.py,')
    L.append('   components.py (SECTION_IDS) — do not edit *)')
    L.append('From PV Require Import Lib.Py Model.WasmTypes.')
    L.append('From Coq Require Import String.')
    L.append('Local Open Scope Z_scope.\nLocal Open Scope string_scope.\n')
    L.append('Definition opcodes : list (string * code) := [')
    L.append(';\n'.join('  (%s, %s)' % (coq_string(k), code_term(v)) for k, v in O.OPCODES.items()))
    L.append('].\n')
    L.append('Definition reverz : list (code * string) := [')
    L.append(';\n'.join('  (%s, %s)' % (code_term(k), coq_string(v)) for k, v in O.REVERZ.items()))
    L.append('].\n')
    L.append('Definition operands : list (string * list akind) := [')
    L.append(';\n'.join('  (%s, [%s])' % (coq_string(k), '; '.join(kind_name(o) for o in v))
                        for k, v in O.OPERANDS.items()))
    L.append('].\n')
    L.append('Definition wfm : list (akind * wmeth) := [%s].\n' % '; '.join('(%s, %s)' % x for x in probe_wfm(W.wfm)))
    L.append('Definition rfm : list (akind * rmeth) := [%s].\n' % '; '.join('(%s, %s)' % x for x in probe_rfm(R.rfm)))
    L.append('Definition lang_types : list (string * list Z) := [%s].\n' % '; '.join(
        '(%s, [%s])' % (coq_string(k), '; '.join(str(b) for b in v)) for k, v in IO.LANG_TYPES.items()))
    L.append('Definition lang_types_reverse : list (Z * string) := [%s].\n' % '; '.join(
        '(%d, %s)' % (k, coq_string(v)) for k, v in IO.LANG_TYPES_REVERSE.items()))
    L.append('Definition section_ids : list (string * Z) := [%s].\n' % '; '.join(
        '(%s, %d)' % (coq_string(k), v) for k, v in C.SECTION_IDS.items()))
    L.append('Definition datacount_reader : rmeth := %s.\n' % probe_datacount())
    return '\n'.join(L)


def export_text_tables():
    """facts the text writer/parser derive from a mnemonic: the '.load'/'.store' substring test and
    default_alignment (by calling it), the _log2 table, the block mnemonics"""
    import ppci.wasm.opcodes as O
    import ppci.wasm.text.util as U
    L = ['(* GENERATED by tools/props/c21.py from ppci/wasm/text/util.py and opcodes.py — do not edit *)',
         'From PV Require Import Lib.Py.', 'From Coq Require Import String.',
         'Local Open Scope Z_scope.', 'Local Open Scope string_scope.', '']
    rows = []
    for op in O.OPCODES:
        if '.load' in op or '.store' in op:
            try:
                a = U.default_alignment(op)
                if not isinstance(a, int):
                    raise TieBroken('default_alignment(%s) = %r' % (op, a))
                rows.append('  (%s, Some %d)' % (coq_string(op), a))
            except (KeyError, ValueError):
                rows.append('  (%s, None)' % coq_string(op))
    L.append('(* mnemonics containing ".load" or ".store": Some (default alignment, log2) / None = default_alignment raises *)')
    L.append('Definition text_mem : list (string * option Z) := [\n%s].\n' % ';\n'.join(rows))
    if not all(isinstance(k, int) and isinstance(v, int) for k, v in U._log2.items()):
        raise TieBroken('unexpected _log2 table')
    L.append('Definition log2_table : list (Z * Z) := [%s].\n' % '; '.join('(%d, %d)' % kv for kv in U._log2.items()))
    # per-defect switches, probed on the implementation (the model follows the repaired code)
    from ppci.wasm import Module
    from ppci.wasm.components import Instruction, Ref
    try:
        m = Module('(module (type (func)) (func (type 0) memory.fill 0 nop))')
        ins = [d for d in m.definitions if d.__name__ == 'func'][0].instructions
        u8 = [i.opcode for i in ins] == ['memory.fill', 'nop']
    except Exception:   # noqa: BLE001
        u8 = False
    L.append('(* the text parser consumes an integer token for a U8 operand when one is present *)')
    L.append('Definition text_u8_consumes : bool := %s.\n' % ('true' if u8 else 'false'))
    txt = Instruction('call_indirect', Ref('type', index=2), Ref('table', index=1)).to_string()
    if txt == 'call_indirect 1 (type 2)':
        ci = True
    elif txt == 'call_indirect (type 2) (const.i64 1)':
        ci = False
    else:
        raise TieBroken('unexpected text of call_indirect: %r' % (txt,))
    L.append('(* call_indirect on table n <> 0 is printed "call_indirect n (type t)" *)')
    L.append('Definition text_ci_table_first : bool := %s.\n' % ('true' if ci else 'false'))
    return '\n'.join(L)


def regen(ctx):
    try:
        ctx.write_gen('Tab_wasm_text', export_text_tables())
        text = export_tables()
    except TieBroken:
        raise
    except Exception as ex:   # noqa: BLE001
        ctx.failed_stages.append(('export', repr(ex)))
        raise TieBroken('table export failed: %r' % (ex,))
    changed = ctx.write_gen('Tab_wasm_opcodes', text)
    ctx.cov['stages']['gen_Tab_wasm_opcodes'] = {'changed_on_disk': changed, 'bytes': len(text)}
    return text


# ---------------------------------------------------------------- tie H: python objects -> model terms
def cs(s):
    return coq_string(s) + '%string'


def zl(bs):
    if len(bs) > 3 and all(0 <= int(b) < 256 for b in bs):
        return '(bytes_of_hex "%s"%%string)' % bytes(bs).hex()
    return '[%s]' % '; '.join(coq_z(int(b)) for b in bs)


def sl(ss):
    return '[%s]' % '; '.join(cs(s) for s in ss)


def ref_t(r):
    return '(%s, %s)' % (cs(r.space), coq_z(r.index))


def float_raw(kind, x):
    if kind == 'F32' and hasattr(x, 'raw32'):      # bit-preserving f32 constant (after fixes/C21-f32-keep-bits)
        return bytes(x.raw32)
    return struct.pack('<f' if kind == 'F32' else '<d', x)


def arg_repr(kind, a):
    """(coq term, python value rendered like Model.WasmBinVal.arg_val) of one instruction argument"""
    from ppci.wasm.components import Ref
    kn = kind if isinstance(kind, str) else kind.name
    if isinstance(a, bool):
        raise ValueError('bool arg')
    if isinstance(a, int):
        return 'AInt %s' % coq_z(a), ('i', a)
    if isinstance(a, str):
        return 'AStr %s' % cs(a), ('s', a)
    if isinstance(a, Ref):
        return 'ARef %s %s' % (cs(a.space), coq_z(a.index)), ('r', a.space, a.index)
    if isinstance(a, float):
        raw = float_raw(kn, a)
        return 'AFloat %s' % zl(raw), ('f', raw)
    if isinstance(a, (bytes, bytearray)):
        return 'ABytes %s' % zl(a), ('b', bytes(a))
    if isinstance(a, list):
        if kn == 'br_table' or (a and isinstance(a[0], Ref)):
            return 'ARefs [%s]' % '; '.join(ref_t(r) for r in a), ('rs', [(r.space, r.index) for r in a])
        return 'AStrs %s' % sl(a), ('ss', list(a))
    raise ValueError('arg %r' % (a,))


def instr_repr(i):
    import ppci.wasm.opcodes as O
    kinds = O.OPERANDS.get(i.opcode, ())
    if len(kinds) != len(i.args):
        kinds = ['?'] * len(i.args)
    parts = [arg_repr(k, a) for k, a in zip(kinds, i.args)]
    return ('Instr %s [%s]' % (cs(i.opcode), '; '.join('(%s)' % p[0] for p in parts)),
            (i.opcode, [p[1] for p in parts]))


def expr_repr(l):
    parts = [instr_repr(i) for i in l]
    return '[%s]' % '; '.join('(%s)' % p[0] for p in parts), [p[1] for p in parts]


def optz(x):
    return 'None' if x is None else '(Some %s)' % coq_z(x)


def utf8(s):
    return s.encode('utf-8')


def defn_repr(d):
    """(coq term of Model.WasmBin.defn, python value rendered like defn_val)"""
    from ppci.wasm import components as C
    if isinstance(d, C.Type):
        ps = [t for _, t in d.params]
        return 'DType %s %s' % (sl(ps), sl(d.results)), ('type', ps, list(d.results))
    if isinstance(d, C.Import):
        mn, nm = utf8(d.modname), utf8(d.name)
        if d.kind == 'func':
            it, iv = 'IFunc %s' % ref_t(d.info[0]), ('func', (d.info[0].space, d.info[0].index))
        elif d.kind == 'table':
            it, iv = 'ITable %s %s %s' % (cs(d.info[0]), coq_z(d.info[1]), optz(d.info[2])), ('table',) + tuple(d.info)
        elif d.kind == 'memory':
            it, iv = 'IMemory %s %s' % (coq_z(d.info[0]), optz(d.info[1])), ('memory',) + tuple(d.info)
        else:
            it, iv = ('IGlobal %s %s' % (cs(d.info[0]), 'true' if d.info[1] else 'false'),
                      ('global', d.info[0], bool(d.info[1])))
        return 'DImport %s %s (%s)' % (zl(mn), zl(nm), it), ('import', mn, nm, iv)
    if isinstance(d, C.Table):
        return 'DTable %s %s %s' % (cs(d.kind), coq_z(d.min), optz(d.max)), ('table', d.kind, d.min, d.max)
    if isinstance(d, C.Memory):
        return 'DMemory %s %s' % (coq_z(d.min), optz(d.max)), ('memory', d.min, d.max)
    if isinstance(d, C.Global):
        et, ev = expr_repr(d.init)
        return ('DGlobal %s %s %s' % (cs(d.typ), 'true' if d.mutable else 'false', et),
                ('global', d.typ, bool(d.mutable), ev))
    if isinstance(d, C.Export):
        nm = utf8(d.name)
        return ('DExport %s %s %s' % (zl(nm), cs(d.kind), ref_t(d.ref)),
                ('export', nm, d.kind, (d.ref.space, d.ref.index)))
    if isinstance(d, C.Start):
        return 'DStart %s' % ref_t(d.ref), ('start', (d.ref.space, d.ref.index))
    if isinstance(d, C.Elem):
        r, off = d.mode
        et, ev = expr_repr(off)
        return ('DElem %s %s [%s]' % (ref_t(r), et, '; '.join(ref_t(x) for x in d.refs)),
                ('elem', (r.space, r.index), ev, [(x.space, x.index) for x in d.refs]))
    if isinstance(d, C.Func):
        ls = [t for _, t in d.locals]
        et, ev = expr_repr(d.instructions)
        return ('DFunc %s %s %s' % (ref_t(d.ref), sl(ls), et),
                ('func', (d.ref.space, d.ref.index), ls, ev))
    if isinstance(d, C.Data):
        if d.mode:
            r, off = d.mode
            et, ev = expr_repr(off)
            mt, mv = '(Some (%s, %s))' % (ref_t(r), et), ((r.space, r.index), ev)
        else:
            mt, mv = 'None', None
        return 'DData %s %s' % (mt, zl(d.data)), ('data', mv, bytes(d.data))
    if isinstance(d, C.DataCount):
        return 'DDataCount %s' % coq_z(d.n), ('datacount', d.n)
    if isinstance(d, C.Custom):
        nm = utf8(d.name)
        return 'DCustom %s %s' % (zl(nm), zl(d.data)), ('custom', nm, bytes(d.data))
    raise ValueError('definition %r' % (d,))


def defs_repr(defs):
    parts = [defn_repr(d) for d in defs]
    return '[%s]' % ';\n  '.join('(%s)' % p[0] for p in parts), [p[1] for p in parts]


def make_module(defs):
    from ppci.wasm import Module
    m = Module()
    m.definitions = list(defs)
    return m


# ---------------------------------------------------------------- generators (seeded from ctx.rng only)
U32_POOL = [0, 1, 2, 3, 63, 64, 65, 127, 128, 129, 255, 256, 16383, 16384, 65535, 65536, 2 ** 21 - 1, 2 ** 21,
            2 ** 28 - 1, 2 ** 28, 2 ** 31 - 1, 2 ** 31, 2 ** 32 - 1]
I32_POOL = [0, 1, -1, 63, 64, -64, -65, 127, 128, -128, -129, 8191, 8192, -8192, -8193, 2 ** 20, -2 ** 20 - 1,
            2 ** 27 - 1, 2 ** 27, -2 ** 27, -2 ** 27 - 1, 2 ** 31 - 1, -2 ** 31, 0x7fffffff, 123456789, -123456789]
I64_POOL = I32_POOL + [2 ** 31, -2 ** 31 - 1, 2 ** 32, 2 ** 34, -2 ** 34 - 1, 2 ** 41 - 1, 2 ** 48, -2 ** 48 - 1, 2 ** 55, -2 ** 55 - 1,
                       2 ** 62 - 1, 2 ** 62, -2 ** 62, -2 ** 62 - 1, 2 ** 63 - 1, -2 ** 63, 2 ** 63 - 2, -2 ** 63 + 1]
F32_RAW = ['00000000', '00000080', '0000803f', '000080bf', '0000c03f', '0000807f', '000080ff', '0000c07f', '0100c07f',
           'ffffff7f', '01000000', 'ffff7f7f', 'ffff7f00', 'db0f4940', '0000c0ff', 'ffffffff', 'cdcccc3d']
F64_RAW = ['0000000000000000', '0000000000000080', '000000000000f03f', '000000000000f0bf', '000000000000f07f',
           '000000000000f0ff', '000000000000f87f', '010000000000f87f', '010000000000f07f', 'ffffffffffffff7f',
           '0100000000000000', 'ffffffffffffef7f', '182d4454fb210940', '9a9999999999b93f', 'ffffffffffffffff']
VALTYPES = ['i32', 'i64', 'f32', 'f64']
BLOCKTYPES = ['emptyblock', 'i32', 'i64', 'f32', 'f64']
NAMES = ['', 'a', 'mem', 'main', 'env', 'x.y', 'fü', '☃', 'a b', 'long_name_' * 14]


def is_f32_snan(raw):
    v = int.from_bytes(raw, 'little')
    return (v >> 23) & 0xFF == 0xFF and (v & 0x7FFFFF) != 0 and not (v >> 22) & 1


def pick(rng, pool, lo, hi):
    if rng.random() < 0.7:
        return rng.choice(pool)
    return rng.randrange(lo, hi)


def gen_f32(rng):
    while True:
        raw = bytes.fromhex(rng.choice(F32_RAW)) if rng.random() < 0.6 else bytes(rng.randrange(256) for _ in range(4))
        if not is_f32_snan(raw):
            return struct.unpack('<f', raw)[0]


def gen_f64(rng):
    raw = bytes.fromhex(rng.choice(F64_RAW)) if rng.random() < 0.6 else bytes(rng.randrange(256) for _ in range(8))
    return struct.unpack('<d', raw)[0]


SPACE_OF = {'LABELIDX': 'label', 'LOCALIDX': 'local', 'GLOBALIDX': 'global', 'FUNCIDX': 'func',
            'TYPEIDX': 'type', 'TABLEIDX': 'table'}


def gen_arg(rng, kind, small_idx=None):
    from ppci.wasm.components import Ref
    kn = kind if isinstance(kind, str) else kind.name
    if kn == 'TYPE':
        return rng.choice(BLOCKTYPES)
    if kn == 'U8':
        return 0 if rng.random() < 0.6 else rng.randrange(256)
    if kn == 'U32':
        return pick(rng, U32_POOL, 0, 2 ** 32)
    if kn in SPACE_OF:
        if small_idx is not None:
            return Ref(SPACE_OF[kn], index=rng.randrange(small_idx))
        return Ref(SPACE_OF[kn], index=pick(rng, U32_POOL, 0, 2 ** 32))
    if kn == 'I32':
        return pick(rng, I32_POOL, -2 ** 31, 2 ** 31)
    if kn == 'I64':
        return pick(rng, I64_POOL, -2 ** 63, 2 ** 63)
    if kn == 'F32':
        return gen_f32(rng)
    if kn == 'F64':
        return gen_f64(rng)
    if kn == 'br_table':
        return [Ref('label', index=pick(rng, U32_POOL[:8], 0, 300)) for _ in range(rng.randrange(1, 6))]
    if kn == 'result_types':
        return [rng.choice(VALTYPES) for _ in range(rng.choice([0, 0, 1, 1, 2]))]
    raise KeyError(kn)


def supported_ops():
    """mnemonics whose operand kinds the binary writer and reader both handle"""
    import ppci.wasm.opcodes as O
    import ppci.wasm.binary.writer as W
    import ppci.wasm.binary.reader as R
    out = []
    for op, kinds in O.OPERANDS.items():
        if all((k in W.wfm and k in R.rfm) or k in ('br_table', 'result_types') for k in kinds):
            out.append(op)
    return out


CONTROL = ('block', 'loop', 'if', 'else', 'end')


def gen_plain_instr(rng, ops, mvp_bias=True):
    import ppci.wasm.opcodes as O
    from ppci.wasm.components import Instruction
    while True:
        op = rng.choice(ops)
        if op in CONTROL:
            continue
        code = O.OPCODES[op]
        if mvp_bias and isinstance(code, tuple) and code[0] == 0xFD and rng.random() < 0.8:
            continue
        return Instruction(op, *[gen_arg(rng, k) for k in O.OPERANDS[op]])


INTERESTING = ['i32.const', 'i64.const', 'f32.const', 'f64.const', 'br_table', 'call_indirect', 'i32.load', 'i64.store',
               'f64.load', 'i32.store8', 'memory.size', 'memory.grow', 'select', 'br', 'br_if', 'call', 'local.get',
               'global.set', 'memory.copy', 'memory.fill', 'table.copy', 'i32.trunc_sat_f64_u']


def gen_body(rng, ops, n, depth=0):
    """a balanced instruction list with nested block/loop/if-else"""
    from ppci.wasm.components import Instruction, BlockInstruction
    import ppci.wasm.opcodes as O
    out = []
    while n > 0:
        r = rng.random()
        if r < 0.18 and depth < 4:
            kind = rng.choice(['block', 'loop', 'if'])
            out.append(BlockInstruction(kind, rng.choice(BLOCKTYPES)))
            k = rng.randrange(0, max(1, n))
            out += gen_body(rng, ops, k, depth + 1)
            if kind == 'if' and rng.random() < 0.6:
                out.append(Instruction('else'))
                out += gen_body(rng, ops, rng.randrange(0, 3), depth + 1)
            out.append(Instruction('end'))
            n -= k + 1
        elif r < 0.6:
            op = rng.choice([o for o in INTERESTING if o in ops] or ops)
            out.append(Instruction(op, *[gen_arg(rng, k) for k in O.OPERANDS[op]]))
            n -= 1
        else:
            out.append(gen_plain_instr(rng, ops))
            n -= 1
    return out


def gen_const_expr(rng):
    from ppci.wasm.components import Instruction, Ref
    r = rng.random()
    if r < 0.4:
        return [Instruction('i32.const', pick(rng, I32_POOL, -2 ** 31, 2 ** 31))]
    if r < 0.55:
        return [Instruction('i64.const', pick(rng, I64_POOL, -2 ** 63, 2 ** 63))]
    if r < 0.7:
        return [Instruction('f64.const', gen_f64(rng))]
    if r < 0.8:
        return [Instruction('f32.const', gen_f32(rng))]
    if r < 0.9:
        return [Instruction('global.get', Ref('global', index=rng.randrange(4)))]
    return [Instruction('i32.const', 1), Instruction('i32.const', 2), Instruction('i32.add')]


def gen_limits(rng):
    mn = pick(rng, U32_POOL[:14], 0, 70000)
    return mn, (None if rng.random() < 0.5 else mn + pick(rng, U32_POOL[:14], 0, 70000))


def gen_module_defs(rng, ops, size=None, datacount_max=64):
    """definitions of a random module, in a random (not section-sorted) order in 30% of the cases"""
    from ppci.wasm import components as C
    from ppci.wasm.components import Ref
    size = size if size is not None else rng.choice([0, 1, 2, 3, 5, 8])
    defs = []
    ntypes = rng.randrange(0, size + 2)
    for i in range(ntypes):
        defs.append(C.Type(i, [(j, rng.choice(VALTYPES)) for j in range(rng.choice([0, 1, 2, 3, 7]))],
                           [rng.choice(VALTYPES) for _ in range(rng.choice([0, 1, 1, 2]))]))
    nimp = rng.randrange(0, size + 1)
    for i in range(nimp):
        kind = rng.choice(['func', 'table', 'memory', 'global'])
        if kind == 'func':
            info = (Ref('type', index=rng.randrange(max(1, ntypes))),)
        elif kind == 'table':
            info = ('funcref',) + gen_limits(rng)
        elif kind == 'memory':
            info = gen_limits(rng)
        else:
            info = (rng.choice(VALTYPES), rng.random() < 0.5)
        defs.append(C.Import(rng.choice(NAMES), rng.choice(NAMES), kind, i, info))
    nfunc = rng.randrange(0, size + 1)
    for i in range(nfunc):
        nloc = rng.choice([0, 0, 1, 2, 3, 5, 9])
        locs, t = [], rng.choice(VALTYPES)
        for _ in range(nloc):
            if rng.random() < 0.5:
                t = rng.choice(VALTYPES)
            locs.append((None, t))
        defs.append(C.Func(i, Ref('type', index=rng.randrange(max(1, ntypes))), locs,
                           gen_body(rng, ops, rng.choice([0, 1, 3, 6, 12, 25]))))
    for i in range(rng.randrange(0, 2 + (size > 3))):
        defs.append(C.Table(i, 'funcref', *gen_limits(rng)))
    for i in range(rng.randrange(0, 2 + (size > 3))):
        defs.append(C.Memory(i, *gen_limits(rng)))
    for i in range(rng.randrange(0, size + 1)):
        defs.append(C.Global(i, rng.choice(VALTYPES), rng.random() < 0.5, gen_const_expr(rng)))
    for i in range(rng.randrange(0, size + 1)):
        kind = rng.choice(['func', 'table', 'memory', 'global'])
        defs.append(C.Export(rng.choice(NAMES), kind, Ref(kind, index=rng.randrange(0, 5))))
    if rng.random() < 0.3:
        defs.append(C.Start(Ref('func', index=rng.randrange(0, 5))))
    for i in range(rng.randrange(0, 1 + (size > 1))):
        defs.append(C.Elem(i, (Ref('table', index=0), gen_const_expr(rng)),
                           [Ref('func', index=pick(rng, U32_POOL[:10], 0, 500)) for _ in range(rng.randrange(0, 5))]))
    ndata = rng.randrange(0, size + 1)
    for i in range(ndata):
        r = rng.random()
        data = bytes(rng.randrange(256) for _ in range(rng.choice([0, 1, 2, 5, 17, 130])))
        if r < 0.2:
            mode = None
        elif r < 0.8:
            mode = (Ref('memory', index=0), gen_const_expr(rng))
        else:
            mode = (Ref('memory', index=rng.choice([1, 2, 200])), gen_const_expr(rng))
        defs.append(C.Data(i, mode, data))
    if rng.random() < 0.25:
        defs.append(C.DataCount(rng.randrange(0, datacount_max) if rng.random() < 0.7 else ndata))
    for i in range(rng.choice([0, 0, 0, 1, 2])):
        defs.append(C.Custom(rng.choice(NAMES[1:]), bytes(rng.randrange(256) for _ in range(rng.choice([0, 1, 7, 40])))))
    if rng.random() < 0.3:
        rng.shuffle(defs)
    return defs


# ---------------------------------------------------------------- text-form validation (no model)
NATURAL_ALIGN = {'8': 0, '16': 1, '32': 2}


def natural_align(op):
    m = re.search(r'(8|16|32)(_[su])?$', op)
    if m:
        return NATURAL_ALIGN[m.group(1)]
    return 2 if op.startswith(('i32', 'f32')) else 3


def gen_text_body(rng, n, depth, nlocals, nfuncs, nglobals, ntypes):
    from ppci.wasm.components import Instruction, BlockInstruction, Ref
    import ppci.wasm.opcodes as O
    out = []
    plain = [op for op, ks in O.OPERANDS.items() if not ks and isinstance(O.OPCODES[op], int)
             and op not in CONTROL and op != 'select' and not op.startswith('ref.')]
    mem = sorted(O.LOAD_OPS | O.STORE_OPS)
    while n > 0:
        r = rng.random()
        n -= 1
        if r < 0.15 and depth < 3:
            kind = rng.choice(['block', 'loop', 'if'])
            out.append(BlockInstruction(kind, rng.choice(BLOCKTYPES)))
            k = rng.randrange(0, max(1, n))
            out += gen_text_body(rng, k, depth + 1, nlocals, nfuncs, nglobals, ntypes)
            if kind == 'if' and rng.random() < 0.5:
                out.append(Instruction('else'))
                out += gen_text_body(rng, rng.randrange(0, 3), depth + 1, nlocals, nfuncs, nglobals, ntypes)
            out.append(Instruction('end'))
            n -= k
        elif r < 0.25:
            out.append(Instruction('i32.const', pick(rng, I32_POOL, -2 ** 31, 2 ** 31)))
        elif r < 0.33:
            out.append(Instruction('i64.const', pick(rng, I64_POOL, -2 ** 63, 2 ** 63)))
        elif r < 0.40:
            out.append(Instruction('f64.const', rng.choice([0.0, 1.5, -2.25, 3.141592653589793, 1e300, -1e-300, 0.1,
                                                             float('inf'), -float('inf'), 5e-324, 123456789.125])))
        elif r < 0.45:
            out.append(Instruction('f32.const', rng.choice([0.0, 1.5, -2.25, 0.5, 65536.0, float('inf'), 2.0 ** -140])))
        elif r < 0.55 and nlocals:
            out.append(Instruction(rng.choice(['local.get', 'local.set', 'local.tee']), Ref('local', index=rng.randrange(nlocals))))
        elif r < 0.60 and nglobals:
            out.append(Instruction(rng.choice(['global.get', 'global.set']), Ref('global', index=rng.randrange(nglobals))))
        elif r < 0.65 and nfuncs:
            out.append(Instruction('call', Ref('func', index=rng.randrange(nfuncs))))
        elif r < 0.68 and ntypes:
            out.append(Instruction('call_indirect', Ref('type', index=rng.randrange(ntypes)), Ref('table', index=0)))
        elif r < 0.74:
            out.append(Instruction(rng.choice(['br', 'br_if']), Ref('label', index=rng.randrange(depth + 1))))
        elif r < 0.77:
            out.append(Instruction('br_table', [Ref('label', index=rng.randrange(depth + 1)) for _ in range(rng.randrange(1, 5))]))
        elif r < 0.87:
            op = rng.choice(mem)
            out.append(Instruction(op, rng.randrange(0, natural_align(op) + 1), pick(rng, U32_POOL, 0, 2 ** 32)))
        elif r < 0.90:
            out.append(Instruction(rng.choice(['memory.size', 'memory.grow']), 0))
        else:
            out.append(Instruction(rng.choice(plain)))
    return out


def gen_text_module_defs(rng):
    """index-consistent MVP module for the text round trip (no custom/datacount/passive data,
    natural alignments, no NaN payloads)"""
    from ppci.wasm import components as C
    from ppci.wasm.components import Ref, Instruction
    defs = []
    ntypes = rng.randrange(1, 4)
    types = []
    for i in range(ntypes):
        ps = [rng.choice(VALTYPES) for _ in range(rng.randrange(0, 4))]
        types.append(ps)
        defs.append(C.Type(i, [(j, t) for j, t in enumerate(ps)], [rng.choice(VALTYPES) for _ in range(rng.choice([0, 1]))]))
    nimp = rng.randrange(0, 3)
    for i in range(nimp):
        defs.append(C.Import(rng.choice(['env', 'js', 'mod']), 'f%d' % i, 'func', i, (Ref('type', index=rng.randrange(ntypes)),)))
    nfunc = rng.randrange(0, 4)
    nglob = rng.randrange(0, 3)
    funcs = []
    for i in range(nfunc):
        ti = rng.randrange(ntypes)
        locs = [(None, rng.choice(VALTYPES)) for _ in range(rng.choice([0, 1, 2, 4]))]
        body = gen_text_body(rng, rng.choice([0, 2, 5, 10, 20]), 0, len(types[ti]) + len(locs), nimp + nfunc, nglob, ntypes)
        funcs.append(C.Func(nimp + i, Ref('type', index=ti), locs, body))
    defs.append(C.Table(0, 'funcref', 4, rng.choice([None, 10])))
    defs.append(C.Memory(0, 1, rng.choice([None, 2, 65536])))
    for i in range(nglob):
        t = rng.choice(VALTYPES)
        init = {'i32': Instruction('i32.const', pick(rng, I32_POOL, -2 ** 31, 2 ** 31)),
                'i64': Instruction('i64.const', pick(rng, I64_POOL, -2 ** 63, 2 ** 63)),
                'f32': Instruction('f32.const', 1.5), 'f64': Instruction('f64.const', -0.25)}[t]
        defs.append(C.Global(i, t, rng.random() < 0.5, [init]))
    for i in range(rng.randrange(0, 3)):
        kind = rng.choice(['func', 'memory', 'table'] + (['global'] if nglob else []))
        if kind == 'func' and not (nimp + nfunc):
            continue
        n = {'func': nimp + nfunc, 'memory': 1, 'table': 1, 'global': nglob}[kind]
        defs.append(C.Export('e%d' % i, kind, Ref(kind, index=rng.randrange(n))))
    if nimp + nfunc and rng.random() < 0.3:
        defs.append(C.Start(Ref('func', index=rng.randrange(nimp + nfunc))))
    if nimp + nfunc and rng.random() < 0.5:
        defs.append(C.Elem(0, (Ref('table', index=0), [Instruction('i32.const', rng.randrange(0, 3))]),
                           [Ref('func', index=rng.randrange(nimp + nfunc)) for _ in range(rng.randrange(0, 4))]))
    defs += funcs
    for i in range(rng.randrange(0, 3)):
        defs.append(C.Data(i, (Ref('memory', index=0), [Instruction('i32.const', rng.randrange(0, 1000))]),
                           bytes(rng.randrange(256) for _ in range(rng.choice([0, 1, 5, 30])))))
    return defs


class _Timeout(Exception):
    pass


def with_alarm(seconds, fn):
    import signal

    def handler(*a):
        raise _Timeout()
    old = signal.signal(signal.SIGALRM, handler)
    signal.alarm(seconds)
    try:
        return fn()
    finally:
        signal.alarm(0)
        signal.signal(signal.SIGALRM, old)


def text_roundtrip(defs):
    """binary -> Module -> to_string -> Module(text) -> to_bytes; returns (status, detail)"""
    from ppci.wasm import Module
    try:
        b = make_module(defs).to_bytes()
    except Exception as ex:   # noqa: BLE001
        return 'exception', 'to_bytes: %r' % (ex,)

    def go():
        m = Module(b)
        t = m.to_string()
        m2 = Module(t)
        return t, m2.to_bytes()
    try:
        t, b2 = with_alarm(10, go)
    except _Timeout:
        return 'timeout', b.hex()
    except Exception as ex:   # noqa: BLE001
        return 'exception', '%r on %s' % (ex, b.hex())
    if b2 != b:
        return 'differs', {'bytes': b.hex(), 'after_text': b2.hex(), 'text': t[:2000]}
    return 'same', None


# ---------------------------------------------------------------- independent search oracle
def ref_uleb(v):
    out = []
    while True:
        b = v % 128
        v //= 128
        if v:
            out.append(b + 128)
        else:
            out.append(b)
            return bytes(out)


def ref_sleb(v):
    out = []
    while True:
        b = v % 128
        v = (v - b) // 128
        if (v == 0 and b < 64) or (v == -1 and b >= 64):
            out.append(b)
            return bytes(out)
        out.append(b + 128)


def load_spec_table():
    """the reference table of coq/Spec/WasmOpcodeSpec.v as python data"""
    import vlib
    src = open(os.path.join(vlib.COQ, 'Spec', 'WasmOpcodeSpec.v')).read()
    out = []
    for m in re.finditer(r'^\s*\("([a-z0-9_.]+)", (\d+), (None|Some (\d+)), \[([A-Za-z0-9; ]*)\]\)', src, re.M):
        out.append((m.group(1), int(m.group(2)), None if m.group(3) == 'None' else int(m.group(4)),
                    [x.strip() for x in m.group(5).split(';') if x.strip()]))
    return out


def ref_imm(kind, a):
    """reference wire encoding of one immediate, from the specification (independent of ppci's writer)"""
    if kind == 'SBlockType':
        return {'emptyblock': b'\x40', 'i32': b'\x7f', 'i64': b'\x7e', 'f32': b'\x7d', 'f64': b'\x7c'}[a]
    if kind in ('SLabelIdx', 'SFuncIdx', 'STypeIdx', 'STableIdx', 'SLocalIdx', 'SGlobalIdx'):
        return ref_uleb(a.index)
    if kind in ('SMemAlign', 'SMemOffset'):
        return ref_uleb(a)
    if kind == 'SZeroByte':
        return bytes([a])
    if kind in ('SI32', 'SI64'):
        return ref_sleb(a)
    if kind == 'SF32':
        return struct.pack('<f', a)
    if kind == 'SF64':
        return struct.pack('<d', a)
    if kind == 'SLabelVec':
        return ref_uleb(len(a) - 1) + b''.join(ref_uleb(r.index) for r in a)
    raise KeyError(kind)


SPEC_KIND_OF = {'SBlockType': 'TYPE', 'SLabelIdx': 'LABELIDX', 'SFuncIdx': 'FUNCIDX', 'STypeIdx': 'TYPEIDX',
                'STableIdx': 'TABLEIDX', 'SLocalIdx': 'LOCALIDX', 'SGlobalIdx': 'GLOBALIDX', 'SMemAlign': 'U32',
                'SMemOffset': 'U32', 'SZeroByte': 'U8', 'SI32': 'I32', 'SI64': 'I64', 'SF32': 'F32', 'SF64': 'F64',
                'SLabelVec': 'br_table'}


def write_one(i):
    from io import BytesIO
    from ppci.wasm.binary.writer import BinaryFileWriter
    w = BinaryFileWriter(BytesIO())
    w.write_instruction(i)
    return w.f.getvalue()


def read_one(b):
    from io import BytesIO
    from ppci.wasm.binary.reader import BinaryFileReader
    r = BinaryFileReader(BytesIO(b))
    i = r.read_instruction()
    return i, len(r._f[-1].read())


def same_float(a, b):
    return struct.pack('<d', a) == struct.pack('<d', b)


def args_equal(a, b):
    from ppci.wasm.components import Ref
    if isinstance(a, float) and isinstance(b, float):
        return same_float(a, b)
    if isinstance(a, Ref) and isinstance(b, Ref):
        return (a.space, a.index) == (b.space, b.index)
    if isinstance(a, (list, tuple)) and isinstance(b, (list, tuple)):
        return len(a) == len(b) and all(args_equal(x, y) for x, y in zip(a, b))
    return type(a) is type(b) and a == b


def instr_equal(i, j):
    return i.opcode == j.opcode and args_equal(list(i.args), list(j.args))


def f32_exact(i):
    """component-wise comparison of f32 constants is only meaningful for f32-representable floats"""
    return True


def oracle_instructions(ctx, n_per_op):
    """every reference instruction: ppci's bytes == reference bytes; read back == original"""
    from ppci.wasm.components import Instruction
    n = 0
    for name, b, sub, imms in load_spec_table():
        for _ in range(n_per_op if imms else 1):
            try:
                args = [gen_arg(ctx.rng, SPEC_KIND_OF[k]) for k in imms]
                if name in ('block', 'loop', 'if'):
                    from ppci.wasm.components import BlockInstruction
                    ins = BlockInstruction(name, *args)
                else:
                    ins = Instruction(name, *args)
                exp = bytes([b]) + (ref_uleb(sub) if sub is not None else b'') + \
                    b''.join(ref_imm(k, a) for k, a in zip(imms, args))
            except Exception as ex:   # noqa: BLE001
                ctx.violation({'fn': 'Instruction', 'args': [name], 'what': 'cannot build reference instruction: %r' % (ex,),
                               'key': 'build-' + name})
                break
            n += 1
            try:
                got = write_one(ins)
            except Exception as ex:   # noqa: BLE001
                got = repr(ex)
            if got != exp:
                ctx.violation({'fn': 'BinaryFileWriter.write_instruction', 'args': [name, repr(list(ins.args))],
                               'expected': exp.hex(), 'actual': got.hex() if isinstance(got, bytes) else got,
                               'key': 'write-' + name,
                               'how_to_replay': 'encode Instruction(%r, ...) with ppci.wasm.binary.writer and compare with the '
                                                'encoding of the WebAssembly specification' % name})
                continue
            try:
                back, left = read_one(exp + b'\x01')
                ok = left == 1 and instr_equal(back, ins)
            except Exception as ex:   # noqa: BLE001
                ok, back = False, repr(ex)
            if not ok:
                ctx.violation({'fn': 'BinaryFileReader.read_instruction', 'args': [exp.hex()],
                               'expected': '%s %r' % (name, list(ins.args)),
                               'actual': back if isinstance(back, str) else '%s %r' % (back.opcode, list(back.args)),
                               'key': 'read-' + name,
                               'how_to_replay': 'BinaryFileReader(BytesIO(bytes.fromhex(%r))).read_instruction()' % exp.hex()})
    # select: both encodings
    from ppci.wasm.components import Instruction
    for args, exp in (([[]], b'\x1b'), ([['i32']], b'\x1c\x01\x7f'), ([['f64', 'i64']], b'\x1c\x02\x7c\x7e')):
        n += 1
        try:
            got = write_one(Instruction('select', *args))
            back, left = read_one(exp)
            ok = got == exp and left == 0 and instr_equal(back, Instruction('select', *args))
        except Exception as ex:   # noqa: BLE001
            ok, got = False, repr(ex)
        if not ok:
            ctx.violation({'fn': 'select encoding', 'args': [repr(args)], 'expected': exp.hex(),
                           'actual': got.hex() if isinstance(got, bytes) else got, 'key': 'select'})
    return n


def canonical(defs):
    """the writer's section order (what a re-read module contains)"""
    import ppci.wasm.components as C
    order = [n for n in C.SECTION_IDS if n not in ('code', 'function')]
    return [d for name in order for d in defs if d.__name__ == name]


def oracle_modules(ctx, n, datacount_max):
    """real round trip: read(write(m)) == m component-wise, and to_bytes is a fixpoint"""
    from ppci.wasm import Module
    ops = supported_ops()
    cnt = 0
    for _ in range(n):
        defs = gen_module_defs(ctx.rng, ops, datacount_max=datacount_max)
        cnt += 1
        try:
            b = make_module(defs).to_bytes()
            m2 = Module(b)
            b2 = m2.to_bytes()
            v1 = [defn_repr(d)[1] for d in canonical(defs)]
            v2 = [defn_repr(d)[1] for d in m2.definitions]
        except Exception as ex:   # noqa: BLE001
            ctx.violation({'fn': 'Module round trip', 'args': [repr([defn_repr(d)[1] for d in defs])[:3000]],
                           'what': 'exception %r' % (ex,), 'key': 'module-exception',
                           'how_to_replay': 'build the definitions, Module.to_bytes(), Module(bytes)'})
            continue
        if b2 != b or v1 != v2:
            first = next((i for i, (x, y) in enumerate(zip(v1, v2)) if x != y), None)
            ctx.violation({'fn': 'Module round trip', 'args': [b.hex()],
                           'expected': repr(v1[first])[:1500] if first is not None else 'to_bytes fixpoint',
                           'actual': repr(v2[first])[:1500] if first is not None else b2.hex(),
                           'key': 'module-roundtrip',
                           'how_to_replay': 'm = Module(bytes.fromhex(args[0])); compare m.definitions with the written ones / m.to_bytes()'})
    return cnt


KNOWN_WITNESSES = [
    # (fn, args, description of how the witness is executed)
    ('DataCount round trip', [64]),
    ('externref encoding', ['externref']),
    ('f32.const signalling NaN', ['0100a07f']),
    ('text NaN payload', ['ffffffffffffffff']),
]


def known_witnesses(ctx):
    """re-execute the recorded defects on the implementation; report only while they still fail"""
    from ppci.wasm import Module, components as C
    from ppci.wasm.components import Instruction, Ref
    # 1. datacount
    try:
        b = make_module([C.DataCount(64)]).to_bytes()
        n = Module(b).definitions[0].n
    except Exception as ex:   # noqa: BLE001
        n = repr(ex)
    if n != 64:
        ctx.violation({'fn': 'DataCount round trip', 'args': [64], 'expected': 64, 'actual': n,
                       'how_to_replay': 'Module(bytes) of a module with DataCount(64): read_data_count_definition uses read_int'})
    # 2. externref
    try:
        b = make_module([C.Type(0, [(0, 'externref')], [])]).to_bytes()
        t = Module(b).definitions[0].params
        ok = [p[1] for p in t] == ['externref'] and Module(b).to_bytes() == b
    except Exception as ex:   # noqa: BLE001
        ok, t = False, repr(ex)
    if not ok:
        ctx.violation({'fn': 'externref encoding', 'args': ['externref'], 'expected': 'type byte 0x6f, one byte',
                       'actual': repr(t)[:300],
                       'how_to_replay': 'LANG_TYPES["externref"] == b"\\6F" (two bytes 0x06 0x46) in ppci/wasm/binary/io.py'})
    # 3. f32 signalling NaN bit pattern changes in bytes -> Module -> bytes
    raw = bytes.fromhex('0100a07f')
    b = bytes.fromhex('0061736d01000000' '0609017d0043') + raw + b'\x0b'
    try:
        b2 = Module(b).to_bytes()
    except Exception as ex:   # noqa: BLE001
        b2 = repr(ex)
    if b2 != b:
        ctx.violation({'fn': 'f32.const signalling NaN', 'args': ['0100a07f'], 'expected': b.hex(),
                       'actual': b2.hex() if isinstance(b2, bytes) else b2,
                       'how_to_replay': 'Module(bytes.fromhex(expected)).to_bytes(): f32 constants are held as Python floats, '
                                        'struct converts f32 sNaN to qNaN'})
    # 5..7 text form, instruction level (mirrored by c21_text_*_refuted)
    def text_rt(ins):
        m = make_module([C.Type(0, [], []), C.Func(0, Ref('type', index=0), [], ins)])
        b = m.to_bytes()
        return Module(Module(b).to_string()).to_bytes() == b
    for fn, args, ins, how in (
            ('text U8 operand', ['memory.fill'], [Instruction('memory.fill', 0)],
             'to_string prints "memory.fill 0" but the parser does not consume the U8 operand (same for memory.copy and SIMD lane instructions)'),
            ('text call_indirect table', [1], [Instruction('call_indirect', Ref('type', index=0), Ref('table', index=1))],
             'to_string prints "call_indirect (type 0) (const.i64 1)" which the parser rejects'),
            ('text v128 load/store', ['v128.load'], [Instruction('v128.load', 4, 16)],
             'to_string raises KeyError: default_alignment has no entry for v128')):
        try:
            ok = with_alarm(5, lambda: text_rt(ins))
            act = 'differs' if not ok else 'same'
        except Exception as ex:   # noqa: BLE001
            ok, act = False, repr(ex)[:200]
        if not ok:
            ctx.violation({'fn': fn, 'args': args, 'expected': 'binary -> text -> binary reproduces the module',
                           'actual': act, 'how_to_replay': how})
    # 4. text form prints NaN without payload/sign (validation only)
    x = struct.unpack('<d', bytes.fromhex('ffffffffffffffff'))[0]
    defs = [C.Global(0, 'f64', False, [Instruction('f64.const', x)])]
    st, d = text_roundtrip(defs)
    if st != 'same':
        ctx.violation({'fn': 'text NaN payload', 'args': ['ffffffffffffffff'], 'expected': 'same bytes after to_string/parse',
                       'actual': st, 'how_to_replay': 'Module with (global f64 (f64.const <nan with payload>)): to_string prints "nan"'})


# ---------------------------------------------------------------- correspondence (model vs implementation)
IMPORTS = ['Model.WasmTypes', 'Model.WasmBin', 'Model.WasmBinVal']


def outcome(fn):
    try:
        return OkV(fn())
    except ValueError:
        return Diag
    except Exception:   # noqa: BLE001
        return Internal


def gen_bad_module_defs(rng, ops):
    """one deliberate out-of-range / ill-formed component (the writer must raise; the model must too)"""
    from ppci.wasm import components as C
    from ppci.wasm.components import Ref, Instruction
    k = rng.randrange(9)
    if k == 0:
        return [C.Func(0, Ref('type', index=0), [], [Instruction('i32.const', rng.choice([2 ** 34, -2 ** 34 - 1, 2 ** 40]))])]
    if k == 1:
        return [C.Func(0, Ref('type', index=0), [], [Instruction('i64.const', rng.choice([2 ** 69, -2 ** 69 - 1, 2 ** 90]))])]
    if k == 2:
        return [C.Func(0, Ref('type', index=0), [], [Instruction('local.get', Ref('local', index=rng.choice([-1, 2 ** 35, 2 ** 64])))])]
    if k == 3:
        return [C.Type(0, [(0, rng.choice(['i31', 'anyref', '']))], [])]
    if k == 4:
        return [C.Start(Ref('func', index=0)), C.Start(Ref('func', index=1))]
    if k == 5:
        return [C.Export('x', 'func', Ref('global', index=0))]
    if k == 6:
        return [C.Func(0, Ref('type', index=0), [], [Instruction('memory.grow', rng.choice([256, -1, 1000]))])]
    if k == 7:
        return [C.Func(0, Ref('type', index=0), [], [Instruction('br_table', [])])]
    return [C.Memory(0, rng.choice([-1, 2 ** 35]), None)]


def corr_modules(ctx, n, datacount_max):
    from ppci.wasm import Module
    ops = supported_ops()
    cases, recs = [], []
    stats = {'modules': 0, 'definitions': 0, 'instructions': 0, 'regrouped_by_section_on_reread': 0, 'bad_modules': 0}
    for k in range(n):
        bad = k % 12 == 11
        defs = gen_bad_module_defs(ctx.rng, ops) if bad else gen_module_defs(ctx.rng, ops, datacount_max=datacount_max)
        t, v = defs_repr(defs)
        out = outcome(lambda: make_module(defs).to_bytes())
        if not isinstance(out, OkV):
            stats['bad_modules'] += 1
            cases.append(('res_hex (write_module %s)' % t, out))
            recs.append(('write', v, None))
            continue
        b = out.v
        try:
            m2 = Module(b)
            t2, v2 = defs_repr(m2.definitions)
        except Exception as ex:   # noqa: BLE001
            ctx.violation({'fn': 'Module(bytes)', 'args': [b.hex()], 'what': 'cannot re-read written module: %r' % (ex,),
                           'key': 'reread'})
            continue
        stats['modules'] += 1
        stats['definitions'] += len(defs)
        stats['instructions'] += t.count('Instr ')
        if t2 == t:
            term = 'let d := %s in corr_write d "%s" && corr_read "%s" d' % (t, b.hex(), b.hex())
        else:
            stats['regrouped_by_section_on_reread'] += 1
            term = 'corr_write %s "%s" && corr_read "%s" %s' % (t, b.hex(), b.hex(), t2)
        cases.append((term, True))
        recs.append(('module', v, b.hex()))
        if len(defs) > 2 and t.count('Instr ') > 3:
            ctx.cov['distinct_nontrivial'] += 1
    return cases, recs, stats


def corr_instructions(ctx, per_op):
    """every supported mnemonic: bytes of the single instruction, and reading them back"""
    import ppci.wasm.opcodes as O
    from ppci.wasm.components import Instruction, BlockInstruction
    cases, recs = [], []
    for op in supported_ops():
        for _ in range(per_op if O.OPERANDS[op] else 1):
            args = [gen_arg(ctx.rng, k) for k in O.OPERANDS[op]]
            ins = (BlockInstruction if op in ('block', 'loop', 'if') else Instruction)(op, *args)
            out = outcome(lambda: write_one(ins))
            t, v = instr_repr(ins)
            if isinstance(out, OkV):
                back, left = read_one(out.v + b'\x00\x0b')
                t2, v2 = instr_repr(back)
                cases.append(('match write_instruction (%s) with Ok b => String.eqb (hex_of_bytes b) "%s" | _ => false end '
                              '&& val_eqb (rd_val (read_instruction (bytes_of_hex "%s000b"))) (VOk (VT [toval (%s); VZ %d]))'
                              % (t, out.v.hex(), out.v.hex(), t2, left), True))
            else:
                cases.append(('res_hex (write_instruction (%s))' % t, out))
            recs.append(('instr', v, None))
    return cases, recs


def corr_malformed(ctx, n):
    """truncated / mutated module bytes: the model reader accepts exactly when the implementation does"""
    from ppci.wasm import Module
    ops = supported_ops()
    cases, recs = [], []
    while len(cases) < n:
        defs = gen_module_defs(ctx.rng, ops, size=ctx.rng.choice([1, 2, 3]), datacount_max=64)
        defs = [d for d in defs if d.__name__ not in ('import', 'export', 'custom')]   # names: utf-8 is outside the model
        b = bytearray(make_module(defs).to_bytes())
        if len(b) < 12:
            continue
        r = ctx.rng.random()
        if r < 0.4:
            b = b[:ctx.rng.randrange(0, len(b))]
        elif r < 0.8:
            b[ctx.rng.randrange(8, len(b))] = ctx.rng.randrange(256)
        else:
            b[ctx.rng.randrange(0, 8)] ^= 1 << ctx.rng.randrange(8)
        b = bytes(b)
        try:
            with_alarm(5, lambda: Module(b))
            out = OkV(None)
        except ValueError:
            out = Diag
        except (_Timeout, MemoryError, UnicodeDecodeError):
            continue
        except Exception:   # noqa: BLE001
            out = Internal
        cases.append(('read_outcome "%s"' % b.hex(), out))
        recs.append(('malformed', b.hex(), None))
    return cases, recs


def split_sections(b):
    """[(start, end)] of the sections of a module's bytes (python-side, independent LEB reader)"""
    out, i = [], 8
    while i < len(b):
        j, size, shift = i + 1, 0, 0
        while True:
            size |= (b[j] & 0x7F) << shift
            shift += 7
            j += 1
            if not b[j - 1] & 0x80:
                break
        out.append((i, j + size))
        i = j + size
    return out


def corr_canonical(ctx, recs, n):
    """the decidable [canonical] predicate of Proofs/C21_canon.v vs the implementation's fixpoint
    Module(b).to_bytes() == b: writer outputs, and two non-canonical variants of each (first section
    size as a padded LEB128; first two sections swapped)"""
    from ppci.wasm import Module
    cases, crecs = [], []
    for kind, v, hx in recs:
        if kind != 'module' or len(cases) >= n:
            continue
        b = bytes.fromhex(hx)
        variants = [b]
        secs = split_sections(b)
        if secs:
            i = 9
            while b[i] & 0x80:
                i += 1
            variants.append(b[:i] + bytes([b[i] | 0x80, 0]) + b[i + 1:])
        if len(secs) >= 2 and b[secs[0][0]] != b[secs[1][0]]:
            (a0, a1), (b0, b1) = secs[0], secs[1]
            variants.append(b[:a0] + b[b0:b1] + b[a0:a1] + b[b1:])
        for x in variants:
            try:
                fix = with_alarm(5, lambda: Module(x).to_bytes() == x)
            except Exception:   # noqa: BLE001
                fix = False
            cases.append(('canonical 4000 (bytes_of_hex "%s")' % x.hex(), fix))
            crecs.append(('canonical', x.hex(), fix))
    return cases, crecs


def regen_and_reader(ctx):
    text = regen(ctx)
    return 64 if 'datacount_reader : rmeth := RInt' in text else 2 ** 32


def load_align_spec():
    import vlib
    src = open(os.path.join(vlib.COQ, 'Spec', 'WasmAlignSpec.v')).read()
    return [(m.group(1), int(m.group(2))) for m in re.finditer(r'\("([a-z0-9_.]+)", (\d+)\)', src)]


def oracle_text_alignment(ctx):
    """every memory instruction written in text WITHOUT align=/offset= must assemble to the bytes
    opcode . log2(access bytes) . 0 — expected bytes are built from component objects with the natural
    alignment of Spec/WasmAlignSpec.v through the binary writer (independent of text/util.py)"""
    from ppci.wasm import Module, components as C
    from ppci.wasm.components import Instruction, Ref
    import ppci.wasm.opcodes as O
    n = 0
    for op, bits in load_align_spec():
        if op not in O.OPCODES:
            continue
        nat = (bits // 8).bit_length() - 1
        lane = len(O.OPERANDS[op]) == 3
        text = '(module (type (func)) (func (type 0) %s%s))' % (op, ' 0' if lane else '')
        n += 1
        try:
            exp = make_module([C.Type(0, [], []), C.Func(0, Ref('type', index=0), [],
                                                         [Instruction(op, nat, 0, *([0] if lane else []))])]).to_bytes()
            got = with_alarm(5, lambda: Module(text).to_bytes())
        except Exception as ex:   # noqa: BLE001
            exp, got = None, repr(ex)
        if got != exp:
            ctx.violation({'fn': 'text default alignment', 'args': [text],
                           'expected': exp.hex() if isinstance(exp, bytes) else exp,
                           'actual': got.hex() if isinstance(got, bytes) else got, 'key': 'text-align-' + op,
                           'what': '%s without align= must have the natural alignment 2^%d (%d-bit access)' % (op, nat, bits),
                           'how_to_replay': 'from ppci.wasm import Module; Module(args[0]).to_bytes().hex()'})
    return n


def search(ctx):
    """model-independent search for a concrete failing input"""
    import importlib
    import ppci.wasm.opcodes
    deep = (not ctx.quick()) or bool(ctx.failed_stages)
    try:
        dmax = 64 if probe_datacount() == 'RInt' else 2 ** 32
    except Exception:   # noqa: BLE001
        dmax = 64
    n1 = oracle_instructions(ctx, 12 if deep else 4)
    n2 = oracle_modules(ctx, 1500 if deep else 120, dmax)
    ctx.cov['stages']['oracle_text_alignment'] = oracle_text_alignment(ctx)
    ctx.cov['stages']['oracle'] = {'reference_instruction_encodings': n1, 'module_roundtrips': n2, 'deep': deep}
    ctx.cov['evaluations'] += n1 + n2


def text_validation(ctx, n):
    res = {'same': 0, 'differs': 0, 'exception': 0, 'timeout': 0}
    for _ in range(n):
        defs = gen_text_module_defs(ctx.rng)
        st, d = text_roundtrip(defs)
        res[st] += 1
        if st != 'same':
            ctx.violation({'fn': 'text round trip', 'args': [d if isinstance(d, str) else d['bytes']],
                           'what': st, 'detail': d, 'key': 'text-' + st,
                           'how_to_replay': 'm = Module(bytes.fromhex(...)); Module(m.to_string()).to_bytes() == m.to_bytes()'})
    ctx.cov['stages']['text_form_validation'] = res
    ctx.cov['evaluations'] += n
    return res


PROOFS = ['Proofs/C21_leb.vo', 'Proofs/C21_instr.vo', 'Proofs/C21_defs.vo', 'Proofs/C21_module.vo', 'Proofs/C21_spec.vo',
          'Proofs/C21_canon.vo', 'Proofs/C21_text.vo', 'Proofs/C21_textdefs.vo', 'Proofs/C21_align.vo']


def run(ctx):
    quick = ctx.quick()
    dmax = regen_and_reader(ctx)
    ok, _ = ctx.build(PROOFS)
    if ok:
        ctx.check_props('Props/C21.v')
    # ---- correspondence: hand model (over the regenerated tables) vs implementation
    if ctx.build(['Model/WasmBinVal.vo', 'Model/WasmText.vo', 'Model/WasmTextDefs.vo'])[0]:
        try:
            correspondence(ctx, quick, dmax)
        except Exception as ex:   # noqa: BLE001
            import traceback
            ctx.log(traceback.format_exc()[-1500:])
            ctx.failed_stages.append(('correspondence', 'harness could not drive the implementation: %r' % (ex,)))
    # ---- text form: validation only
    try:
        text_validation(ctx, 60 if quick else 600)
    except Exception as ex:   # noqa: BLE001
        ctx.failed_stages.append(('text_validation', 'harness could not drive the implementation: %r' % (ex,)))
    try:
        symbolic_text_validation(ctx, 250 if quick else 2500)
    except Exception as ex:   # noqa: BLE001
        ctx.failed_stages.append(('text_validation', 'symbolic text harness failed: %r' % (ex,)))
    # ---- recorded defects, re-executed
    known_witnesses(ctx)
    # ---- independent oracle: always (cheap), deep when a stage failed or tier is thorough
    search(ctx)
    ctx.cov['exhaustive'] = False


def run_cases_retry(ctx, name, cases, shard, imports=None):
    imports = imports or IMPORTS
    """ctx.run_cases; when coqc itself failed (e.g. another builder recompiled a shared Lib/*.vo in
    between: 'inconsistent assumptions'), rebuild our .vo files and try once more"""
    bad = ctx.run_cases(name, imports, cases, shard=shard)
    if bad is None:
        ctx.failed_stages[:] = [s for s in ctx.failed_stages if s[0] != 'cases_' + name]
        ctx.cov['evaluations'] -= len(cases)
        ctx.build(['Model/WasmBinVal.vo', 'Model/WasmText.vo', 'Model/WasmTextDefs.vo'] + PROOFS)
        bad = ctx.run_cases(name, imports, cases, shard=shard)
    return bad


def correspondence(ctx, quick, dmax):
    if True:
        c1, r1, stats = corr_modules(ctx, 150 if quick else 2000, dmax)
        c2, r2 = corr_instructions(ctx, 2 if quick else 6)
        c3, r3 = corr_malformed(ctx, 60 if quick else 400)
        ctx.cov['stages']['correspondence_distribution'] = dict(stats, instruction_cases=len(c2), malformed_streams=len(c3))
        for r in (r1[:3] + r2[5:8] + r3[:2]):
            ctx.note_sample({'kind': r[0], 'value': repr(r[1])[:300]})
        c5, r5, tstats = corr_text(ctx, 150 if quick else 1500)
        ctx.cov['stages']['text_instruction_model'] = tstats
        c6, r6, dstats = corr_text_defs(ctx, 25 if quick else 300)
        ctx.cov['stages']['text_definition_model'] = dstats
        c4, r4 = corr_canonical(ctx, r1, 120 if quick else 900)
        ctx.cov['stages']['correspondence_distribution']['canonical_predicate_cases'] = len(c4)
        ctx.cov['stages']['correspondence_distribution']['canonical_true'] = sum(1 for r in r4 if r[2])
        for name, cases, recs, shard in (('modules', c1, r1, 20), ('instrs', c2, r2, 120), ('malformed', c3, r3, 60),
                                         ('canon', c4, r4, 30), ('text', c5, r5, 40), ('textdefs', c6, r6, 40)):
            imports = IMPORTS + ['Proofs.C21_canon'] if name == 'canon' else (
                TEXT_IMPORTS if name == 'text' else (TEXT_IMPORTS + ['Model.WasmTextDefs'] if name == 'textdefs' else IMPORTS))
            bad = run_cases_retry(ctx, name, cases, shard, imports)
            if bad:
                for i in bad[:5]:
                    ctx.log('model/implementation disagree on', name, repr(recs[i])[:600])
                ctx.failed_stages.append(('correspondence', 'Model.WasmBin disagrees with ppci.wasm.binary on %d %s cases, first: %s'
                                          % (len(bad), name, repr(recs[bad[0]])[:800])))


RULE = ('modules are built from ppci.wasm component objects by a seeded generator: 0..8 definitions per section kind '
        '(type, import of all 4 kinds, func with run-length locals and nested block/loop/if-else bodies, table, memory, global, '
        'export, start, elem, data active/passive/index>0, datacount, custom), 30% in shuffled order; immediates from boundary '
        'pools (u32 around 2^7k and 2^32-1, i32/i64 around +-2^(7k-1), +-2^31, +-2^63, f32/f64 raw bit patterns incl. inf, '
        'quiet NaN payloads, denormals) plus uniform random; every 12th module carries one out-of-range component (writer must '
        'raise, model too); every supported mnemonic (430) is also checked as a single instruction; a stream of truncated / '
        'byte-mutated modules checks reader acceptance. distinct non-trivial = module with > 2 definitions and > 3 instructions')
EXPLANATION = ('Unbounded Coq theorems about the hand model of binary/writer.py + reader.py over the regenerated opcode / dispatch / '
               'type / section tables: LEB128, every immediate kind, every instruction of the table, nested expressions, every '
               'definition kind, every section and whole modules round-trip (read(write m) = m grouped in section order whenever the '
               'writer succeeds on a well-formed m); the opcode table agrees with an independent 194-entry reference table of the '
               'specification. NOT modelled/proved: the text form (text/parser.py, text/writer.py: validated by binary->text->binary '
               'round trips of index-consistent MVP modules only), names/ids of definitions and references, the utf-8 and '
               'struct float conversions of CPython, instructions with HEAPTYPE/ELEMIDX/DATAIDX/U8x16 immediates (unsupported by the '
               'binary writer/reader themselves), acceptance by a reference engine (none exists in the sandbox). '
               'ALSO PROVED since the first version: c21_canonical_bytes (canonical byte strings - minimal LEBs, writer-form flags, grouped '
               'locals, sections once/ordered/exactly sized - are reproduced byte for byte by write(read b)); for the TEXT form, over '
               'Model.WasmText / Model.WasmTextDefs: c21_text_instr_roundtrip and c21_text_body_roundtrip (printing and parsing of every '
               'instruction class incl. offset=/align= keywords, folded long br_table, decimal integers through the lexer; float spelling '
               'is a parameter), c21_text_def_roundtrip for type, table, memory, global, start, elem (table 0) and func definitions as '
               'printed for a module read from binary, and c21_text_module_roundtrip for the (module ...) loop over them. Text form still '
               'validation only: import/export/data definitions (string tokens and data-string escaping are not in the token model), elem on '
               'a table other than 0, v128 lane loads/stores, the S-expression lexer chunking, symbolic identifiers and abbreviations '
               '(covered by the symbolic-text generator)')
TRUSTED = ['tools/props/c21.py table export (OPCODES/REVERZ/OPERANDS dicts, wfm/rfm probed with recording mocks, LANG_TYPES, SECTION_IDS)',
           'coq/Model/WasmBin.v is a faithful transcription of binary/writer.py and binary/reader.py (cross-checked per run: '
           'bytes of 150/2000 generated modules and 860/2600 single instructions, re-read modules component-wise, 60/400 malformed streams)',
           'CPython: struct.pack/unpack of f64 is the identity on bit patterns, of f32 on all non-signalling patterns; str.encode/decode utf-8',
           'coq/Spec/WasmOpcodeSpec.v transcribes the binary opcodes of the WebAssembly core specification correctly',
           'Python int arithmetic == Coq Z arithmetic']
ASSUMPTIONS = ['modules are given as component objects with integer indices (names already resolved)',
               'LEB128 is modelled in recursive arithmetic form; the bit-level shape of ppci/utils/leb128.py is property C20 '
               '(the model is cross-checked against the real functions through every immediate of the correspondence)',
               'f32 constants are compared by the 4 bytes struct.pack("<f") produces (a Python float that is not f32-representable is rounded by the writer)']
MANIFEST = {
    'text': 'partial: machine-checked proof for a model of the binary instruction/immediate/section codec (LEB128, all 430 writable '
            'instructions of the opcode table with every immediate kind, nested expressions, all 12 section kinds, whole modules: '
            'reading what the writer wrote returns the module) plus a reflected check of the opcode table against an independent '
            'reference table of the specification; the text form is validated by round trip only (binary -> text -> binary on generated '
            'MVP modules and on generated WAT with symbolic identifiers/abbreviations) except for the canonical printed form of '
            'instructions, function bodies, type/table/memory/global/start/elem/func definitions and the module loop over them, whose '
            'printing and parsing are modelled and proved (c21_text_*; import/export/data definitions are not); the converse binary direction (canonical bytes are reproduced, c21_canonical_bytes) is proved too; '
            'there is no reference engine in the sandbox, so acceptance by one is not checked',
    'note': 'trusted: Coq kernel, the table exporter, the hand model (differentially checked against Module.to_bytes()/Module(bytes) on '
            'every run), CPython struct/utf-8/repr/float()/int(). Recorded defects (all repaired, witnesses still re-executed on every run): datacount signedness, externref byte, f32 '
            'signalling-NaN bits, text NaN payloads, U8 operands, call_indirect table, v128 load/store text. No axioms.',
    'technique': 'Coq proof over hand model + exported tables (reflection), differential correspondence, independent spec-table oracle',
}


# ---------------------------------------------------------------- text form: symbolic identifiers and abbreviations
# (validation only) The generator writes WAT text with $names, shadowed labels, inline imports/exports,
# multi-value (param ...) groups and folded instructions, and builds the SAME module from component objects
# with the numeric indices / label depths it computed itself (no use of the parser). The two byte strings
# must be equal.
SYM_NAMES = ['$x', '$y', '$a', '$L', '$loop', '$f', '$main', '$tmp']


class _SymGen:
    def __init__(self, rng):
        self.rng = rng
        self.types = []       # (name|None, [(pname|None, t)], [results])
        self.imports = []     # component objects
        self.funcs_space = [] # names (or None) of the function index space
        self.globals_space = []
        self.fields = []      # text
        self.defs = {k: [] for k in ('type', 'import', 'table', 'memory', 'global', 'export', 'start', 'elem', 'func', 'data')}
        self.nexp = 0

    def fresh(self, used):
        cand = [n for n in SYM_NAMES if n not in used]
        if cand and self.rng.random() < 0.8:
            return self.rng.choice(cand)
        k = 0
        while '$n%d' % k in used:
            k += 1
        return '$n%d' % k

    def ref_text(self, names, idx, p=0.75):
        """symbolic name when the entry has one (and the name is not ambiguous), else the index"""
        n = names[idx]
        if n is not None and names.index(n) == idx and self.rng.random() < p:
            return n
        return str(idx)

    def params_text(self, params):
        """(param $a i32) for named ones, anonymous ones grouped: (param i32 i64)"""
        out, group = [], []
        for n, t in params:
            if n is None:
                group.append(t)
                continue
            if group:
                out.append('(param %s)' % ' '.join(group))
                group = []
            out.append('(param %s %s)' % (n, t))
        if group:
            if self.rng.random() < 0.5 or len(group) == 1:
                out.append('(param %s)' % ' '.join(group))
            else:
                out += ['(param %s)' % t for t in group]
        return ' '.join(out)

    def comp_params(self, params):
        return [(n if n is not None else i, t) for i, (n, t) in enumerate(params)]

    def export_name(self):
        self.nexp += 1
        return 'e%d' % self.nexp

    def inline_exports(self, kind, index):
        from ppci.wasm import components as C
        from ppci.wasm.components import Ref
        txt = ''
        for _ in range(self.rng.choice([0, 0, 1, 2])):
            nm = self.export_name()
            txt += ' (export "%s")' % nm
            self.defs['export'].append(C.Export(nm, kind, Ref(kind, index=index)))
        return txt

    # ---- instructions: returns (text, [component instructions])
    def expr(self, env, depth, folded=False):
        """an i32-ish operand expression. folded=True: one parenthesised (folded) instruction;
        otherwise a flat sequence whose items may themselves be folded. returns (text, instrs, _)"""
        from ppci.wasm.components import Instruction, Ref
        rng = self.rng
        r = rng.random()
        atom = None
        if r < 0.3 or depth > 2:
            v = pick(rng, I32_POOL, -2 ** 31, 2 ** 31)
            atom = ('i32.const %d' % v, [Instruction('i32.const', v)])
        elif r < 0.5 and env['locals']:
            i = rng.randrange(len(env['locals']))
            atom = ('local.get %s' % self.ref_text(env['locals'], i), [Instruction('local.get', Ref('local', index=i))])
        elif r < 0.6 and self.globals_space:
            i = rng.randrange(len(self.globals_space))
            atom = ('global.get %s' % self.ref_text(self.globals_space, i), [Instruction('global.get', Ref('global', index=i))])
        if atom:
            t, ins = atom
            return ('(%s)' % t if folded or rng.random() < 0.3 else t), ins, True
        op = rng.choice(['i32.add', 'i32.sub', 'i32.mul', 'i32.and', 'i32.lt_s', 'i32.eq'])
        if folded or rng.random() < 0.5:
            ta, ia, _ = self.expr(env, depth + 1, True)
            tb, ib, _ = self.expr(env, depth + 1, True)
            return '(%s %s %s)' % (op, ta, tb), ia + ib + [Instruction(op)], True
        ta, ia, _ = self.expr(env, depth + 1, rng.random() < 0.5)
        tb, ib, _ = self.expr(env, depth + 1, rng.random() < 0.5)
        return '%s %s %s' % (ta, tb, op), ia + ib + [Instruction(op)], False

    @staticmethod
    def fold(t):
        assert t.startswith('(')
        return t

    def label_ref(self, labels):
        """pick a branch target; labels = names innermost LAST. returns (text, depth)"""
        rng = self.rng
        d = rng.randrange(len(labels))              # depth 0 = innermost
        name = labels[len(labels) - 1 - d]
        if name is not None:
            # the innermost block carrying that name is what the name denotes
            inner = next(k for k in range(len(labels)) if labels[len(labels) - 1 - k] == name)
            if inner == d and rng.random() < 0.8:
                return name, d
        return str(d), d

    def body(self, env, labels, n, level):
        from ppci.wasm.components import Instruction, BlockInstruction, Ref
        rng = self.rng
        txt, ins = [], []
        while n > 0:
            n -= 1
            r = rng.random()
            if r < 0.28 and level < 4:
                kind = rng.choice(['block', 'loop', 'if'])
                used = [l for l in labels if l]
                rr = rng.random()
                if rr < 0.45 and used:
                    name = rng.choice(used)          # shadow an enclosing label
                elif rr < 0.85:
                    name = rng.choice(SYM_NAMES)
                else:
                    name = None
                bt = rng.choice(['emptyblock', 'emptyblock', 'i32', 'f64'])
                bts = '' if bt == 'emptyblock' else ' (result %s)' % bt
                k = rng.randrange(1, 4)
                folded = rng.random() < 0.5
                nm = ' ' + name if name else ''
                if kind == 'if':
                    ct, ci, _ = self.expr(env, 1, folded)
                    t1, i1 = self.body(env, labels + [name], k, level + 1)
                    has_else = rng.random() < 0.5
                    t2, i2 = self.body(env, labels + [name], rng.randrange(1, 3), level + 1) if has_else else ('', [])
                    ins += ci + [BlockInstruction('if', bt)] + i1 + ([Instruction('else')] + i2 if has_else else []) + [Instruction('end')]
                    if folded:
                        txt.append('(if%s%s %s (then %s)%s)' % (nm, bts, self.fold(ct), t1, ' (else %s)' % t2 if has_else else ''))
                    else:
                        endnm = nm if rng.random() < 0.3 else ''
                        txt.append('%s if%s%s %s%s end%s' % (ct, nm, bts, t1, ' else%s %s' % (endnm, t2) if has_else else '', endnm))
                else:
                    t1, i1 = self.body(env, labels + [name], k, level + 1)
                    ins += [BlockInstruction(kind, bt)] + i1 + [Instruction('end')]
                    if folded:
                        txt.append('(%s%s%s %s)' % (kind, nm, bts, t1))
                    else:
                        txt.append('%s%s%s %s end%s' % (kind, nm, bts, t1, nm if rng.random() < 0.3 else ''))
            elif r < 0.55 and labels:
                which = rng.choice(['br', 'br_if', 'br_table'])
                if which == 'br_table':
                    refs = [self.label_ref(labels) for _ in range(rng.randrange(1, 5))]
                    txt.append('(i32.const 1) (br_table %s)' % ' '.join(t for t, _ in refs) if rng.random() < 0.5
                               else 'i32.const 1 br_table %s' % ' '.join(t for t, _ in refs))
                    ins += [Instruction('i32.const', 1), Instruction('br_table', [Ref('label', index=d) for _, d in refs])]
                else:
                    t, d = self.label_ref(labels)
                    if which == 'br_if':
                        fo = rng.random() < 0.5
                        ct, ci, _ = self.expr(env, 1, fo)
                        txt.append('(br_if %s %s)' % (t, self.fold(ct)) if fo else '%s br_if %s' % (ct, t))
                        ins += ci + [Instruction('br_if', Ref('label', index=d))]
                    else:
                        txt.append('br %s' % t if rng.random() < 0.5 else '(br %s)' % t)
                        ins.append(Instruction('br', Ref('label', index=d)))
            elif r < 0.65 and env['locals']:
                i = rng.randrange(len(env['locals']))
                op = rng.choice(['local.set', 'local.tee'])
                fo = rng.random() < 0.5
                ct, ci, _ = self.expr(env, 1, fo)
                txt.append('(%s %s %s)' % (op, self.ref_text(env['locals'], i), self.fold(ct)) if fo
                           else '%s %s %s' % (ct, op, self.ref_text(env['locals'], i)))
                ins += ci + [Instruction(op, Ref('local', index=i))]
            elif r < 0.72 and self.globals_space:
                i = rng.randrange(len(self.globals_space))
                ct, ci, _ = self.expr(env, 1, True)
                txt.append('(global.set %s %s)' % (self.ref_text(self.globals_space, i), self.fold(ct)))
                ins += ci + [Instruction('global.set', Ref('global', index=i))]
            elif r < 0.82 and self.funcs_space:
                i = rng.randrange(len(self.funcs_space))     # includes functions defined LATER
                txt.append(('call %s' if rng.random() < 0.5 else '(call %s)') % self.ref_text(self.funcs_space, i))
                ins.append(Instruction('call', Ref('func', index=i)))
            elif r < 0.87:
                ti = rng.randrange(len(self.types))
                tnames = [t[0] for t in self.types]
                txt.append('i32.const 0 call_indirect (type %s)' % self.ref_text(tnames, ti))
                ins += [Instruction('i32.const', 0), Instruction('call_indirect', Ref('type', index=ti), Ref('table', index=0))]
            elif r < 0.94:
                op = rng.choice(['i32.load', 'i64.load', 'i32.load8_u', 'f64.load', 'i32.load16_s'])
                off = pick(rng, U32_POOL, 0, 2 ** 32)
                al = rng.randrange(0, natural_align(op) + 1)
                kw = (' offset=%d' % off if off else '') + (' align=%d' % (1 << al) if al != natural_align(op) or rng.random() < 0.3 else '')
                txt.append('(%s%s (i32.const 4))' % (op, kw) if rng.random() < 0.5 else 'i32.const 4 %s%s' % (op, kw))
                ins += [Instruction('i32.const', 4), Instruction(op, al, off)]
            else:
                op = rng.choice(['nop', 'drop', 'memory.size', 'unreachable', 'return'])
                txt.append(op)
                ins.append(Instruction(op, 0) if op == 'memory.size' else Instruction(op))
        return ' '.join(txt), ins

    # ---- module
    def build(self):
        from ppci.wasm import components as C
        from ppci.wasm.components import Ref, Instruction
        rng = self.rng
        # explicit types (at most 3 parameters; inline signatures below use more, so that they are new types)
        used = []
        for i in range(rng.randrange(1, 4)):
            name = self.fresh(used) if rng.random() < 0.7 else None
            used.append(name)
            pn = []
            params = []
            for _ in range(rng.randrange(0, 4)):
                n = self.fresh(pn) if rng.random() < 0.5 else None
                pn.append(n)
                params.append((n, rng.choice(VALTYPES)))
            results = [rng.choice(VALTYPES) for _ in range(rng.choice([0, 1, 1]))]
            self.types.append((name, params, results))
            self.defs['type'].append(C.Type(i, self.comp_params(params), results))
            self.fields.append('(type%s (func %s%s))' % (' ' + name if name else '', self.params_text(params),
                                                         ' (result %s)' % ' '.join(results) if results else ''))
        tnames = [t[0] for t in self.types]
        # imports first: functions (plain and inline form) and globals
        fnames, gnames = [], []
        nfi = rng.randrange(0, 3)
        nfd = rng.randrange(1, 4)
        # names of the whole function index space are fixed up front (forward references)
        for _ in range(nfi + nfd):
            fnames.append(self.fresh(fnames) if rng.random() < 0.75 else None)
        self.funcs_space = fnames
        for i in range(nfi):
            ti = rng.randrange(len(self.types))
            nm = ' ' + fnames[i] if fnames[i] else ''
            tu = '(type %s)' % self.ref_text(tnames, ti)
            if rng.random() < 0.5:
                self.fields.append('(import "env" "f%d" (func%s %s))' % (i, nm, tu))
            else:
                self.fields.append('(func%s%s (import "env" "f%d") %s)' % (nm, self.inline_exports('func', i), i, tu))
            self.defs['import'].append(C.Import('env', 'f%d' % i, 'func', i, (Ref('type', index=ti),)))
        for i in range(rng.randrange(0, 2)):
            gnames.append(self.fresh(gnames) if rng.random() < 0.7 else None)
            nm = ' ' + gnames[-1] if gnames[-1] else ''
            if rng.random() < 0.5:
                self.fields.append('(import "env" "g%d" (global%s i32))' % (i, nm))
            else:
                self.fields.append('(global%s (import "env" "g%d") i32)' % (nm, i))
            self.defs['import'].append(C.Import('env', 'g%d' % i, 'global', i, ('i32', False)))
        # memory and table (named; referenced by name from data/elem)
        mname = rng.choice([None, '$mem', '$x'])
        self.fields.append('(memory%s%s 1 %d)' % (' ' + mname if mname else '', self.inline_exports('memory', 0), rng.choice([1, 2, 16])))
        self.defs['memory'].append(C.Memory(0, 1, int(self.fields[-1].split()[-1].rstrip(')'))))
        tname = rng.choice([None, '$tab', '$x'])
        self.fields.append('(table%s%s 8 funcref)' % (' ' + tname if tname else '', self.inline_exports('table', 0)))
        self.defs['table'].append(C.Table(0, 'funcref', 8, None))
        # globals
        for _ in range(rng.randrange(0, 3)):
            gi = len(gnames)
            gnames.append(self.fresh(gnames) if rng.random() < 0.7 else None)
            nm = ' ' + gnames[-1] if gnames[-1] else ''
            mut = rng.random() < 0.5
            v = pick(rng, I32_POOL, -2 ** 31, 2 ** 31)
            self.fields.append('(global%s%s %s %s)' % (nm, self.inline_exports('global', gi), '(mut i32)' if mut else 'i32',
                                                      '(i32.const %d)' % v if rng.random() < 0.5 else 'i32.const %d' % v))
            self.defs['global'].append(C.Global(gi, 'i32', mut, [Instruction('i32.const', v)]))
        self.globals_space = gnames
        # functions
        for k in range(nfd):
            fi = nfi + k
            nm = ' ' + fnames[fi] if fnames[fi] else ''
            exp = self.inline_exports('func', fi)
            if rng.random() < 0.6:
                ti = rng.randrange(len(self.types))
                params = self.types[ti][1]
                sig = '(type %s)' % self.ref_text(tnames, ti)
            else:
                # inline signature with 4+k parameters: a new type, appended when the function is parsed
                pn, params = [], []
                for _ in range(4 + k):
                    n = self.fresh(pn + [g for g in gnames if g and rng.random() < 0.0]) if rng.random() < 0.5 else None
                    pn.append(n)
                    params.append((n, rng.choice(VALTYPES)))
                results = [rng.choice(VALTYPES) for _ in range(rng.choice([0, 1]))]
                ti = len(self.types)
                self.types.append((None, params, results))
                tnames.append(None)
                self.defs['type'].append(C.Type(ti, self.comp_params(params), results))
                sig = self.params_text(params) + (' (result %s)' % ' '.join(results) if results else '')
            lnames = [n for n, _ in params]
            ltxt, locs = [], []
            for _ in range(rng.choice([0, 1, 2, 3])):
                t = rng.choice(VALTYPES)
                # a local may share its name with a global / function (different spaces)
                pool = [g for g in gnames + fnames if g and g not in lnames]
                n = (rng.choice(pool) if pool and rng.random() < 0.4 else self.fresh(lnames)) if rng.random() < 0.7 else None
                lnames.append(n)
                locs.append((n, t))
                ltxt.append('(local %s %s)' % (n, t) if n else '(local %s)' % t)
            env = {'locals': lnames}
            btxt, bins = self.body(env, [], rng.choice([1, 3, 6, 10]), 0)
            self.fields.append('(func%s%s %s %s %s)' % (nm, exp, sig, ' '.join(ltxt), btxt))
            self.defs['func'].append(C.Func(fi, Ref('type', index=ti), [(None, t) for _, t in locs], bins))
        # explicit exports, start, elem, data
        for _ in range(rng.randrange(0, 3)):
            i = rng.randrange(len(fnames))
            en = self.export_name()
            self.fields.append('(export "%s" (func %s))' % (en, self.ref_text(fnames, i)))
            self.defs['export'].append(C.Export(en, 'func', Ref('func', index=i)))
        if gnames and rng.random() < 0.5:
            i = rng.randrange(len(gnames))
            en = self.export_name()
            self.fields.append('(export "%s" (global %s))' % (en, self.ref_text(gnames, i)))
            self.defs['export'].append(C.Export(en, 'global', Ref('global', index=i)))
        if rng.random() < 0.4:
            i = rng.randrange(len(fnames))
            self.fields.append('(start %s)' % self.ref_text(fnames, i))
            self.defs['start'].append(C.Start(Ref('func', index=i)))
        if rng.random() < 0.6:
            idx = [rng.randrange(len(fnames)) for _ in range(rng.randrange(1, 4))]
            tuse = '(table %s) ' % tname if tname and rng.random() < 0.5 else ''
            self.fields.append('(elem %s(i32.const 1) %s%s)' % (tuse, 'func ' if rng.random() < 0.5 else '',
                                                               ' '.join(self.ref_text(fnames, i) for i in idx)))
            self.defs['elem'].append(C.Elem(0, (Ref('table', index=0), [Instruction('i32.const', 1)]),
                                            [Ref('func', index=i) for i in idx]))
        if rng.random() < 0.6:
            muse = '(memory %s) ' % mname if mname and rng.random() < 0.5 else ''
            off = '(offset i32.const 16)' if rng.random() < 0.5 else '(i32.const 16)'
            self.fields.append('(data %s%s "abc\\00\\ff")' % (muse, off))
            self.defs['data'].append(C.Data(0, (Ref('memory', index=0), [Instruction('i32.const', 16)]), b'abc\x00\xff'))
        text = '(module\n  ' + '\n  '.join(self.fields) + '\n)\n'
        order = ['type', 'import', 'table', 'memory', 'global', 'export', 'start', 'elem', 'func', 'data']
        return text, [d for k in order for d in self.defs[k]]


def gen_symbolic_module(rng):
    return _SymGen(rng).build()


def symbolic_text_validation(ctx, n):
    from ppci.wasm import Module
    res = {'same': 0, 'differs': 0, 'exception': 0, 'fixpoint_differs': 0}
    for _ in range(n):
        text, defs = gen_symbolic_module(ctx.rng)
        exp = make_module(defs).to_bytes()

        def go():
            m = Module(text)
            b = m.to_bytes()
            return b, Module(Module(b).to_string()).to_bytes()
        try:
            got, fix = with_alarm(10, go)
        except Exception as ex:   # noqa: BLE001
            res['exception'] += 1
            ctx.violation({'fn': 'Module(text) with symbolic identifiers', 'args': [text[:4000]], 'what': 'exception %r' % (ex,),
                           'key': 'symtext-exception',
                           'how_to_replay': 'from ppci.wasm import Module; Module(args[0]).to_bytes()'})
            continue
        if got != exp:
            res['differs'] += 1
            ctx.violation({'fn': 'Module(text) with symbolic identifiers', 'args': [text[:4000]],
                           'expected': exp.hex(), 'actual': got.hex(), 'key': 'symtext-differs',
                           'what': 'bytes of the text module differ from the same module built with the numeric indices / label '
                                   'depths the generator computed (innermost enclosing label of a name, per-space name resolution)',
                           'how_to_replay': 'from ppci.wasm import Module; Module(args[0]).to_bytes().hex() vs expected'})
        elif fix != got:
            res['fixpoint_differs'] += 1
            ctx.violation({'fn': 'to_string fixpoint of symbolic text module', 'args': [text[:4000]],
                           'expected': got.hex(), 'actual': fix.hex(), 'key': 'symtext-fixpoint'})
        else:
            res['same'] += 1
    ctx.cov['stages']['text_symbolic_validation'] = res
    ctx.cov['evaluations'] += n
    return res


# ---------------------------------------------------------------- text form, instruction level: model vs implementation
TEXT_IMPORTS = ['Model.WasmTypes', 'Model.WasmBin', 'Model.WasmBinVal', 'Model.WasmText']


def real_tokens(text):
    """token values of the implementation's S-expression lexer (floats by their repr)"""
    from ppci.lang.sexpr import tokenize_sexpr
    out = []
    for t in tokenize_sexpr(text):
        if t.typ == 'EOF':
            break
        v = t.val
        out.append(repr(v) if isinstance(v, float) else v)
    return out


def gen_text_instr_list(rng, n):
    """instruction lists for the instruction-level text model: the text-friendly body generator plus
    operand classes the module-level text validation avoids (table/ref/sat ops, U8 operands, typed select,
    call_indirect on table 1, large br_table that the writer folds)"""
    from ppci.wasm.components import Instruction, Ref
    body = gen_text_body(rng, n, 0, 4, 3, 2, 2)
    r = rng.random()
    extra = []
    if r < 0.12:
        extra = [Instruction('br_table', [Ref('label', index=rng.randrange(0, 3)) for _ in range(rng.randrange(36, 60))])]
    elif r < 0.22:
        extra = [Instruction('select', [rng.choice(VALTYPES) for _ in range(rng.choice([0, 1, 2]))])]
    elif r < 0.30:
        extra = [Instruction(rng.choice(['table.get', 'table.set', 'table.grow', 'table.size', 'table.fill']),
                             Ref('table', index=rng.randrange(0, 3)))]
    elif r < 0.36:
        extra = [Instruction('table.copy', Ref('table', index=rng.randrange(3)), Ref('table', index=rng.randrange(3)))]
    elif r < 0.42:
        extra = [Instruction('ref.func', Ref('func', index=rng.randrange(5)))]
    elif r < 0.50:
        extra = [Instruction(rng.choice(['memory.fill', 'memory.copy', 'i8x16.extract_lane_s', 'i32x4.replace_lane']), *([0] * 1))]
        if extra[0].opcode == 'memory.copy':
            extra = [Instruction('memory.copy', 0, 0)]
    elif r < 0.56:
        extra = [Instruction('call_indirect', Ref('type', index=rng.randrange(3)), Ref('table', index=rng.choice([1, 2])))]
    elif r < 0.64:
        extra = [Instruction('f64.const', gen_f64(rng)), Instruction('f32.const', gen_f32(rng))]
    k = rng.randrange(0, len(body) + 1)
    return body[:k] + extra + body[k:]


def spelling_reads_back(kn, raw, sp):
    """does the implementation's float() reading of its own spelling give the same constant?"""
    from ppci.wasm.util import make_float
    try:
        try:
            x = make_float(sp, bits=32 if kn == 'F32' else 64)
        except TypeError:
            x = make_float(sp)
        return float_raw(kn, x) == raw
    except Exception:   # noqa: BLE001
        return False


def corr_text(ctx, n):
    import math
    from ppci.wasm import Module, components as C
    from ppci.wasm.components import Ref, Instruction
    import ppci.wasm.opcodes as O
    cases, recs = [], []
    stats = {'bodies': 0, 'instructions': 0, 'reparse_ok': 0, 'reparse_fails': 0, 'print_fails': 0}
    for _ in range(n):
        ins = gen_text_instr_list(ctx.rng, ctx.rng.choice([1, 2, 4, 8]))
        t32, t64 = {}, {}
        for i in ins:
            for k, a in zip(O.OPERANDS.get(i.opcode, ()), i.args):
                if isinstance(a, float):
                    kn = k.name
                    raw = float_raw(kn, a)
                    # the implementation's spelling of this constant
                    sp = Instruction('f32.const' if kn == 'F32' else 'f64.const', a).to_string().split(' ', 1)[1]
                    (t32 if kn == 'F32' else t64)[raw] = sp
        fs = 'table_fspell [%s] [%s]' % ('; '.join('(%s, "%s"%%string)' % (zl(r), s) for r, s in t32.items()),
                                         '; '.join('(%s, "%s"%%string)' % (zl(r), s) for r, s in t64.items()))
        term, val = expr_repr(ins)
        # implementation: text of every instruction, re-parsed inside a function
        try:
            texts = [i.to_string() for i in ins]
            toks = [t for s in texts for t in real_tokens(s)]
            out_print = OkV(toks)
        except Exception:   # noqa: BLE001
            out_print = Internal
        stats['bodies'] += 1
        stats['instructions'] += len(ins)
        cases.append(('text_print_val (%s) %s' % (fs, term), out_print))
        recs.append(('text-print', val, None))
        if out_print is Internal:
            stats['print_fails'] += 1
            continue
        # two constants with one spelling (NaN payloads before the repair): the table is ambiguous, skip the re-parse
        if len(set(t32.values())) < len(t32) or len(set(t64.values())) < len(t64):
            continue
        if not all(spelling_reads_back('F32', r, sp) for r, sp in t32.items()) or \
                not all(spelling_reads_back('F64', r, sp) for r, sp in t64.items()):
            continue    # the known finding (NaN sign/payload lost in the text form), reported by known_witnesses
        text = '(module (type (func)) (func (type 0) %s))' % ' '.join(texts)
        try:
            back = with_alarm(5, lambda: [d for d in Module(text).definitions if isinstance(d, C.Func)][0].instructions)
            out_parse = OkV(expr_repr(back)[1])
            stats['reparse_ok'] += 1
        except Exception:   # noqa: BLE001
            out_parse = Internal
            stats['reparse_fails'] += 1
        cases.append(('text_parse_val (%s) %s' % (fs, term), out_parse))
        recs.append(('text-parse', val, None))
    return cases, recs, stats


# ---------------------------------------------------------------- text form, definition level (memory/table/global/func)
def corr_text_defs(ctx, n):
    from ppci.wasm import Module, components as C
    import ppci.wasm.opcodes as O
    cases, recs = [], []
    stats = {'definitions': 0, 'memory': 0, 'table': 0, 'global': 0, 'func': 0, 'type': 0, 'start': 0, 'elem': 0, 'modules': 0}
    for _ in range(n):
        defs = gen_text_module_defs(ctx.rng)
        try:
            m = Module(make_module(defs).to_bytes())
            m2 = with_alarm(10, lambda: Module(m.to_string()))
        except Exception:   # noqa: BLE001
            continue
        if len(m.definitions) != len(m2.definitions):
            continue
        for d, d2 in zip(m.definitions, m2.definitions):
            if not isinstance(d, (C.Memory, C.Table, C.Global, C.Func, C.Type, C.Start, C.Elem)):
                continue
            ins = list(d.init) if isinstance(d, C.Global) else (list(d.instructions) if isinstance(d, C.Func) else (
                list(d.mode[1]) if isinstance(d, C.Elem) else []))
            t32, t64 = {}, {}
            ok = True
            for i in ins:
                for k, a in zip(O.OPERANDS.get(i.opcode, ()), i.args):
                    if isinstance(a, float):
                        raw = float_raw(k.name, a)
                        sp = C.Instruction('f32.const' if k.name == 'F32' else 'f64.const', a).to_string().split(' ', 1)[1]
                        (t32 if k.name == 'F32' else t64)[raw] = sp
                        ok = ok and spelling_reads_back(k.name, raw, sp)
            if not ok or len(set(t32.values())) < len(t32) or len(set(t64.values())) < len(t64):
                continue
            fs = 'table_fspell [%s] [%s]' % ('; '.join('(%s, "%s"%%string)' % (zl(r), s) for r, s in t32.items()),
                                             '; '.join('(%s, "%s"%%string)' % (zl(r), s) for r, s in t64.items()))
            term, val = defn_repr(d)
            stats['definitions'] += 1
            stats[d.__name__] += 1
            cases.append(('text_def_print_val (%s) (%s)' % (fs, term), OkV(real_tokens(d.to_string()))))
            recs.append(('textdef-print', val, None))
            cases.append(('text_def_parse_val (%s) (%s)' % (fs, term), OkV(defn_repr(d2)[1])))
            recs.append(('textdef-parse', val, None))
    # whole modules made of the modelled kinds: (module ...) tokens and the re-parsed definition list
    kinds = (C.Memory, C.Table, C.Global, C.Func, C.Type, C.Start, C.Elem)
    for _ in range(max(3, n // 3)):
        defs = [d for d in gen_text_module_defs(ctx.rng) if isinstance(d, kinds)]
        try:
            m = Module(make_module(defs).to_bytes())
            text = m.to_string()
            m2 = with_alarm(10, lambda: Module(text))
        except Exception:   # noqa: BLE001
            continue
        floats = [(k.name, a) for d in m.definitions for i in (getattr(d, 'instructions', None) or getattr(d, 'init', None)
                                                               or (d.mode[1] if isinstance(d, C.Elem) else []))
                  for k, a in zip(O.OPERANDS.get(i.opcode, ()), i.args) if isinstance(a, float)]
        t32, t64 = {}, {}
        ok = True
        for kn, a in floats:
            raw = float_raw(kn, a)
            sp = C.Instruction('f32.const' if kn == 'F32' else 'f64.const', a).to_string().split(' ', 1)[1]
            (t32 if kn == 'F32' else t64)[raw] = sp
            ok = ok and spelling_reads_back(kn, raw, sp)
        if not ok or len(set(t32.values())) < len(t32) or len(set(t64.values())) < len(t64):
            continue
        fs = 'table_fspell [%s] [%s]' % ('; '.join('(%s, "%s"%%string)' % (zl(r), s) for r, s in t32.items()),
                                         '; '.join('(%s, "%s"%%string)' % (zl(r), s) for r, s in t64.items()))
        term, val = defs_repr(m.definitions)
        stats['modules'] += 1
        cases.append(('text_module_print_val (%s) %s' % (fs, term), OkV(real_tokens(text))))
        recs.append(('textmodule-print', val, None))
        cases.append(('text_module_parse_val (%s) %s' % (fs, term), OkV(defs_repr(m2.definitions)[1])))
        recs.append(('textmodule-parse', val, None))
    return cases, recs, stats
