"""C21 — WebAssembly modules round-trip through binary and text forms (DESIGN §4 C21). PARTIAL.

tie I: Gen/Tab_wasm_opcodes.v = OPCODES / REVERZ / OPERANDS of ppci.wasm.opcodes, the wfm/rfm
       dispatch tables of binary/writer.py and binary/reader.py (probed with recording mocks),
       LANG_TYPES(+reverse), SECTION_IDS and the reader method of the datacount section.
tie H: Model/WasmBin.v mirrors binary/writer.py and binary/reader.py over those tables;
       correspondence = generated modules, real Module.to_bytes()/Module(bytes) vs the model.
The text form (text/parser.py, text/writer.py) is validated by round trip only.
"""
import os
import re
import struct

from vlib import OkV, Diag, Internal, TieBroken, coq_z

LEVEL = 'other'

KIND_NAMES = {
    'TYPE': 'KType', 'HEAPTYPE': 'KHeapType', 'U8': 'KU8', 'U32': 'KU32', 'I32': 'KI32', 'I64': 'KI64',
    'F32': 'KF32', 'F64': 'KF64', 'U8x16': 'KU8x16', 'TYPEIDX': 'KTypeIdx', 'TABLEIDX': 'KTableIdx',
    'LOCALIDX': 'KLocalIdx', 'BLOCKIDX': 'KBlockIdx', 'FUNCIDX': 'KFuncIdx', 'LABELIDX': 'KLabelIdx',
    'GLOBALIDX': 'KGlobalIdx', 'ELEMIDX': 'KElemIdx', 'DATAIDX': 'KDataIdx',
}


# ---------------------------------------------------------------- tie I: table export
def coq_string(s):
    if not all(32 <= ord(c) < 127 and c != '"' for c in s):
        raise TieBroken('unexpected character in table string %r' % (s,))
    return '"%s"' % s


def kind_name(o):
    import ppci.wasm.opcodes as O
    if isinstance(o, O.ArgType):
        if o.name not in KIND_NAMES:
            raise TieBroken('unknown ArgType member %s' % o.name)
        return KIND_NAMES[o.name]
    if o == 'br_table':
        return 'KBrTable'
    if o == 'result_types':
        return 'KResultTypes'
    raise TieBroken('unknown operand kind %r' % (o,))


def code_term(c):
    if isinstance(c, tuple):
        if not (len(c) == 2 and all(isinstance(x, int) for x in c)):
            raise TieBroken('unexpected opcode %r' % (c,))
        return '(%d, Some %d)' % c
    if not isinstance(c, int):
        raise TieBroken('unexpected opcode %r' % (c,))
    return '(%d, None)' % c


class _Recorder:
    """mock reader/writer that records which method a dispatch lambda calls"""
    def __init__(self):
        self.calls = []

    def __getattr__(self, name):
        def f(*a, **k):
            self.calls.append((name, a))
            return 5
        return f


def probe_wfm(wfm):
    mp = {'write_type': 'WType', 'write_vu32': 'WVu32', 'write_ref': 'WRef', 'write_vs32': 'WVs32',
          'write_vs64': 'WVs64', 'write_f32': 'WF32', 'write_f64': 'WF64'}
    out = []
    for k, fn in wfm.items():
        r = _Recorder()
        fn(r, 7)
        if len(r.calls) != 1:
            raise TieBroken('wfm[%s] makes %d writer calls' % (k, len(r.calls)))
        name, a = r.calls[0]
        if name == 'write' and a == (bytes([7]),):
            m = 'WByte'
        elif name in mp and a == (7,):
            m = mp[name]
        else:
            raise TieBroken('wfm[%s] calls %s%r' % (k, name, a))
        out.append((kind_name(k), m))
    return out


def probe_rfm(rfm):
    mp = {'read_type': 'RType', 'read_byte': 'RByte', 'read_uint': 'RUint', 'read_int': 'RInt',
          'read_f32': 'RF32', 'read_f64': 'RF64'}
    out = []
    for k, fn in rfm.items():
        r = _Recorder()
        res = fn(r)
        if len(r.calls) != 1 or res != 5:
            raise TieBroken('rfm[%s] makes %d reader calls' % (k, len(r.calls)))
        name, a = r.calls[0]
        if name in mp and a == ():
            m = mp[name]
        elif name == 'read_space_ref' and len(a) == 1 and isinstance(a[0], str):
            m = '(RSpaceRef %s)' % coq_string(a[0])
        elif name == 'read_exactly' and len(a) == 1 and isinstance(a[0], int):
            m = '(RExactly %d)' % a[0]
        else:
            raise TieBroken('rfm[%s] calls %s%r' % (k, name, a))
        out.append((kind_name(k), m))
    return out


def probe_datacount():
    """which reader method read_data_count_definition uses / which writer method its writer uses"""
    from ppci.wasm.binary.reader import BinaryFileReader
    from ppci.wasm.binary.writer import BinaryFileWriter
    from ppci.wasm import components
    r = _Recorder()
    d = BinaryFileReader.read_data_count_definition(r)
    if len(r.calls) != 1 or r.calls[0][1] != () or d.n != 5 or r.calls[0][0] not in ('read_int', 'read_uint'):
        raise TieBroken('read_data_count_definition: unexpected shape %r' % (r.calls,))
    w = _Recorder()
    BinaryFileWriter.write_data_count_definition(w, components.DataCount(7))
    if w.calls != [('write_vu32', (7,))]:
        raise TieBroken('write_data_count_definition: unexpected shape %r' % (w.calls,))
    return 'RInt' if r.calls[0][0] == 'read_int' else 'RUint'


def export_tables():
    import importlib
    import ppci.wasm.opcodes as O
    import ppci.wasm.binary.writer as W
    import ppci.wasm.binary.reader as R
    import ppci.wasm.binary.io as IO
    import ppci.wasm.components as C
    L = []
    L.append('(* GENERATED by tools/props/c21.py from ppci/wasm/opcodes.py, binary/{writer,reader,io}.py,')
    L.append('   components.py (SECTION_IDS) — do not edit *)')
    L.append('From PV Require Import Lib.Py Model.WasmTypes.')
    L.append('From Coq Require Import String.')
    L.append('Local Open Scope Z_scope.\nLocal Open Scope string_scope.\n')
    L.append('Definition opcodes : list (string * code) := [')
    L.append(';\n'.join('  (%s, %s)' % (coq_string(k), code_term(v)) for k, v in O.OPCODES.items()))
    L.append('].\n')
    L.append('Definition reverz : list (code * string) := [')
    L.append(';\n'.join('  (%s, %s)' % (code_term(k), coq_string(v)) for k, v in O.REVERZ.items()))
    L.append('].\n')
    L.append('Definition operands : list (string * list akind) := [')
    L.append(';\n'.join('  (%s, [%s])' % (coq_string(k), '; '.join(kind_name(o) for o in v))
                        for k, v in O.OPERANDS.items()))
    L.append('].\n')
    L.append('Definition wfm : list (akind * wmeth) := [%s].\n' % '; '.join('(%s, %s)' % x for x in probe_wfm(W.wfm)))
    L.append('Definition rfm : list (akind * rmeth) := [%s].\n' % '; '.join('(%s, %s)' % x for x in probe_rfm(R.rfm)))
    L.append('Definition lang_types : list (string * list Z) := [%s].\n' % '; '.join(
        '(%s, [%s])' % (coq_string(k), '; '.join(str(b) for b in v)) for k, v in IO.LANG_TYPES.items()))
    L.append('Definition lang_types_reverse : list (Z * string) := [%s].\n' % '; '.join(
        '(%d, %s)' % (k, coq_string(v)) for k, v in IO.LANG_TYPES_REVERSE.items()))
    L.append('Definition section_ids : list (string * Z) := [%s].\n' % '; '.join(
        '(%s, %d)' % (coq_string(k), v) for k, v in C.SECTION_IDS.items()))
    L.append('Definition datacount_reader : rmeth := %s.\n' % probe_datacount())
    return '\n'.join(L)


def regen(ctx):
    try:
        text = export_tables()
    except TieBroken:
        raise
    except Exception as ex:   # noqa: BLE001
        ctx.failed_stages.append(('export', repr(ex)))
        raise TieBroken('table export failed: %r' % (ex,))
    changed = ctx.write_gen('Tab_wasm_opcodes', text)
    ctx.cov['stages']['gen_Tab_wasm_opcodes'] = {'changed_on_disk': changed, 'bytes': len(text)}
    return text


# ---------------------------------------------------------------- tie H: python objects -> model terms
def cs(s):
    return coq_string(s) + '%string'


def zl(bs):
    if len(bs) > 3 and all(0 <= int(b) < 256 for b in bs):
        return '(bytes_of_hex "%s"%%string)' % bytes(bs).hex()
    return '[%s]' % '; '.join(coq_z(int(b)) for b in bs)


def sl(ss):
    return '[%s]' % '; '.join(cs(s) for s in ss)


def ref_t(r):
    return '(%s, %s)' % (cs(r.space), coq_z(r.index))


def float_raw(kind, x):
    return struct.pack('<f' if kind == 'F32' else '<d', x)


def arg_repr(kind, a):
    """(coq term, python value rendered like Model.WasmBinVal.arg_val) of one instruction argument"""
    from ppci.wasm.components import Ref
    kn = kind if isinstance(kind, str) else kind.name
    if isinstance(a, bool):
        raise ValueError('bool arg')
    if isinstance(a, int):
        return 'AInt %s' % coq_z(a), ('i', a)
    if isinstance(a, str):
        return 'AStr %s' % cs(a), ('s', a)
    if isinstance(a, Ref):
        return 'ARef %s %s' % (cs(a.space), coq_z(a.index)), ('r', a.space, a.index)
    if isinstance(a, float):
        raw = float_raw(kn, a)
        return 'AFloat %s' % zl(raw), ('f', raw)
    if isinstance(a, (bytes, bytearray)):
        return 'ABytes %s' % zl(a), ('b', bytes(a))
    if isinstance(a, list):
        if kn == 'br_table' or (a and isinstance(a[0], Ref)):
            return 'ARefs [%s]' % '; '.join(ref_t(r) for r in a), ('rs', [(r.space, r.index) for r in a])
        return 'AStrs %s' % sl(a), ('ss', list(a))
    raise ValueError('arg %r' % (a,))


def instr_repr(i):
    import ppci.wasm.opcodes as O
    kinds = O.OPERANDS.get(i.opcode, ())
    if len(kinds) != len(i.args):
        kinds = ['?'] * len(i.args)
    parts = [arg_repr(k, a) for k, a in zip(kinds, i.args)]
    return ('Instr %s [%s]' % (cs(i.opcode), '; '.join('(%s)' % p[0] for p in parts)),
            (i.opcode, [p[1] for p in parts]))


def expr_repr(l):
    parts = [instr_repr(i) for i in l]
    return '[%s]' % '; '.join('(%s)' % p[0] for p in parts), [p[1] for p in parts]


def optz(x):
    return 'None' if x is None else '(Some %s)' % coq_z(x)


def utf8(s):
    return s.encode('utf-8')


def defn_repr(d):
    """(coq term of Model.WasmBin.defn, python value rendered like defn_val)"""
    from ppci.wasm import components as C
    if isinstance(d, C.Type):
        ps = [t for _, t in d.params]
        return 'DType %s %s' % (sl(ps), sl(d.results)), ('type', ps, list(d.results))
    if isinstance(d, C.Import):
        mn, nm = utf8(d.modname), utf8(d.name)
        if d.kind == 'func':
            it, iv = 'IFunc %s' % ref_t(d.info[0]), ('func', (d.info[0].space, d.info[0].index))
        elif d.kind == 'table':
            it, iv = 'ITable %s %s %s' % (cs(d.info[0]), coq_z(d.info[1]), optz(d.info[2])), ('table',) + tuple(d.info)
        elif d.kind == 'memory':
            it, iv = 'IMemory %s %s' % (coq_z(d.info[0]), optz(d.info[1])), ('memory',) + tuple(d.info)
        else:
            it, iv = ('IGlobal %s %s' % (cs(d.info[0]), 'true' if d.info[1] else 'false'),
                      ('global', d.info[0], bool(d.info[1])))
        return 'DImport %s %s (%s)' % (zl(mn), zl(nm), it), ('import', mn, nm, iv)
    if isinstance(d, C.Table):
        return 'DTable %s %s %s' % (cs(d.kind), coq_z(d.min), optz(d.max)), ('table', d.kind, d.min, d.max)
    if isinstance(d, C.Memory):
        return 'DMemory %s %s' % (coq_z(d.min), optz(d.max)), ('memory', d.min, d.max)
    if isinstance(d, C.Global):
        et, ev = expr_repr(d.init)
        return ('DGlobal %s %s %s' % (cs(d.typ), 'true' if d.mutable else 'false', et),
                ('global', d.typ, bool(d.mutable), ev))
    if isinstance(d, C.Export):
        nm = utf8(d.name)
        return ('DExport %s %s %s' % (zl(nm), cs(d.kind), ref_t(d.ref)),
                ('export', nm, d.kind, (d.ref.space, d.ref.index)))
    if isinstance(d, C.Start):
        return 'DStart %s' % ref_t(d.ref), ('start', (d.ref.space, d.ref.index))
    if isinstance(d, C.Elem):
        r, off = d.mode
        et, ev = expr_repr(off)
        return ('DElem %s %s [%s]' % (ref_t(r), et, '; '.join(ref_t(x) for x in d.refs)),
                ('elem', (r.space, r.index), ev, [(x.space, x.index) for x in d.refs]))
    if isinstance(d, C.Func):
        ls = [t for _, t in d.locals]
        et, ev = expr_repr(d.instructions)
        return ('DFunc %s %s %s' % (ref_t(d.ref), sl(ls), et),
                ('func', (d.ref.space, d.ref.index), ls, ev))
    if isinstance(d, C.Data):
        if d.mode:
            r, off = d.mode
            et, ev = expr_repr(off)
            mt, mv = '(Some (%s, %s))' % (ref_t(r), et), ((r.space, r.index), ev)
        else:
            mt, mv = 'None', None
        return 'DData %s %s' % (mt, zl(d.data)), ('data', mv, bytes(d.data))
    if isinstance(d, C.DataCount):
        return 'DDataCount %s' % coq_z(d.n), ('datacount', d.n)
    if isinstance(d, C.Custom):
        nm = utf8(d.name)
        return 'DCustom %s %s' % (zl(nm), zl(d.data)), ('custom', nm, bytes(d.data))
    raise ValueError('definition %r' % (d,))


def defs_repr(defs):
    parts = [defn_repr(d) for d in defs]
    return '[%s]' % ';\n  '.join('(%s)' % p[0] for p in parts), [p[1] for p in parts]


def make_module(defs):
    from ppci.wasm import Module
    m = Module()
    m.definitions = list(defs)
    return m


# ---------------------------------------------------------------- generators (seeded from ctx.rng only)
U32_POOL = [0, 1, 2, 3, 63, 64, 65, 127, 128, 129, 255, 256, 16383, 16384, 65535, 65536, 2 ** 21 - 1, 2 ** 21,
            2 ** 28 - 1, 2 ** 28, 2 ** 31 - 1, 2 ** 31, 2 ** 32 - 1]
I32_POOL = [0, 1, -1, 63, 64, -64, -65, 127, 128, -128, -129, 8191, 8192, -8192, -8193, 2 ** 20, -2 ** 20 - 1,
            2 ** 27 - 1, 2 ** 27, -2 ** 27, -2 ** 27 - 1, 2 ** 31 - 1, -2 ** 31, 0x7fffffff, 123456789, -123456789]
I64_POOL = I32_POOL + [2 ** 31, -2 ** 31 - 1, 2 ** 32, 2 ** 34, -2 ** 34 - 1, 2 ** 41 - 1, 2 ** 48, -2 ** 48 - 1, 2 ** 55, -2 ** 55 - 1,
                       2 ** 62 - 1, 2 ** 62, -2 ** 62, -2 ** 62 - 1, 2 ** 63 - 1, -2 ** 63, 2 ** 63 - 2, -2 ** 63 + 1]
F32_RAW = ['00000000', '00000080', '0000803f', '000080bf', '0000c03f', '0000807f', '000080ff', '0000c07f', '0100c07f',
           'ffffff7f', '01000000', 'ffff7f7f', 'ffff7f00', 'db0f4940', '0000c0ff', 'ffffffff', 'cdcccc3d']
F64_RAW = ['0000000000000000', '0000000000000080', '000000000000f03f', '000000000000f0bf', '000000000000f07f',
           '000000000000f0ff', '000000000000f87f', '010000000000f87f', '010000000000f07f', 'ffffffffffffff7f',
           '0100000000000000', 'ffffffffffffef7f', '182d4454fb210940', '9a9999999999b93f', 'ffffffffffffffff']
VALTYPES = ['i32', 'i64', 'f32', 'f64']
BLOCKTYPES = ['emptyblock', 'i32', 'i64', 'f32', 'f64']
NAMES = ['', 'a', 'mem', 'main', 'env', 'x.y', 'fü', '☃', 'a b', 'long_name_' * 14]


def is_f32_snan(raw):
    v = int.from_bytes(raw, 'little')
    return (v >> 23) & 0xFF == 0xFF and (v & 0x7FFFFF) != 0 and not (v >> 22) & 1


def pick(rng, pool, lo, hi):
    if rng.random() < 0.7:
        return rng.choice(pool)
    return rng.randrange(lo, hi)


def gen_f32(rng):
    while True:
        raw = bytes.fromhex(rng.choice(F32_RAW)) if rng.random() < 0.6 else bytes(rng.randrange(256) for _ in range(4))
        if not is_f32_snan(raw):
            return struct.unpack('<f', raw)[0]


def gen_f64(rng):
    raw = bytes.fromhex(rng.choice(F64_RAW)) if rng.random() < 0.6 else bytes(rng.randrange(256) for _ in range(8))
    return struct.unpack('<d', raw)[0]


SPACE_OF = {'LABELIDX': 'label', 'LOCALIDX': 'local', 'GLOBALIDX': 'global', 'FUNCIDX': 'func',
            'TYPEIDX': 'type', 'TABLEIDX': 'table'}


def gen_arg(rng, kind, small_idx=None):
    from ppci.wasm.components import Ref
    kn = kind if isinstance(kind, str) else kind.name
    if kn == 'TYPE':
        return rng.choice(BLOCKTYPES)
    if kn == 'U8':
        return 0 if rng.random() < 0.6 else rng.randrange(256)
    if kn == 'U32':
        return pick(rng, U32_POOL, 0, 2 ** 32)
    if kn in SPACE_OF:
        if small_idx is not None:
            return Ref(SPACE_OF[kn], index=rng.randrange(small_idx))
        return Ref(SPACE_OF[kn], index=pick(rng, U32_POOL, 0, 2 ** 32))
    if kn == 'I32':
        return pick(rng, I32_POOL, -2 ** 31, 2 ** 31)
    if kn == 'I64':
        return pick(rng, I64_POOL, -2 ** 63, 2 ** 63)
    if kn == 'F32':
        return gen_f32(rng)
    if kn == 'F64':
        return gen_f64(rng)
    if kn == 'br_table':
        return [Ref('label', index=pick(rng, U32_POOL[:8], 0, 300)) for _ in range(rng.randrange(1, 6))]
    if kn == 'result_types':
        return [rng.choice(VALTYPES) for _ in range(rng.choice([0, 0, 1, 1, 2]))]
    raise KeyError(kn)


def supported_ops():
    """mnemonics whose operand kinds the binary writer and reader both handle"""
    import ppci.wasm.opcodes as O
    import ppci.wasm.binary.writer as W
    import ppci.wasm.binary.reader as R
    out = []
    for op, kinds in O.OPERANDS.items():
        if all((k in W.wfm and k in R.rfm) or k in ('br_table', 'result_types') for k in kinds):
            out.append(op)
    return out


CONTROL = ('block', 'loop', 'if', 'else', 'end')


def gen_plain_instr(rng, ops, mvp_bias=True):
    import ppci.wasm.opcodes as O
    from ppci.wasm.components import Instruction
    while True:
        op = rng.choice(ops)
        if op in CONTROL:
            continue
        code = O.OPCODES[op]
        if mvp_bias and isinstance(code, tuple) and code[0] == 0xFD and rng.random() < 0.8:
            continue
        return Instruction(op, *[gen_arg(rng, k) for k in O.OPERANDS[op]])


INTERESTING = ['i32.const', 'i64.const', 'f32.const', 'f64.const', 'br_table', 'call_indirect', 'i32.load', 'i64.store',
               'f64.load', 'i32.store8', 'memory.size', 'memory.grow', 'select', 'br', 'br_if', 'call', 'local.get',
               'global.set', 'memory.copy', 'memory.fill', 'table.copy', 'i32.trunc_sat_f64_u']


def gen_body(rng, ops, n, depth=0):
    """a balanced instruction list with nested block/loop/if-else"""
    from ppci.wasm.components import Instruction, BlockInstruction
    import ppci.wasm.opcodes as O
    out = []
    while n > 0:
        r = rng.random()
        if r < 0.18 and depth < 4:
            kind = rng.choice(['block', 'loop', 'if'])
            out.append(BlockInstruction(kind, rng.choice(BLOCKTYPES)))
            k = rng.randrange(0, max(1, n))
            out += gen_body(rng, ops, k, depth + 1)
            if kind == 'if' and rng.random() < 0.6:
                out.append(Instruction('else'))
                out += gen_body(rng, ops, rng.randrange(0, 3), depth + 1)
            out.append(Instruction('end'))
            n -= k + 1
        elif r < 0.6:
            op = rng.choice([o for o in INTERESTING if o in ops] or ops)
            out.append(Instruction(op, *[gen_arg(rng, k) for k in O.OPERANDS[op]]))
            n -= 1
        else:
            out.append(gen_plain_instr(rng, ops))
            n -= 1
    return out


def gen_const_expr(rng):
    from ppci.wasm.components import Instruction, Ref
    r = rng.random()
    if r < 0.4:
        return [Instruction('i32.const', pick(rng, I32_POOL, -2 ** 31, 2 ** 31))]
    if r < 0.55:
        return [Instruction('i64.const', pick(rng, I64_POOL, -2 ** 63, 2 ** 63))]
    if r < 0.7:
        return [Instruction('f64.const', gen_f64(rng))]
    if r < 0.8:
        return [Instruction('f32.const', gen_f32(rng))]
    if r < 0.9:
        return [Instruction('global.get', Ref('global', index=rng.randrange(4)))]
    return [Instruction('i32.const', 1), Instruction('i32.const', 2), Instruction('i32.add')]


def gen_limits(rng):
    mn = pick(rng, U32_POOL[:14], 0, 70000)
    return mn, (None if rng.random() < 0.5 else mn + pick(rng, U32_POOL[:14], 0, 70000))


def gen_module_defs(rng, ops, size=None, datacount_max=64):
    """definitions of a random module, in a random (not section-sorted) order in 30% of the cases"""
    from ppci.wasm import components as C
    from ppci.wasm.components import Ref
    size = size if size is not None else rng.choice([0, 1, 2, 3, 5, 8])
    defs = []
    ntypes = rng.randrange(0, size + 2)
    for i in range(ntypes):
        defs.append(C.Type(i, [(j, rng.choice(VALTYPES)) for j in range(rng.choice([0, 1, 2, 3, 7]))],
                           [rng.choice(VALTYPES) for _ in range(rng.choice([0, 1, 1, 2]))]))
    nimp = rng.randrange(0, size + 1)
    for i in range(nimp):
        kind = rng.choice(['func', 'table', 'memory', 'global'])
        if kind == 'func':
            info = (Ref('type', index=rng.randrange(max(1, ntypes))),)
        elif kind == 'table':
            info = ('funcref',) + gen_limits(rng)
        elif kind == 'memory':
            info = gen_limits(rng)
        else:
            info = (rng.choice(VALTYPES), rng.random() < 0.5)
        defs.append(C.Import(rng.choice(NAMES), rng.choice(NAMES), kind, i, info))
    nfunc = rng.randrange(0, size + 1)
    for i in range(nfunc):
        nloc = rng.choice([0, 0, 1, 2, 3, 5, 9])
        locs, t = [], rng.choice(VALTYPES)
        for _ in range(nloc):
            if rng.random() < 0.5:
                t = rng.choice(VALTYPES)
            locs.append((None, t))
        defs.append(C.Func(i, Ref('type', index=rng.randrange(max(1, ntypes))), locs,
                           gen_body(rng, ops, rng.choice([0, 1, 3, 6, 12, 25]))))
    for i in range(rng.randrange(0, 2 + (size > 3))):
        defs.append(C.Table(i, 'funcref', *gen_limits(rng)))
    for i in range(rng.randrange(0, 2 + (size > 3))):
        defs.append(C.Memory(i, *gen_limits(rng)))
    for i in range(rng.randrange(0, size + 1)):
        defs.append(C.Global(i, rng.choice(VALTYPES), rng.random() < 0.5, gen_const_expr(rng)))
    for i in range(rng.randrange(0, size + 1)):
        kind = rng.choice(['func', 'table', 'memory', 'global'])
        defs.append(C.Export(rng.choice(NAMES), kind, Ref(kind, index=rng.randrange(0, 5))))
    if rng.random() < 0.3:
        defs.append(C.Start(Ref('func', index=rng.randrange(0, 5))))
    for i in range(rng.randrange(0, 1 + (size > 1))):
        defs.append(C.Elem(i, (Ref('table', index=0), gen_const_expr(rng)),
                           [Ref('func', index=pick(rng, U32_POOL[:10], 0, 500)) for _ in range(rng.randrange(0, 5))]))
    ndata = rng.randrange(0, size + 1)
    for i in range(ndata):
        r = rng.random()
        data = bytes(rng.randrange(256) for _ in range(rng.choice([0, 1, 2, 5, 17, 130])))
        if r < 0.2:
            mode = None
        elif r < 0.8:
            mode = (Ref('memory', index=0), gen_const_expr(rng))
        else:
            mode = (Ref('memory', index=rng.choice([1, 2, 200])), gen_const_expr(rng))
        defs.append(C.Data(i, mode, data))
    if rng.random() < 0.25:
        defs.append(C.DataCount(rng.randrange(0, datacount_max) if rng.random() < 0.7 else ndata))
    for i in range(rng.choice([0, 0, 0, 1, 2])):
        defs.append(C.Custom(rng.choice(NAMES[1:]), bytes(rng.randrange(256) for _ in range(rng.choice([0, 1, 7, 40])))))
    if rng.random() < 0.3:
        rng.shuffle(defs)
    return defs
