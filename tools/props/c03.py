"""C03 — optimisation passes keep the IR well-formed and never crash (DESIGN §4 C03).

Three parts (see coq/Props/C03.v):
 (1) verified validator (V): every REAL pass of ppci.opt (and random pass sequences, length <= 8) is run
     on generated verifier-clean modules; after every pass the module is imported (tools/irimport.py)
     and Model.IRWfCheck.wf_modul_b — proved sound w.r.t. Spec/IRWf.v — is evaluated in coqc; the stored
     uses / used_by / references / phi inputs are compared with sets re-derived from the operands
     (bookkeeping oracle); any exception of a pass is a crash.
 (2) tie H, Model/Verify.v = ppci/irutils/verify.py: compared with the real verify_module on clean and
     deliberately broken modules (Ok / Diag / Internal).
 (3) tie H, Model/IRStore.v = the bookkeeping mutators of ppci/ir.py: compared with real ir objects on
     generated scenarios (exact ordered sets); the configuration (which repairs are present) is probed.
"""
import json
import zlib
import logging
import os
import random
import sys

sys.path.insert(0, os.path.join(os.path.dirname(os.path.dirname(os.path.abspath(__file__))), 'gen'))
from vlib import OkV, Diag, Internal  # noqa: E402

LEVEL = 'proof'
RULE = ('pass level: modules from tools/gen/irgen.py (all features: x op x, calls with repeated arguments, phis with '
        'repeated values, two edges to one successor, self loops, allocas, shuffled block order) plus ten hand-made minimal witnesses and 12 deterministic constant-cjump shapes (dropped edge into a plain block / loop header / shared block / nested-loop header; all passes found in ppci.opt), '
        'plus build-C02\'s sources: its 10 C idiom files and seeded C programs compiled by api.c_to_ir for x86_64/arm (canonical pipeline x3, Mem2Reg followed by every other pass, one random sequence) and its irgen extension incl. alias / pun kinds; every pass of ppci.opt on a fresh copy and one random pass sequence (length 2..8) per module, '
        'checked after EVERY pass; non-trivial = (module, pass) pair whose pass changed the imported module. '
        'mutators: random scenarios of 1..4 instructions over 4 values / 3 target blocks biased to repeated operands. '
        'verifier: each generated module clean and with each of 10 breaking edits.')
EXPLANATION = ('Coq: (a) the well-formedness checker run on every real pass output is sound w.r.t. the independent '
               'definition Spec/IRWf.v for all modules (unbounded; dominance/reachability via C25 theorems); (b) hand model '
               'of the ppci verifier (with one switch per proposed repair): c03_verifier_sound — acceptance implies '
               'wf_function_except_gaps (entry, shape, reachability, unique block+value names, defined local uses, dominance '
               'of non-phi uses, phi dominance for the first input block carrying a value, an input per predecessor, all '
               'typing clauses the verifier checks) for all functions PROVIDED the stored uses cover the operands; five '
               'refutations (accepted yet ill-formed: phi input from a non-predecessor, stale uses, unop operand type, value '
               'on two phi inputs dominating only the first); c03_verifier_fixed_sound — with the four repairs '
               'fixes/C03-verifier-*.diff no bookkeeping hypothesis is needed and the exact phi-input clause, phi dominance '
               'on every input and Unop typing follow. Completeness: c03_verifier_complete_partial — a function WITHOUT phi instructions that the '
               'verified checker accepts is accepted by the verifier model (every configuration, derived bookkeeping); with '
               'repr_ok and the repaired verifier acceptance conversely gives wf_function (c03_verifier_iff_wf_partial); for '
               'functions with phis completeness rests on the correspondence incl. well-formed-but-unusual shapes. block/value ids, target existence and Param/Glob ranges are importer invariants, CopyBlob/callee '
               'pointer types are only enforced by the ir.py constructors. (c) hand model of the bookkeeping mutators: '
               'refutations for the code as found; for the repaired code UNBOUNDED theorems that replace_use (plain, call, '
               'phi, repeated operands), Value.replace_by, Phi.set_incoming and Phi.del_incoming preserve stored uses = '
               'operands and stored used_by = derived users for every state (Proofs/C03_store_inv.v), and c03_block_refs_inv: '
               'Block.references = derived referring jumps is preserved by EVERY operation of the scenario language '
               '(set_target_block, change_target, delete, remove_from_block, remove_instruction+delete and all def-use '
               'mutators) for all states and arguments, hence by every operation sequence (Proofs/C03_refs_inv.v); the '
               'def-use invariant under delete / remove_from_block / replace_incoming and instruction attachment are covered '
               'by the bounded theorem only (49632 exhaustively enumerated scenarios). The passes themselves are NOT modelled '
               '(no c03_pass_wf theorems): pass-level assurance is translation validation of the sampled runs by the verified '
               'checker (C02 owns the pass models).')
TRUSTED = ['tools/irimport.py (ppci.ir objects -> Coq syntax) and tools/gen/irgen.py',
           'hand models Model/Verify.v and Model/IRStore.v (cross-checked against the implementation on every run)',
           'CfgInfo.strictly_dominates of ppci is replaced in Model/Verify.v by the C25 reference dominance (property C25)',
           'Python port pywf of the Coq checker is used for search only and is compared with the Coq checker on every run',
           'Python dict / OrderedSet insertion order == association list order']
ASSUMPTIONS = ['a phi has one input per predecessor BLOCK (ppci keys Phi.inputs by block): `cjmp ? J : J` gives J one predecessor; passes that merge two different incoming values into that shape stay well-formed and are C02\'s (semantic) findings, not C03\'s',
               'well-formed input = accepted by verify_module AND by the Coq checker (generated modules are both)',
               'verifier soundness theorem assumes uses_cover (stored uses contain the operands); the bookkeeping oracle '
               'checks exactly that on every real pass output',
               'ir.JumpTable / ir.InlineAsm are outside the hub syntax (cannot be constructed / not representable)']
MANIFEST = {
    'text': ('Every optimisation pass of ppci.opt and random pass sequences are run on generated and hand-made modules; after '
             'each pass a Coq-verified well-formedness checker (sound for all modules w.r.t. an independent path-based '
             'definition) is evaluated on the imported result, the def-use/predecessor bookkeeping is re-derived and '
             'compared, and any exception counts as a crash (translation validation, not a proof about the passes). '
             'The primitive IR mutators and the IR verifier are modelled in Coq: defects of replace_use & co. are refuted '
             'with machine-checked witnesses, the repaired mutators preserve the bookkeeping on an exhaustive bounded '
             'family, and acceptance by the verifier is proved to imply well-formedness minus its recorded gaps '
             '(each gap refuted by a witness, and closed for the verifier with the four proposed repairs).'),
    'note': ('trusted: irimport, irgen, hand models (cross-checked each run), C25 for ppci dominators; passes are validated '
             'per run, not modelled; def-use mutator invariant unbounded, references/removal part bounded (49632 scenarios); '
             'verifier completeness not proved'),
    'technique': 'verified validator + hand models + bounded exhaustive vm_compute'}

COQ_PROOFS = ['Proofs/C03_wf.vo', 'Proofs/C03_verify.vo', 'Proofs/C03_store.vo', 'Proofs/C03_store_inv.vo',
              'Proofs/C03_refs_inv.vo', 'Proofs/C03_complete.vo', 'Lib/Val.vo']
FXKEYS = ['fx_replace_use', 'fx_call', 'fx_phi_replace', 'fx_phi_incoming', 'fx_jump_delete', 'fx_setter', 'fx_rfb']
FX_KNOWN = ('fx_setter', 'fx_rfb')     # defects recorded as known findings (probed, not reported twice)
FXDIFF = {'fx_replace_use': 'C03-replace-use-double', 'fx_call': 'C03-call-replace-use-repeated-args',
          'fx_phi_replace': 'C03-phi-replace-use-repeated', 'fx_phi_incoming': 'C03-phi-incoming-shared-value',
          'fx_jump_delete': 'C03-jump-delete', 'fx_setter': 'C03-value-use-setter',
          'fx_rfb': 'C03-jump-remove-from-block'}


def regen(ctx):
    return None


# ---------------------------------------------------------------- hand-made minimal witnesses
def witness_modules(ir):
    """name -> (builder, passes): minimal well-formed modules for the defects found"""
    def fn(rt=None, params=()):
        m = ir.Module('w')
        f = ir.Function('f', ir.Binding.GLOBAL, rt) if rt else ir.Procedure('f', ir.Binding.GLOBAL)
        m.add_function(f)
        ps = []
        for k, t in enumerate(params):
            p = ir.Parameter('a%d' % k, t)
            f.add_parameter(p)
            ps.append(p)
        e = ir.Block('entry')
        f.add_block(e)
        f.entry = e
        return m, f, e, ps

    def blk(f, name):
        b = ir.Block(name)
        f.add_block(b)
        return b

    def w_cse_double():
        m, f, e, (p,) = fn(ir.i32, [ir.i32])
        x = e.add_instruction(ir.Binop(p, '*', p, 'x', ir.i32)) or e.instructions[-1]
        y = ir.Binop(p, '*', p, 'y', ir.i32)
        e.add_instruction(y)
        z = ir.Binop(y, '+', y, 'z', ir.i32)
        e.add_instruction(z)
        e.add_instruction(ir.Return(z))
        return m

    def w_call_args():
        m, f, e, _ = fn(ir.i32, [ir.i32, ir.i32])
        c1 = ir.Const(1, 'c1', ir.i32)
        c2 = ir.Const(1, 'c2', ir.i32)
        e.add_instruction(c1)
        e.add_instruction(c2)
        r = ir.FunctionCall(f, [c2, c2], 'r', ir.i32)
        e.add_instruction(r)
        e.add_instruction(ir.Return(r))
        return m

    def diamond(same_target=False):
        m, f, e, (p,) = fn(ir.i32, [ir.i32])
        b1, b2, b3 = blk(f, 'b1'), blk(f, 'b2'), blk(f, 'b3')
        c1 = ir.Const(1, 'c1', ir.i32)
        c2 = ir.Const(1, 'c2', ir.i32)
        e.add_instruction(c1)
        e.add_instruction(c2)
        e.add_instruction(ir.CJump(p, '==', c1, b1, b2))
        b1.add_instruction(ir.Jump(b3))
        b2.add_instruction(ir.Jump(b3))
        phi = ir.Phi('phi', ir.i32)
        b3.add_instruction(phi)
        phi.set_incoming(b1, c2)
        phi.set_incoming(b2, c2)
        b3.add_instruction(ir.Return(phi))
        return m

    def w_clean_shared():
        # entry: cjmp ? mid : join ; mid: jmp join ; join: phi entry: c, mid: c
        m, f, e, (p,) = fn(ir.i32, [ir.i32])
        mid, join = blk(f, 'mid'), blk(f, 'join')
        c = ir.Const(1, 'c', ir.i32)
        e.add_instruction(c)
        e.add_instruction(ir.CJump(p, '==', c, mid, join))
        mid.add_instruction(ir.Jump(join))
        phi = ir.Phi('phi', ir.i32)
        join.add_instruction(phi)
        phi.set_incoming(e, c)
        phi.set_incoming(mid, c)
        join.add_instruction(ir.Return(phi))
        return m

    def w_cjump_same():
        m, f, e, _ = fn(ir.i32)
        b1 = blk(f, 'b1')
        c = ir.Const(1, 'c', ir.i32)
        e.add_instruction(c)
        e.add_instruction(ir.CJump(c, '==', c, b1, b1))
        b1.add_instruction(ir.Return(c))
        return m

    def w_cjump_const():
        m, f, e, _ = fn(ir.i32)
        b1, b3 = blk(f, 'b1'), blk(f, 'b3')
        c1 = ir.Const(1, 'c1', ir.i32)
        c2 = ir.Const(2, 'c2', ir.i32)
        e.add_instruction(c1)
        e.add_instruction(c2)
        e.add_instruction(ir.CJump(c1, '==', c2, b1, b3))
        b1.add_instruction(ir.Jump(b3))
        phi = ir.Phi('phi', ir.i32)
        b3.add_instruction(phi)
        phi.set_incoming(e, c1)
        phi.set_incoming(b1, c2)
        b3.add_instruction(ir.Return(phi))
        return m

    def w_mem2reg():
        # alloca written on one branch only: a phi is needed at the join (module without debug_db)
        m, f, e, (p,) = fn(ir.i32, [ir.i32])
        b1, b2 = blk(f, 'b1'), blk(f, 'b2')
        a = ir.Alloc('a', 4, 4)
        e.add_instruction(a)
        ad = ir.AddressOf(a, 'ad')
        e.add_instruction(ad)
        e.add_instruction(ir.Store(p, ad))
        e.add_instruction(ir.CJump(p, '==', p, b1, b2))
        c = ir.Const(7, 'c', ir.i32)
        b1.add_instruction(c)
        b1.add_instruction(ir.Store(c, ad))
        b1.add_instruction(ir.Jump(b2))
        ld = ir.Load(ad, 'l', ir.i32)
        b2.add_instruction(ld)
        s = ir.Binop(ld, '+', ld, 's', ir.i32)         # l + l: the 'KeyError <ppci.ir.Load>' of -O2
        b2.add_instruction(s)
        b2.add_instruction(ir.Return(s))
        return m

    def w_glue_phi():
        m, f, e, _ = fn(ir.i32)
        b = blk(f, 'b')
        c = ir.Const(1, 'c', ir.i32)
        e.add_instruction(c)
        e.add_instruction(ir.Jump(b))
        phi = ir.Phi('p', ir.i32)
        b.add_instruction(phi)
        phi.set_incoming(e, c)
        b.add_instruction(ir.Return(phi))
        return m

    def w_cjump_unreach_dup():
        # the not-taken block has two edges to a block with a phi (delete_unreachable)
        m, f, e, (p,) = fn(ir.i32, [ir.i32])
        b1, b2, b3 = blk(f, 'b1'), blk(f, 'b2'), blk(f, 'b3')
        c = ir.Const(1, 'c', ir.i32)
        e.add_instruction(c)
        e.add_instruction(ir.CJump(c, '==', c, b1, b2))
        b1.add_instruction(ir.Jump(b3))
        b2.add_instruction(ir.CJump(p, '==', c, b3, b3))
        phi = ir.Phi('p', ir.i32)
        b3.add_instruction(phi)
        phi.set_incoming(b1, c)
        phi.set_incoming(b2, p)
        b3.add_instruction(ir.Return(phi))
        return m

    def w_glue_dup_edge():
        # entry: jmp b ; b: cjmp a0 < a0 ? c : c ; c: p = phi b: a0  (glue_blocks(entry, b))
        m, f, e, (p,) = fn(ir.i32, [ir.i32])
        b, c = blk(f, 'b'), blk(f, 'c')
        e.add_instruction(ir.Jump(b))
        b.add_instruction(ir.CJump(p, '<', p, c, c))
        phi = ir.Phi('p', ir.i32)
        c.add_instruction(phi)
        phi.set_incoming(b, p)
        c.add_instruction(ir.Return(phi))
        return m

    return {
        'clean-glue-dup-edge': (w_glue_dup_edge, ['CleanPass']),
        'cse-double-use': (w_cse_double, ['CSE']),
        'cse-call-repeated-args': (w_call_args, ['CSE', 'DeleteUnused']),
        'cse-phi-repeated-value': (diamond, ['CSE']),
        'clean-shared-phi-value': (w_clean_shared, ['CleanPass']),
        'cjump-same-target': (w_cjump_same, ['CJumpPass']),
        'cjump-constant': (w_cjump_const, ['CJumpPass']),
        'mem2reg-phi-double-use': (w_mem2reg, ['Mem2Reg']),
        'clean-glue-phi': (w_glue_phi, ['CleanPass']),
        'cjump-unreachable-dup-edge': (w_cjump_unreach_dup, ['CJumpPass']),
    }


def cjump_shapes(ir):
    """deterministic corpus: a CONSTANT conditional jump whose dropped edge leads into (a) a plain block,
    (b) a loop header kept alive by its own back edge, (c) a block that is also reached otherwise,
    (d) the header of a nested loop; each as constant-false, constant-true with swapped labels (the same
    edge is dropped) and constant-true (the other edge is dropped).  name -> builder"""
    def mk(shape, variant):
        m = ir.Module('cj')
        f = ir.Function('f', ir.Binding.GLOBAL, ir.i32)
        m.add_function(f)
        x = ir.Parameter('x', ir.i32)
        f.add_parameter(x)

        def blk(n):
            return f.add_block(ir.Block(n))
        e = blk('entry')
        f.entry = e
        c0 = ir.Const(0, 'c0', ir.i32)
        c1 = ir.Const(1, 'c1', ir.i32)
        e.add_instruction(c0)
        e.add_instruction(c1)

        def cj(src, t, d):
            # t = the interesting target, d = the other one
            if variant == 'false':
                src.add_instruction(ir.CJump(c0, '==', c1, t, d))      # never t
            elif variant == 'true_swapped':
                src.add_instruction(ir.CJump(c0, '==', c0, d, t))      # never t
            else:
                src.add_instruction(ir.CJump(c0, '==', c0, t, d))      # never d
        if shape == 'plain':
            t, d = blk('t'), blk('d')
            cj(e, t, d)
            tv = ir.Binop(x, '+', c1, 'tv', ir.i32)
            t.add_instruction(tv)
            t.add_instruction(ir.Jump(d))
            r = ir.Phi('r', ir.i32)
            d.add_instruction(r)
            r.set_incoming(e, x)
            r.set_incoming(t, tv)
            d.add_instruction(ir.Return(r))
        elif shape == 'loop_header':
            lp, d = blk('loop'), blk('done')
            cj(e, lp, d)
            a = ir.Phi('a', ir.i32)
            lp.add_instruction(a)
            b = ir.Binop(a, '-', c1, 'b', ir.i32)
            lp.add_instruction(b)
            lp.add_instruction(ir.CJump(b, '!=', c0, lp, d))
            a.set_incoming(e, x)
            a.set_incoming(lp, b)
            r = ir.Phi('r', ir.i32)
            d.add_instruction(r)
            r.set_incoming(e, x)
            r.set_incoming(lp, b)
            d.add_instruction(ir.Return(r))
        elif shape == 'shared':
            a_, b_, j, k = blk('a'), blk('b'), blk('j'), blk('k')
            e.add_instruction(ir.CJump(x, '==', c0, a_, b_))
            cj(a_, j, k)
            b_.add_instruction(ir.Jump(j))
            pj = ir.Phi('pj', ir.i32)
            j.add_instruction(pj)
            pj.set_incoming(a_, x)
            pj.set_incoming(b_, c1)
            j.add_instruction(ir.Jump(k))
            pk = ir.Phi('pk', ir.i32)
            k.add_instruction(pk)
            pk.set_incoming(a_, c0)
            pk.set_incoming(j, pj)
            k.add_instruction(ir.Return(pk))
        else:       # nested loop header
            h1, h2, l2, d = blk('h1'), blk('h2'), blk('l2'), blk('done')
            cj(e, h1, d)
            a = ir.Phi('a', ir.i32)
            h1.add_instruction(a)
            h1.add_instruction(ir.Jump(h2))
            b = ir.Phi('b', ir.i32)
            h2.add_instruction(b)
            b2 = ir.Binop(b, '-', c1, 'b2', ir.i32)
            h2.add_instruction(b2)
            h2.add_instruction(ir.CJump(b2, '!=', c0, h2, l2))
            l2.add_instruction(ir.CJump(b2, '!=', c1, h1, d))
            a.set_incoming(e, x)
            a.set_incoming(l2, b2)
            b.set_incoming(h1, a)
            b.set_incoming(h2, b2)
            r = ir.Phi('r', ir.i32)
            d.add_instruction(r)
            r.set_incoming(e, x)
            r.set_incoming(l2, b2)
            d.add_instruction(ir.Return(r))
        return m
    out = {}
    for shape in ('plain', 'loop_header', 'shared', 'nested_header'):
        for variant in ('false', 'true_swapped', 'true'):
            out['%s-%s' % (shape, variant)] = (lambda shape=shape, variant=variant: mk(shape, variant))
    return out


# ---------------------------------------------------------------- pass-level validation
def check_after(O, irimport, m):
    """(problem | None, canonical structure | None) for the current state of the module"""
    bk = O.bookkeeping(m)
    if bk:
        return 'bookkeeping:' + bk[0][0], bk[0][1], None
    try:
        c = irimport.module_to_py(m, True)
    except irimport.NotRepresentable as ex:
        return 'illformed:not-representable', str(ex)[:160], None
    w = O.pywf(c)
    v = O.real_verify(m)
    if w is not None:
        return 'illformed:' + w.split(':')[1], '%s (verify_module: %s)' % (w, v), c
    if v != 'ok':
        return 'verifier-rejects:' + v, 'IRWf accepts, verify_module raises', c
    return None, None, c


def run_one(ctx, O, irimport, build, names, origin, coq_cases, stats):
    """run the passes one by one on a fresh module, check after each; returns True if clean"""
    m = build()
    pre, _, c0 = check_after(O, irimport, m)
    if pre:
        stats['skipped-input-not-wf'] = stats.get('skipped-input-not-wf', 0) + 1
        return True
    prev = c0
    for k, n in enumerate(names):
        r = O.run_pass(m, [n])
        if r:
            what = 'crash:' + type(r[1]).__name__
            detail = repr(r[1])[:120]
            c = None
        else:
            what, detail, c = check_after(O, irimport, m)
        stats['pass-runs'] = stats.get('pass-runs', 0) + 1
        if c is not None:
            if c != prev:
                stats['changed'] = stats.get('changed', 0) + 1
                key = repr(c)
                if key not in coq_cases:
                    coq_cases[key] = (c, O.pywf(c) is None)
            prev = c
        if what:
            stats[n + ' ' + what] = stats.get(n + ' ' + what, 0) + 1
            ctx.violation({'fn': n, 'what': what, 'key': '%s %s' % (n, what), 'args': [origin, names[:k + 1]],
                           'detail': detail, 'expected': 'pass returns normally with a well-formed module and '
                           'consistent bookkeeping', 'actual': '%s: %s' % (what, detail),
                           'how_to_replay': './check C03 --replay <this file>'})
            return False
    return True


def pass_level(ctx, O, irimport, irgen, ir):
    n_mod = 80 if ctx.quick() else 1500
    if ctx.failed_stages:
        n_mod *= 2
    stats, coq_cases = {}, {}
    names = list(O.PASSES)
    api = O.pipeline_of_api()
    ctx.cov['stages']['api_optimize_pipeline'] = api
    clean = 0
    total = 0
    for wname, (builder, ps) in witness_modules(ir).items():
        total += 1
        clean += run_one(ctx, O, irimport, builder, ps, 'witness:' + wname, coq_cases, stats)
    # deterministic constant-jump shapes: every pass of ppci.opt (incl. those outside the default pipeline),
    # and CJumpPass followed by the clean-up passes
    ctx.cov['stages']['passes'] = {'run': names, 'discovered_beyond_table': O.DISCOVERED}
    for cname, builder in cjump_shapes(ir).items():
        for seq in [[p] for p in names] + [['CJumpPass', 'CleanPass'], ['CJumpPass', 'DeleteUnused', 'CleanPass', 'CJumpPass']]:
            total += 1
            clean += run_one(ctx, O, irimport, builder, seq, 'cjump:' + cname, coq_cases, stats)
    base = ctx.rng.randrange(1 << 30)
    for k in range(n_mod):
        seed = base + k
        size = 2 + k % 3

        def build(seed=seed, size=size):
            return irgen.gen_module(random.Random(seed), size)
        for p in names:
            total += 1
            clean += run_one(ctx, O, irimport, build, [p], 'irgen:%d:%d' % (seed, size), coq_cases, stats)
        rr = random.Random(seed ^ 0x5a5a)
        seq = [rr.choice(names) for _ in range(rr.randint(2, 8))]
        total += 1
        clean += run_one(ctx, O, irimport, build, seq, 'irgen:%d:%d' % (seed, size), coq_cases, stats)
        if k % 10 == 0:
            total += 1
            clean += run_one(ctx, O, irimport, build, O.PIPELINE * 3, 'irgen:%d:%d' % (seed, size), coq_cases, stats)
    # ---- module sources of build-C02 (imported, not edited): C idioms through ppci's own front-end
    # (shapes that only mem2reg + C lowering produce: two empty arms, unions / same-width puns, aliasing
    # pointers) and the 'alias' / 'pun' ... segment kinds of c02_gen
    import c02_csrc
    import c02_gen
    others = [p for p in names if p != 'Mem2Reg']
    csources = [('csrc:%s:%s' % (nm, a), src, a) for nm, src in c02_csrc.CORPUS for a in sorted(c02_csrc.ARCHS)]
    n_genc = 3 if ctx.quick() else 60
    for k in range(n_genc):
        for a in sorted(c02_csrc.ARCHS):
            csources.append(('genc:%d:%s' % (base + k, a), c02_csrc.gen_c(random.Random(base + k)), a))
    for origin, src, a in csources:
        def build(src=src, a=a):
            return c02_csrc.compile_c(src, a)
        rr = random.Random(zlib.crc32(origin.encode()) ^ base)
        seqs = [O.PIPELINE * 3] + [['Mem2Reg', p] for p in others]
        seqs.append((['Mem2Reg'] if rr.random() < 0.7 else []) + [rr.choice(names) for _ in range(rr.randint(2, 7))])
        for seq in seqs:
            total += 1
            clean += run_one(ctx, O, irimport, build, seq, origin, coq_cases, stats)
    n_c02 = 30 if ctx.quick() else 500
    for k in range(n_c02):
        seed = base + k
        size = 2 + k % 3

        def build(seed=seed, size=size):
            return c02_gen.gen(random.Random(seed), size, c02_gen.FEATS_QUICK)
        rr = random.Random(seed ^ 0x3c3c)
        seqs = [[p] for p in names] + [[rr.choice(names) for _ in range(rr.randint(2, 8))]]
        if k % 4 == 0:
            seqs.append(O.PIPELINE * 3)
        for seq in seqs:
            total += 1
            clean += run_one(ctx, O, irimport, build, seq, 'c02gen:%d:%d' % (seed, size), coq_cases, stats)
    ctx.cov['stages']['pass_level'] = dict(stats, runs=total, clean=clean, modules=n_mod,
                                           c_modules=len(csources), c02gen_modules=n_c02)
    ctx.cov['distinct_nontrivial'] += stats.get('changed', 0)
    ctx.log('pass level: %d runs, %d clean, %d changed outputs, %d distinct outputs for coqc'
            % (total, clean, stats.get('changed', 0), len(coq_cases)))
    # the verified checker on the imported outputs (expected value = verdict of the Python port)
    items = list(coq_cases.values())
    if ctx.quick():
        items = items[:600]
    cases = [('wf_modul_b (%s)' % irimport.py_to_coq(c), ok) for c, ok in items]
    bad = ctx.run_cases('wf', ['Spec.IRSyntax', 'Model.IRWfCheck'], cases, shard=120)
    if bad:
        ctx.failed_stages.append(('wf_port', '%d pass outputs: Coq checker and Python port disagree' % len(bad)))
        ctx.violation({'fn': 'wf_modul_b', 'what': 'Coq checker disagrees with the search oracle',
                       'args': [repr(items[bad[0]][0])[:2000]], 'expected': items[bad[0]][1]})
    ctx.cov['stages']['wf_in_coq'] = {'modules': len(cases), 'expected_true': sum(1 for _, ok in items if ok)}


# ---------------------------------------------------------------- tie H: mutators
def store_level(ctx, O):
    fx = O.probe_fixes()
    ctx.cov['stages']['ir_py_configuration'] = fx
    for k in FXKEYS:
        if not fx[k] and k not in FX_KNOWN:
            ctx.violation({'fn': 'ir.' + k[3:], 'what': 'bookkeeping defect of ppci/ir.py present', 'key': k,
                           'args': [k], 'expected': 'mutator keeps stored uses/used_by/references equal to the derived sets',
                           'actual': 'KeyError or stale sets (see Props/C03.v c03_*_refuted)',
                           'how_to_replay': 'fixes/%s.diff repairs it; tools/props/c03_oracle.py probe_fixes()' % FXDIFF[k]})
    fxt = 'mk_fixes ' + ' '.join('true' if fx[k] else 'false' for k in FXKEYS)
    n = 300 if ctx.quick() else 3000
    cases, meta, dist = [], [], {}
    for _ in range(n):
        specs, op = O.gen_scenario(ctx.rng)
        r = O.run_real_scenario(specs, op)
        s, o = O.scenario_to_coq(specs, op)
        allv = O.VALS + [i for i, _ in specs]
        term = 'run_scenario (%s) %s %s %s%%nat %s%%nat' % (fxt, s, o, O._cn(allv), O._cn(O.BLKS))
        if r == 'internal':
            exp, kind = Internal, 'internal'
        else:
            cons = not O.bookkeeping(r[1])
            exp, kind = OkV(r[0] + (cons,)), 'ok' if cons else 'inconsistent'
        dist[op[0] + ':' + kind] = dist.get(op[0] + ':' + kind, 0) + 1
        cases.append((term, exp))
        meta.append((specs, op))
    ctx.cov['stages']['mutator_scenarios'] = dist
    ctx.cov['distinct_nontrivial'] += len(set(repr(x) for x in meta))
    bad = ctx.run_cases('store', ['Model.IRStore'], cases, shard=150)
    if bad:
        ctx.failed_stages.append(('correspondence_store', '%d scenarios disagree, first %r' % (len(bad), meta[bad[0]])))
        ctx.violation({'fn': 'Model.IRStore', 'what': 'model/implementation disagree', 'args': [repr(meta[bad[0]])]})
    # known findings that stay (re-executed on every run)
    r = O.run_real_scenario([(10, ('plain', [('a', 0), ('b', 0)]))], ('set_var', 10, 'a', 1))
    if r != 'internal' and O.bookkeeping(r[1]):
        ctx.violation({'fn': 'ir.value_use.setter', 'what': 'x = v+v; x.a = w drops v from uses although x.b holds it',
                       'args': ['Binop(v,+,v).a = w']})
    r = O.run_real_scenario([(10, ('jump', [], [('target', 1)]))], ('remove_from_block', 10))
    if r != 'internal' and O.bookkeeping(r[1]):
        ctx.violation({'fn': 'ir.Instruction.remove_from_block', 'what': 'a jump removed with remove_from_block stays in '
                       'Block.references of its target', 'args': ['Jump(b).remove_from_block()']})


# ---------------------------------------------------------------- tie H: verifier
def verifier_level(ctx, O, irimport, irgen):
    n = 20 if ctx.quick() else 150
    cases, meta, dist = [], [], {}
    gaps = {}
    vx = O.probe_vfixes()
    ctx.cov['stages']['verifier_configuration'] = vx
    vxt = 'mk_vfixes ' + ' '.join('true' if vx[k] else 'false' for k in O.VXKEYS)
    base = ctx.rng.randrange(1 << 30)
    for k in range(n):
        for kind in (None,) + O.BREAKS:
            m = irgen.gen_module(random.Random(base + k), 2)
            if kind and not O.mutate_break(ctx.rng, m, kind):
                continue
            try:
                c = irimport.module_to_py(m, True)
            except irimport.NotRepresentable:
                continue
            v = O.real_verify(m)
            w = O.pywf(c)
            key = '%s:%s:%s' % (kind, v, 'wf' if w is None else w.split(':')[1])
            dist[key] = dist.get(key, 0) + 1
            if v == 'ok' and w is not None:
                gaps.setdefault((kind, w.split(':')[1]), (base + k, w))
            if w is None and v != 'ok' and kind is None:
                ctx.violation({'fn': 'verify_module', 'what': 'rejects well-formed IR (%s)' % v,
                               'args': ['irgen:%d:2' % (base + k)], 'expected': 'accepted', 'actual': 'raises'})
            term = '(verify_module_x (%s) (%s) %s, wf_modul_b (%s))' % (
                vxt, irimport.py_to_coq(c), O.vstates_to_coq(O.vstates(m)), irimport.py_to_coq(c))
            exp = (OkV(None) if v == 'ok' else Diag if v == 'diag' else Internal, w is None)
            cases.append((term, exp))
            meta.append((base + k, kind, v, w))
    # well-formed but unusual shapes (critical edge, phi with identical inputs, values used only in phis,
    # a block jumping to itself): completeness probe of the REAL verifier, also part of the correspondence
    def unusual():
        from ppci import ir
        m = ir.Module('unusual')
        f = ir.Function('f', ir.Binding.GLOBAL, ir.i32)
        m.add_function(f)
        x = ir.Parameter('x', ir.i32)
        f.add_parameter(x)
        e, a, j, s_, d = [f.add_block(ir.Block(n)) for n in ('entry', 'a', 'j', 's', 'd')]
        f.entry = e
        c0 = ir.Const(0, 'c0', ir.i32)
        c1 = ir.Const(1, 'c1', ir.i32)
        v = ir.Binop(x, '+', c1, 'v', ir.i32)           # used by a phi only
        for i in (c0, c1, v):
            e.add_instruction(i)
        e.add_instruction(ir.CJump(x, '==', c0, a, j))   # entry -> j is a critical edge
        a.add_instruction(ir.Jump(j))
        p = ir.Phi('p', ir.i32)
        q = ir.Phi('q', ir.i32)
        j.add_instruction(p)
        j.add_instruction(q)
        p.set_incoming(e, c1)
        p.set_incoming(a, c1)                            # identical inputs
        q.set_incoming(e, v)
        q.set_incoming(a, c0)
        j.add_instruction(ir.Jump(s_))
        k = ir.Phi('k', ir.i32)
        s_.add_instruction(k)
        k2 = ir.Binop(k, '-', c1, 'k2', ir.i32)
        s_.add_instruction(k2)
        s_.add_instruction(ir.CJump(k2, '!=', c0, s_, d))  # block jumping to itself
        k.set_incoming(j, p)
        k.set_incoming(s_, k2)
        d.add_instruction(ir.Return(q))
        return m
    extra = [('unusual', unusual())]
    for k in range(6 if ctx.quick() else 40):
        extra.append(('irgen-loops', irgen.gen_module(random.Random(base + 1000 + k), 3,
                                                      ('diamond', 'loop', 'selfloop', 'dupedge'))))
    for kind, m in extra:
        cw = irimport.module_to_py(m, True)
        v, w = O.real_verify(m), O.pywf(cw)
        dist['%s:%s:%s' % (kind, v, 'wf' if w is None else w)] = dist.get('%s:%s:%s' % (kind, v, 'wf' if w is None else w), 0) + 1
        cases.append(('(verify_module_x (%s) (%s) %s, wf_modul_b (%s))' % (
            vxt, irimport.py_to_coq(cw), O.vstates_to_coq(O.vstates(m)), irimport.py_to_coq(cw)),
            (OkV(None) if v == 'ok' else Diag if v == 'diag' else Internal, w is None)))
        meta.append((kind, None, v, w))
        if w is None and v != 'ok' and not O.bookkeeping(m):
            ctx.violation({'fn': 'verify_module', 'what': 'rejects well-formed IR (%s)' % v, 'args': [kind],
                           'expected': 'accepted: IRWf.wf_modul_b holds and the bookkeeping is consistent',
                           'actual': 'verify_module raises'})
    # hand-made gap witnesses (Proofs/C03_verify.v w1..w4), always part of the correspondence
    GAPNAME = {'vx_phi_exact': 'extra_phi_input', 'vx_unop': 'unop_type', 'vx_uses': 'stale_uses',
               'vx_phi_all': 'phi_repeated_value'}
    for k, m in O.gap_witnesses().items():
        cw = irimport.module_to_py(m, True)
        v, w = O.real_verify(m), O.pywf(cw)
        dist['witness %s:%s:%s' % (k, v, w)] = 1
        cases.append(('(verify_module_x (%s) (%s) %s, wf_modul_b (%s))' % (
            vxt, irimport.py_to_coq(cw), O.vstates_to_coq(O.vstates(m)), irimport.py_to_coq(cw)),
            (OkV(None) if v == 'ok' else Diag if v == 'diag' else Internal, w is None)))
        meta.append(('witness', k, v, w))
        if v == 'ok' and w is not None:
            gaps.setdefault((GAPNAME[k], w.split(':')[1]), ('witness ' + k, w))
    ctx.cov['stages']['verifier_cases'] = dist
    bad = ctx.run_cases('verify', ['Spec.IRSyntax', 'Model.IRWfCheck', 'Model.Verify'], cases, shard=60)
    if bad:
        ctx.failed_stages.append(('correspondence_verify', '%d cases disagree, first %r' % (len(bad), meta[bad[0]])))
        ctx.violation({'fn': 'Model.Verify', 'what': 'model/implementation disagree', 'args': [repr(meta[bad[0]])]})
    # accepted-yet-ill-formed: findings about the verifier (documented clauses only)
    for (kind, clause), (seed, w) in sorted(gaps.items()):
        ctx.violation({'fn': 'verify_module', 'what': 'accepts ill-formed IR: ' + clause, 'break': kind,
                       'args': [seed, kind], 'expected': 'rejected (%s)' % w, 'actual': 'accepted'})


def run(ctx):
    logging.disable(logging.CRITICAL)
    from vlib import ensure_repo_on_path
    ensure_repo_on_path()
    import irimport
    import irgen
    from ppci import ir
    from props import c03_oracle as O
    sys.path.insert(0, os.path.dirname(os.path.abspath(__file__)))      # c02_csrc / c02_gen are top-level modules
    ok, _ = ctx.build(COQ_PROOFS + ['Model/IRWfCheck.vo', 'Model/Verify.vo', 'Model/IRStore.vo'])
    if ok:
        ctx.check_props('Props/C03.v')
    store_level(ctx, O)
    verifier_level(ctx, O, irimport, irgen)
    pass_level(ctx, O, irimport, irgen, ir)
    ctx.cov['exhaustive'] = False


def search(ctx):
    return None


def replay(rec):
    logging.disable(logging.CRITICAL)
    from vlib import ensure_repo_on_path
    ensure_repo_on_path()
    import irimport
    import irgen
    from ppci import ir
    from props import c03_oracle as O
    origin, names = rec['args'][0], rec['args'][1]
    if not isinstance(origin, str):
        print('not a pass-level record:', json.dumps(rec)[:300])
        return 0
    sys.path.insert(0, os.path.dirname(os.path.abspath(__file__)))
    if origin.startswith('witness:'):
        m = witness_modules(ir)[origin.split(':', 1)[1]][0]()
    elif origin.startswith('cjump:'):
        m = cjump_shapes(ir)[origin.split(':', 1)[1]]()
    elif origin.startswith('csrc:'):
        import c02_csrc
        _, nm, a = origin.split(':')
        m = c02_csrc.compile_c(dict(c02_csrc.CORPUS)[nm], a)
    elif origin.startswith('genc:'):
        import c02_csrc
        _, seed, a = origin.split(':')
        m = c02_csrc.compile_c(c02_csrc.gen_c(random.Random(int(seed))), a)
    elif origin.startswith('c02gen:'):
        import c02_gen
        _, seed, size = origin.split(':')
        m = c02_gen.gen(random.Random(int(seed)), int(size), c02_gen.FEATS_QUICK)
    else:
        _, seed, size = origin.split(':')
        m = irgen.gen_module(random.Random(int(seed)), int(size))
    from ppci.irutils import print_module
    print_module(m)
    for n in names:
        r = O.run_pass(m, [n])
        print('after', n, ':', 'crash %r' % (r[1],) if r else check_after(O, irimport, m)[:2])
        if r:
            return 1
    print_module(m)
    return 1 if check_after(O, irimport, m)[0] else 0
