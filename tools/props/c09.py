"""C09 — assembling an instruction's printed form reproduces its encoding (DESIGN §4 C09).  PARTIAL.

tie I: tools/props/c09_export.py reads, for every ISA, the Syntax declarations of all instruction classes
(printed side) and the productions the REAL assembler object holds after gen_asm_parser (grammar side),
flattens composite operands and writes coq/Gen/Tab_syntax_<arch>.v.  tie H: Model/AsmSyntax.v (token
level render / per-production recogniser / unification check).  Theorems: Props/C09.v.
Correspondence: (a) real lexer on str(instruction) == model render, (b) model recogniser over the whole
table == its Python mirror, and the class/operands the real assembler produces are among the model's
matches.  The real property (search): str(ins) assembled by the real assembler gives the section bytes and
relocations of emitting ins directly, for sampled (quick) / all (thorough) class variants of all ISAs.
"""
import json
import os
from vlib import coq_str, coq_z

LEVEL = 'other'
RULE = ('cases: class variants (composite operands flattened) of every ISA x N operand tuples (quick: 40 seeded-random '
        'variants per ISA plus every variant that occurs in an ambiguous pair or is not well-formed, N=4; thorough: all '
        'variants, N=20); registers first/last/random of the class, immediates from a boundary pool (0, +-1, powers of two '
        '+-1 up to 2^32, negative values) and random, kept only when encode() accepts them; labels from a pool of '
        'non-keyword identifiers; non-trivial = distinct (variant, operand tuple) with at least one operand whose direct '
        'encoding succeeded')
EXPLANATION = ('PARTIAL. Proved (Coq, unbounded in the operands): for every exported class variant whose syntax is '
               'well-formed, the production the assembler built for it recognises the token sequence of its printed form and '
               'recovers the operands; the exported list of production pairs that can recognise a common token sequence is '
               'exact (sound unification check), so for a variant outside that list every production of the grammar that '
               'recognises its printed form is its own (hence same class, same operands, same bytes under the C08 encoder '
               'model). Text level (Props/C09_text.v, Model/AsmLexer.v): a hand model of AsmLexer (token classes REAL, BINNUMBER, '
               'HEXNUMBER, NUMBER, ID, SKIP, GLYPH, STRING, COMMENT with make_num) and of Syntax.render/str(int); proved: the model '
               'lexer splits the printed text of every well-formed syntax into exactly the rendered tokens (integers of any size '
               'and sign, every register name, identifier labels), parse_number (print_number z) = z for all z (decimal is the only '
               'format any ISA prints: render_text == str(ins) is cross-checked on every sampled instance), and per ISA: lexing '
               'str(ins) of a non-ambiguous variant and trying every production yields exactly (variant, operands). Relocations: '
               'model-level corollary (same class and operands => same exported relocation rows) plus reflected well-formedness '
               'of the exported (class, relocation type, offset, addend, label operand) rows. NOT proved, validated by correspondence '
               'only: that the model lexer equals the real regular-expression lexer (printed forms + near-miss pool + random '
               'strings per run; REAL and STRING tokens and non-ASCII digits are outside the model), the Earley parser and its '
               'priority/tie-breaking among ambiguous productions, directives, that relocations() is the exported function of '
               '(class, operands), register-set operands (arm/thumb push/pop) and multi-token register names (avr r25:r24 pairs).')
TRUSTED = ['tools/props/c09_export.py (reads Syntax.syntax and the productions/closures of arch.assembler.parser.g; the Coq check '
           'wf_entry re-derives the production from the syntax and compares)',
           'Model/AsmSyntax.v is a faithful token-level reading of Syntax.render, AsmLexer.handle_id and generate_syntax_rule '
           '(cross-checked on every run against the real lexer and the real assembler)',
           'Model/AsmLexer.v is a faithful reading of AsmLexer.tok_spec (ordered alternation, greedy classes), make_num and '
           'Syntax.render; Coq DecimalString/DecimalZ printing equals Python str(int) (both cross-checked per run: real lexer vs '
           'model on printed forms, a near-miss pool and random strings; print_number vs str on boundary integers up to 2^70)',
           'the Earley parser returns a parse whenever one production matches the whole line (C32 covers the LR parser only)',
           'tools/props/c09_replay.py Python mirror of render/matches (cross-checked against the Coq functions on every run)']
ASSUMPTIONS = ['labels are identifiers that are not keywords of the assembler in any letter case (keyword labels: refuted, see '
               'c09_keyword_label_refuted)',
               'among ambiguous productions of equal priority the Earley parser picks by set iteration order, i.e. by the per-process '
               'string hash seed (the driver fixes PYTHONHASHSEED for child processes only): which member of a pair of '
               'ambiguous_<arch> fails therefore varies from run to run. Known findings are generated seed-independently by '
               'tools/props/c09_known.py (a partner production of equal or better priority recognises the printed text and its '
               'instance encodes differently / raises) and only excuse a failure when the real assembler really built that partner '
               '(rec reason = ambiguous-pair, partner taken from the proved table)',
               'operand tuples are those accepted by encode(); out-of-range operands are C10']

QUICK_PER_ISA = 40


def cop(m):
    if m[0] == 'r':
        return 'VReg %d%%nat' % m[1]
    if m[0] == 'i':
        return 'VImm %s' % coq_z(m[1])
    return 'VLabel %s' % coq_str(m[1])


def ctok(t):
    if t[0] == 'w':
        return 'TWord %s' % coq_str(t[1])
    if t[0] == 'n':
        return 'TNum %s' % coq_z(t[1])
    return 'TGlyph %s' % coq_str(t[1])


# ------------------------------------------------------------------ regen
def empty_text(nm):
    return ('From PV Require Import Lib.Py Model.AsmSyntax.\nFrom Coq Require Import String.\n'
            'Definition regs_%s : list regclass := [].\nDefinition kws_%s : list string := [].\n'
            'Definition kwlabel_lower_%s : bool := true.\nDefinition stab_%s : list sentry := [].\n'
            'Definition extra_%s : list sentry := [].\nDefinition nonwf_%s : list sentry := [].\n'
            'Definition unmodelled_%s : list (string * string) := [].\n'
            'Definition ambiguous_%s : list (nat * nat) := [].\n' % ((nm,) * 8))


def regen(ctx):
    from props import c09_export as X
    B = {}
    for nm, an in X.ARCHS:
        try:
            info = X.ArchInfo(nm, an)
            entries, extra, unm, skipped = info.export()
            text, good, bad, xgood, xbad, amb = X.render_arch(nm, info, entries, extra, unm)
        except Exception as ex:   # noqa: BLE001
            msg = 'ISA %s: export failed: %s: %s' % (nm, type(ex).__name__, str(ex)[:200])
            ctx.log(msg)
            ctx.failed_stages.append(('export', msg))
            ctx.write_gen('Tab_syntax_' + nm, empty_text(nm))
            continue
        ctx.write_gen('Tab_syntax_' + nm, text)
        B[nm] = dict(info=info, entries=entries, good=good, bad=bad, xgood=xgood, xbad=xbad, amb=amb, unm=unm,
                     skipped=skipped, kws=set(info.kws), ambset=set(amb))
    return B


# ------------------------------------------------------------------ selection and replay
def select(ctx, b):
    """entries to instantiate: (entry, index in stab or None)"""
    good, bad = b['good'], b['bad']
    if not ctx.quick():
        return [(e, k) for k, e in enumerate(good)] + [(e, None) for e in bad]
    idx = set(ctx.rng.sample(range(len(good)), min(QUICK_PER_ISA, len(good))))
    for (i, j) in b['amb']:
        for k in (i, j):
            if k < len(good):
                idx.add(k)
    return [(good[k], k) for k in sorted(idx)] + [(e, None) for e in bad]


def find_entry(b, ins):
    """index in stab (good) / ('bad', n) of the class variant of a real instance, with its model operands"""
    from props import c09_replay as R
    cls = type(ins)
    if getattr(cls, 'syntax', None) is None:
        return None, None
    try:
        ub = R.unbuild(b['info'], cls, ins)
    except Exception:   # noqa: BLE001
        ub = None
    if ub is None:
        return None, None
    variant = '/'.join(ub[0])
    for k, e in enumerate(b['good']):
        if e['pycls'] is cls and e['variant'] == variant:
            return k, ub[1]
    return None, ub[1]


def replay(ctx, nm, b, e, ins, mops, k=None):
    """the real property on one instance; returns (kind, rec or None, emitted instructions, text)"""
    from props import c09_replay as R
    info = b['info']
    text = str(ins)
    exp = R.direct_view(info.arch, ins)
    emitted = []
    try:
        got = R.asm_view(info.arch, text, collect=emitted)
        kind = 'ok' if got == exp else 'differs'
        detail = 'bytes' if got[0] != exp[0] else 'relocations'
        actual = dict(sections=[(n, d.hex()) for n, d in got[0]], relocations=[list(r) for r in got[1]])
    except R.Rejected as ex:
        kind, actual, detail = 'rejected', str(ex), 'rejected'
    except RecursionError:
        kind, actual, detail = 'crash', 'RecursionError', 'crash'
    except Exception as ex:   # noqa: BLE001
        kind, actual, detail = 'crash', '%s: %s' % (type(ex).__name__, str(ex)[:100]), 'crash'
    if kind == 'ok':
        return kind, None, emitted, text
    pins = [x for x in emitted if getattr(type(x), 'syntax', None) is not None]
    picked = [type(x).__name__ for x in pins]
    # reason 'ambiguous-pair': the assembler built exactly one instruction, of a class variant j such that (k, j) is in
    # the proved-exact table ambiguous_<arch>; every other failure is 'other' and is never excused by a known finding
    reason, partner = 'other', None
    if k is not None and kind in ('differs', 'crash') and len(pins) == 1:
        j, _ops = find_entry(b, pins[0])
        if j is not None and j != k and (min(j, k), max(j, k)) in b['ambset']:
            reason, partner = 'ambiguous-pair', '%s/%s' % (b['good'][j]['cls'], b['good'][j]['variant'])
    rec = {'fn': 'asm_roundtrip', 'isa': nm, 'class': e['cls'], 'kind': kind, 'detail': detail, 'variant': e['variant'],
           'reason': reason, 'ambiguous_partner_picked': partner,
           'key': 'asm_roundtrip:%s:%s:%s:%s' % (nm, e['cls'], kind, reason),
           'args': [list(m) for m in mops], 'text': text, 'picked': picked,
           'expected': dict(sections=[(n, d.hex()) for n, d in exp[0]], relocations=[list(r) for r in exp[1]]),
           'actual': actual,
           'what': 'assembling the printed form %r of %s %s gives %s' % (
               text, nm, e['cls'], {'bytes': 'other bytes', 'relocations': 'other relocations', 'rejected': 'a rejection',
                                    'crash': 'an internal error'}[detail]),
           'how_to_replay': 'PYTHONPATH=/repo python -c "import io; from ppci.api import asm; '
                            'o = asm(io.StringIO(%r), %r); print(o.get_section(\'code\').data.hex(), o.relocations)"'
                            % (text, dict(__import__('props.c09_export', fromlist=['ARCHS']).ARCHS)[nm])}
    return kind, rec, emitted, text


def keyword_label_probe(ctx, nm, b):
    """witness of c09_keyword_label_refuted on the real assembler: a label spelling a keyword in upper case"""
    from props import c09_replay as R
    info = b['info']
    for e in b['good']:
        if [a[0] for a in e['rule']] != ['lit', 'lab']:
            continue
        kw = next((k for k in sorted(b['kws']) if k.isalpha() and len(k) > 1), None)
        if kw is None:
            return 0
        label = kw.upper()
        try:
            ins = e['build']([label])
            exp = R.direct_view(info.arch, ins)
        except Exception:   # noqa: BLE001
            continue
        if not exp[1]:
            continue
        try:
            got = R.asm_view(info.arch, str(ins))
        except Exception as ex:   # noqa: BLE001
            got = ('exception', str(ex)[:80])
        if got != exp:
            ctx.violation({'fn': 'asm_roundtrip', 'isa': nm, 'class': e['cls'], 'kind': 'keyword-label', 'args': [label],
                           'key': 'asm_roundtrip:keyword-label',
                           'text': str(ins), 'expected': [list(r) for r in exp[1]],
                           'actual': [list(r) for r in got[1]] if isinstance(got[1], list) else str(got),
                           'what': 'label operand %r (a keyword in another letter case) is assembled as symbol %r' % (label, kw)})
        return 1
    return 0


# ------------------------------------------------------------------ run
def run(ctx):
    B = regen(ctx)
    st = ctx.cov['stages']
    st['isa'] = {nm: dict(classes_with_syntax=len({id(e['pycls']) for e in b['entries']}),
                          classes_without_syntax=len(b['skipped']),
                          variants=len(b['entries']), wellformed_variants=len(b['good']),
                          nonwf=sorted({e['cls'] for e in b['bad']}), extra_productions=len(b['xgood']) + len(b['xbad']),
                          unmodelled=[c for c, _ in b['unm']], ambiguous_pairs=len(b['amb']),
                          variants_in_ambiguous_pairs=len({k for p in b['amb'] for k in p}),
                          keyword_label_lowercased=b['info'].kwlabel_lower) for nm, b in B.items()}
    for nm, b in B.items():
        st['isa'][nm]['label_form_variants_with_relocation_row'] = len(getattr(b['info'], 'reloc_rows', []))
    from props import c09_export as X
    gen = ['Gen/Tab_syntax_%s.vo' % nm for nm, _an in X.ARCHS]
    ok, _ = ctx.build(gen + ['Proofs/C09_tables.vo', 'Proofs/C09_lexer.vo', 'Proofs/C09_reloc.vo',
                             'Proofs/C09_text_tables.vo'])
    if ok:
        ctx.check_props('Props/C09.v')
        ctx.check_props('Props/C09_text.v')
    work(ctx, B, correspondence=True)
    ctx.cov['exhaustive'] = False


def search(ctx):
    B = regen(ctx)
    work(ctx, B, correspondence=False)


def work(ctx, B, correspondence):
    from props import c09_replay as R
    st = ctx.cov['stages']
    deep = (not ctx.quick()) or bool(ctx.failed_stages)
    n_per = 20 if not ctx.quick() else 4
    corr_cap = 30 if ctx.quick() else 500      # model/lexer/recogniser cases per ISA (every instance is replayed)
    rcases, rrecs = [], []      # render vs lexer
    mcases, mrecs = [], []      # matching_from vs mirror
    tcases, lcases, trecs = [], [], []      # render_text vs str(ins); model lexer vs real lexer
    qcases, qrecs = [], []      # relocs_of vs Instruction.relocations()
    reloc_idx = {nm: {i for i, _ in getattr(b['info'], 'reloc_rows', [])} for nm, b in B.items()}
    dist = {}
    n_eval = 0
    for nm, b in B.items():
        info = b['info']
        allr = b['good'] + b['xgood']
        d = dist.setdefault(nm, {'variants': 0, 'instances': 0, 'ok': 0, 'differs': 0, 'rejected': 0,
                                 'crash': 0, 'no_instance': 0, 'parser_vs_model_disagree': 0})
        chosen = select(ctx, b) if not (deep and ctx.quick()) else \
            [(e, k) for k, e in enumerate(b['good'])] + [(e, None) for e in b['bad']]
        for e, k in chosen:
            try:
                insts = R.sample_instances(ctx.rng, info, e, n_per, b['kws'])
            except Exception:   # noqa: BLE001
                insts = None
            if not insts:
                d['no_instance'] += 1
                continue
            d['variants'] += 1
            for ins, vals, mops in insts:
                d['instances'] += 1
                n_eval += 1
                if k is not None:
                    # operand values as the instance holds (and prints) them: constructors may normalise arguments
                    try:
                        ub = R.unbuild(info, e['pycls'], ins)
                    except Exception:   # noqa: BLE001
                        ub = None
                    if ub is not None and '/'.join(ub[0]) == e['variant']:
                        mops = ub[1]
                try:
                    kind, rec, emitted, text = replay(ctx, nm, b, e, ins, mops, k)
                except Exception as ex:   # noqa: BLE001   (emitting the instance directly failed: not a C09 case)
                    d['instances'] -= 1
                    continue
                d[kind] += 1
                if rec is not None:
                    ctx.violation(rec)
                if mops:
                    ctx.cov['distinct_nontrivial'] += 1
                if not correspondence or k is None or any(m[0] not in 'ril' for m in mops):
                    continue
                if d.get('corr', 0) >= corr_cap or (ctx.quick() and len(chosen) > 60 and ctx.rng.random() > 0.3):
                    continue
                d['corr'] = d.get('corr', 0) + 1
                # (a) real lexer vs model render
                lx = R.lex_view(info, text)
                rcases.append(('render regs_%s (s_syn (entry_at stab_%s %d)) [%s]' % (nm, nm, k, '; '.join(cop(m) for m in mops)), lx))
                rrecs.append((nm, e, mops, text))
                # (a') text level: Syntax.render vs render_text, real lexer vs model lexer on the printed text
                opsl = '; '.join(cop(m) for m in mops)
                if all(32 <= ord(ch) < 127 for ch in text):
                    tcases.append(('render_text regs_%s (s_syn (entry_at stab_%s %d)) [%s]' % (nm, nm, k, opsl), text))
                    lcases.append(('lex %s' % coq_str(text), None if lx is None or any(t[0] == '?' for t in lx) else lx))
                    trecs.append((nm, e['cls'], text))
                # (c) relocations: Instruction.relocations() vs the exported rows
                if k in reloc_idx[nm]:
                    try:
                        rl = [(r.name, r.offset, r.addend, r.symbol_name) for r in ins.relocations()]
                    except Exception:   # noqa: BLE001
                        rl = None
                    qcases.append(('relocs_val (relocs_of relocs_%s %d%%nat [%s])' % (nm, k, opsl), rl))
                    qrecs.append((nm, e['cls'], text))
                if lx is None or any(t[0] == '?' for t in lx):
                    continue
                # (b) model recogniser over the whole grammar vs its mirror; real parser result among the matches
                mir = [(j, r) for j, r in ((j, R.py_matches(info, b['kws'], x['rule'], lx)) for j, x in enumerate(allr))
                       if r is not None]
                mcases.append(('matching_from kwlabel_lower_%s kws_%s regs_%s 0 (stab_%s ++ extra_%s) [%s]' % (
                    nm, nm, nm, nm, nm, '; '.join(ctok(t) for t in lx)), [(j, r) for j, r in mir]))
                mrecs.append((nm, e, mops, text))
                ins_emitted = [x for x in emitted if getattr(type(x), 'syntax', None) is not None]
                if kind == 'rejected':
                    agree = not mir
                elif kind == 'crash' or len(ins_emitted) != 1:
                    agree = True      # nothing to compare
                else:
                    j, got_ops = find_entry(b, ins_emitted[0])
                    agree = j is None or any(j == jj and got_ops == rr for jj, rr in mir)
                if not agree:
                    d['parser_vs_model_disagree'] += 1
                    if sum(x['parser_vs_model_disagree'] for x in dist.values()) <= 5:
                        ctx.log('real assembler and model recogniser disagree on', nm, e['cls'], repr(text),
                            'model matches:', [(allr[j]['cls'], r) for j, r in mir][:4])
        n_eval += keyword_label_probe(ctx, nm, b)
    st['replay_distribution'] = dist
    ctx.cov['evaluations'] += n_eval
    tot_dis = sum(d['parser_vs_model_disagree'] for d in dist.values())
    if tot_dis:
        ctx.failed_stages.append(('correspondence', 'the real assembler picked a (class, operands) the model recogniser does not '
                                  'list, or accepted/rejected differently, on %d instances' % tot_dis))
    if not correspondence:
        return
    for r in rrecs[:: max(1, len(rrecs) // 8)]:
        ctx.note_sample({'isa': r[0], 'class': r[1]['cls'], 'variant': r[1]['variant'], 'operands': [list(m) for m in r[2]],
                         'printed': r[3]})
    imports = ['Model.AsmSyntax'] + ['Gen.Tab_syntax_%s' % nm for nm in B]
    if not ctx.build(['Gen/Tab_syntax_%s.vo' % nm for nm in B] + ['Model/AsmSyntax.vo', 'Lib/Val.vo'])[0]:
        return
    st['correspondence_cases'] = {'render_vs_lexer': len(rcases), 'recogniser_vs_mirror': len(mcases)}
    bad = ctx.run_cases('render', imports, rcases, shard=600)
    if bad:
        for i in bad[:5]:
            ctx.log('model render and real lexer disagree on', rrecs[i][0], rrecs[i][1]['cls'], rrecs[i][2], repr(rrecs[i][3]))
        ctx.failed_stages.append(('correspondence', 'Model.AsmSyntax.render and the real lexer disagree on %d printed forms, first: %s %s %r'
                                  % (len(bad), rrecs[bad[0]][0], rrecs[bad[0]][1]['cls'], rrecs[bad[0]][3])))
    bad = ctx.run_cases('matching', imports, mcases, shard=300)
    if bad:
        for i in bad[:5]:
            ctx.log('Coq recogniser and its Python mirror disagree on', mrecs[i][0], mrecs[i][1]['cls'], repr(mrecs[i][3]))
        ctx.failed_stages.append(('correspondence', 'Model.AsmSyntax.matching_from and its Python mirror disagree on %d token lists, '
                                  'first: %s %r' % (len(bad), mrecs[bad[0]][0], mrecs[bad[0]][3])))
    text_correspondence(ctx, B, imports, tcases, lcases, trecs, qcases, qrecs)


NEAR_MISS = ['0x1F', '0X1f', '0x', '0xg', '0x1F.5', '0b', '0b101', '0b2', '0b101x', '00b1', '007', '-0', '+5', '- 5', '--5',
             '1.5', '1.', '.5', '5.x', '12.5.6', '0b1.5', '$ff', '$', '$g', '%101', '%2', '%12', '% 1', '%', 'a%1', 'a.b',
             'lbl.1', '_x9', '9a', '1e5', '123456789012345678901234567890', '-99999999999999999999', '0000', '0x0000000000000001',
             "'str'", "'unterminated", "a 'q' b", 'a ; comment 1.5', ';', ' ', '', 'add x1,x2', 'add  x1 ,  x2', 'x1y', 'R1',
             '@&#=,.:()[]{}+-*%', '!', '~a', 'a!b', 'a"b', 'mov.w #0x10, 4(r5)', 'ldr r1, =lbl', 'x1-1', 'a-b', 'a+-3',
             '4(x2)', '4x', 'x4', '0x1G', '0xabcdefABCDEF', '1_000', '__', '_', 'A_b_9', '[rax+8]', '{r1-r3}', 'r25:r24', 'a:b',
             '<', 'a<b', '\\', 'a|b', '^', '0b0', '0x0', '%0', '$0', '1 2 3', '1,2', '(1)', '-(1)', '#-5', '#+5', '@a']


def text_correspondence(ctx, B, imports, tcases, lcases, trecs, qcases, qrecs):
    """text level (lexer, number printing, render_text) and relocation rows against the implementation"""
    from props import c09_replay as R
    from vlib import boundary_pool
    st = ctx.cov['stages']
    if not B or not ctx.build(['Model/AsmLexer.vo', 'Model/AsmReloc.vo'])[0]:
        return
    info = next(iter(B.values()))['info']
    imps = imports + ['Model.AsmLexer', 'Model.AsmReloc']
    # near-miss pool and random strings over the lexer's alphabet: real AsmLexer vs model lexer
    pool = list(NEAR_MISS)
    alphabet = 'ab_xX01259 .,-+%$#()[]:;\'Z'
    for _ in range(120 if ctx.quick() else 1500):
        pool.append(''.join(ctx.rng.choice(alphabet) for _ in range(ctx.rng.randrange(1, 9))))
    ncases = []
    for s in pool:
        lx = R.lex_view(info, s)
        ncases.append(('lex %s' % coq_str(s), None if lx is None or any(t[0] == '?' for t in lx) else lx))
    # str(int) vs print_number; the $int$ reading of the text
    nums = sorted(set(boundary_pool(70) + [ctx.rng.randrange(-(1 << 64), 1 << 64) for _ in range(30)] + [0, -1, 10, -10, 99, 100]))
    pcases = [('print_number %s' % coq_z(z), str(z)) for z in nums] + \
             [('parse_number %s' % coq_str(str(z)), z) for z in nums[::3]]
    st['text_correspondence_cases'] = {'render_text_vs_str': len(tcases), 'lexer_on_printed_forms': len(lcases),
                                       'lexer_near_miss_and_random': len(ncases), 'print_parse_number': len(pcases),
                                       'relocation_rows': len(qcases)}
    for name, cases, recs, what in (
            ('rtext', tcases, trecs, 'Model.AsmLexer.render_text and str(instruction)'),
            ('lexp', lcases, trecs, 'Model.AsmLexer.lex and the real AsmLexer (printed forms)'),
            ('lexn', ncases, [(None, None, s) for s in pool], 'Model.AsmLexer.lex and the real AsmLexer (near-miss pool)'),
            ('nums', pcases, [(None, None, c[0]) for c in pcases], 'print_number/parse_number and str(int)/int(str)'),
            ('reloc', qcases, qrecs, 'Model.AsmReloc.relocs_of and Instruction.relocations()')):
        if not cases:
            continue
        light = ['Model.AsmSyntax', 'Model.AsmLexer']      # no table needed
        bad = ctx.run_cases(name, light if name in ('lexp', 'lexn', 'nums') else imps, cases, shard=600)
        if bad:
            for i in bad[:5]:
                ctx.log(what, 'disagree on', recs[i][0], recs[i][1], repr(recs[i][2]))
            ctx.failed_stages.append(('correspondence', '%s disagree on %d cases, first: %r' % (what, len(bad), recs[bad[0]][2])))


MANIFEST = {
    'text': 'other (partial): for all 12 instruction sets the Syntax declarations of every instruction class (composite operands '
            'flattened into variants) and the productions the real assembler object holds after gen_asm_parser are exported side by '
            'side. Coq proves, for all register operands, all integers and all non-keyword identifier labels: every well-formed '
            'variant\'s production recognises the token sequence of its printed form and recovers the operands; the exported list '
            'of production pairs able to recognise a common token sequence is exact; hence for every variant outside that list the '
            'only production of the whole grammar (classes and directives) recognising its printed form is its own, giving the same '
            'class, operands and (C08 encoder model) bytes. Variants that are not well-formed (mnemonic glued to the operand, '
            'register sets, multi-token avr register pairs) are listed as data and proved not well-formed. Text level: a Coq model '
            'of the assembler lexer (all token classes of AsmLexer, make_num) and of Syntax.render/str(int) is proved to split '
            'the printed text of every well-formed syntax into the rendered tokens and to read every printed integer back '
            '(c09_lex_render, c09_int_text_roundtrip), so the per-ISA round trip is stated from the TEXT str(ins) '
            '(c09_text_roundtrip_all); relocation rows per label-form class are exported and the relocation list is a proved '
            'function of the recognised (class, operands). The statement about the real assembler - that the model lexer is the '
            'real regular-expression lexer, the Earley parser and its choice among ambiguous productions, relocations() - is '
            'checked by correspondence/replay only: str(ins) is assembled and compared (section bytes + relocations) with emitting '
            'ins directly for sampled operands of the class variants of every ISA, the model lexer is compared with the real one '
            'on printed forms, a near-miss pool and random strings; keyword labels are refuted (c09_keyword_label_refuted).',
    'note': 'trusted: Coq kernel, the exporter (reads closures of the grammar productions), the token-level hand model (validated per '
            'run against the real lexer and the real assembler), fixed PYTHONHASHSEED for tie-breaking among ambiguous productions. '
            'Defects found: 34 arm/thumb/x86_64 classes print the mnemonic glued to the first operand; arm push/pop print no braces; '
            'wrong mnemonics (microblaze idivu/pcmpne/src/srl/wdc/rtid, avr subi, xtensa callx0); keyword labels are lower-cased; '
            'x86_64/msp430/riscv-rvc ambiguous productions assemble the printed form to a different (mostly equivalent) encoding; '
            'x86_64 "jmp rax"/"call rax" read the register as a label; "not [rsp]" crashes the assembler.',
    'technique': 'Coq proof over introspected syntax/grammar tables + reflection + print/assemble replay',
}
