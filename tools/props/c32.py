"""C32 — generated LR parsers accept exactly their grammar's language (DESIGN §4 C32).

Level: translation_validation.  Coq side (Props/C32.v, Props/C32_thorough.v):
  c32_sound              any tables passing the validator [tables_ok] make the parser model sound (unbounded)
  c32_safe               on validated tables the parser never ends in an internal error (unbounded)
  c32_terminates/_total  with a checked termination certificate [term_ok] the fuel (|w|+1)*(bound+1) suffices
  c32_complete_tables    validated tables + checked item-set certificate [complete_cert] => every sentence of
                         the grammar is accepted (per instance, all words; Jourdan-Pottier-Leroy style)
  c32_complete_bounded   builder model (repaired) + parser model complete on an enumerated family (<= 3 productions);
  c32_complete_bounded4  thorough tier: the same for all 111930 grammars with exactly 4 productions
  c32_lookahead_refuted / c32_accept_refuted   lr.py before the repairs violates the property (two witnesses)
This module ties the Coq side to the current /repo:
  * the REAL tables of the real builder (exhaustive/sampled small grammars, the layout grammar, the
    assembler grammars that are LR(1)) are exported to Gen/lr_tables.v; inside coqc the validator is run on
    them and the parser model is compared with the real LrParser on every word of length <= 4 (small
    grammars) / generated and mutated sentences (real grammars);
  * the hand model of the builder is compared with the real builder (tables modulo state renumbering);
  * the model variant (as-is / repaired, per defect) is selected by re-running the two witnesses on the
    implementation; while a witness still fails it is reported (VIOLATION / KNOWN-FINDING);
  * search: real builder + real parser against an independent brute-force derivability oracle.
"""
import itertools
from vlib import OkV, Diag, Internal

LEVEL = 'translation_validation'
RULE = ('small grammars: terminals a,b; nonterminals S (start), A; 1..3 productions with rhs of length <= 2 '
        '(12383 grammars, epsilon productions included); quick tier: all grammars with <= 2 productions in the '
        'oracle search and a seeded sample in coqc, thorough tier: all; every word of length <= 4 over {a,b} is '
        'parsed. real grammars: layout parser grammar and the assembler grammars the LR builder accepts; sentences '
        'are random derivations (depth-bounded) plus single-token mutations. larger random grammars: seeded, 3-5 '
        'nonterminals, 4-8 productions, rhs <= 3 over 2-3 terminals with planted nullable chains, nullable symbols '
        'before terminals and left/right recursion, kept when the real builder reports and resolves no conflict '
        '(150 quick / 1000 thorough): builder model vs real tables, validator, all words <= 4-5 vs brute-force '
        'derivability oracle. distinct non-trivial = (grammar, word) '
        'pairs whose grammar built without error and whose word is non-empty')
EXPLANATION = ('c32_sound / c32_safe are unbounded over grammars, tables and inputs but speak about the parser MODEL on '
               'tables that pass the validator; c32_terminates adds an explicit fuel bound under the certificate check '
               'term_ok (weights/ranks are an untrusted hint computed by a heuristic in this module; about 1% of the small '
               'grammars get no certificate because ranks only see the top state); c32_complete_tables gives completeness '
               'for ALL words per instance under complete_cert, which is run in coqc on the item sets of the real builder '
               '(captured by an observation hook on gen_canonical_set) with independently computed FIRST/nullable hints; it '
               'is stated for the repaired Accept handling and is not expected to hold when a shift/reduce conflict was '
               'resolved or when the start symbol derives itself. The tie to the code is (1) per-run validation of the real '
               'tables/item sets in coqc, (2) correspondence parser model == LrParser.parse on those tables. Bounded '
               'completeness (family and word length in the statement) is about the builder MODEL (checked against the real '
               'builder modulo state renumbering). Not modelled: lexers (BaseLexer/SimpleLexer), the Earley parser, yacc '
               'file generation, semantic action side effects (actions are modelled as tree construction).')
TRUSTED = ['table exporter in tools/props/c32.py (symbol numbering, state renumbering by BFS)',
           'hand models Model/LrValidator.v (parse) and Model/LrBuilder.v (builder), cross-checked per run',
           'semantic actions are pure functions of their arguments (value = tree)',
           'Python dict/set semantics as modelled (unique keys; item/state iteration order does not matter '
           'except for which conflict is reported first)']
ASSUMPTIONS = ['token streams end with EOF tokens for ever and contain no EOF token before the end',
               'c32_terminates / c32_complete_tables hold for the instances whose certificates pass term_ok / complete_cert '
               '(counts in coverage.stages.correspondence_distribution)',
               'bounded completeness: 12383 grammars, words of length <= 4, fuel 80 (proved sufficient)']

EOFN, EPSN = 0, 1
FAM_T = ['a', 'b']
FAM_N = ['S', 'A']
FAM_NUM = {'EOF': 0, 'EPS': 1, 'a': 2, 'b': 3, 'S': 4, 'A': 5}


# ---------------------------------------------------------------- implementation access
def _mods():
    from ppci.lang.tools import lr, grammar, baselex
    from ppci.lang.tools.common import ParserException, ParserGenerationException
    from ppci.lang.common import Token, SourceLocation
    return lr, grammar, baselex, ParserException, ParserGenerationException, Token, SourceLocation


class ListLexer:
    """token types followed by EOF for ever (what BaseLexer.next_token does)"""
    def __init__(self, typs):
        _, _, baselex, _, _, Token, SourceLocation = _mods()
        self.t = list(typs)
        self.Token, self.loc, self.EOF = Token, SourceLocation('c32', 1, 1, 1), baselex.EOF

    def next_token(self):
        if self.t:
            x = self.t.pop(0)
            return self.Token(x, x, self.loc)
        return self.Token(self.EOF, self.EOF, self.loc)


def make_grammar(terms, prods, start, num):
    """ppci Grammar whose action i builds the tree value (i, [children]); tokens -> symbol number"""
    _, grammar, _, _, _, Token, _ = _mods()
    g = grammar.Grammar()
    g.add_terminals(terms)

    def act(i):
        def f(*args):
            return (i, [num[a.typ] if isinstance(a, Token) else a for a in args])
        return f
    for i, (lhs, rhs) in enumerate(prods):
        g.add_production(lhs, list(rhs), act(i))
    g.start_symbol = start
    return g


def real_build(g):
    """run the real builder. returns ('ok', parser, action_table, goto_table, sr_resolved) | ('diag',) | ('internal',)"""
    lr, _, _, _, PGE, _, _ = _mods()
    flag = {'sr': False}

    class B(lr.LrParserBuilder):
        def set_action(self, state, t, action):      # observation hook only
            key = (state, t)
            if key in self.action_table and self.action_table[key] != action:
                a2 = self.action_table[key]
                if {type(a2).__name__, type(action).__name__} == {'Shift', 'Reduce'}:
                    flag['sr'] = True
            return super().set_action(state, t, action)

        def gen_canonical_set(self, iis):           # observation hook only: keep the item sets
            res = super().gen_canonical_set(iis)
            try:
                flag['items'] = {res[2][st]: [(g.productions.index(it.production), it.dotpos, it.look_ahead)
                                              for it in st] for st in res[0]}
            except Exception:   # noqa: BLE001
                flag['items'] = None
            return res
    try:
        b = B(g)
        p = b.generate_parser()
        return ('ok', p, dict(p.action_table), dict(p.goto_table), flag['sr'], flag.get('items'))
    except PGE:
        return ('diag',)
    except Exception:   # noqa: BLE001
        return ('internal',)


class StepBudget(Exception):
    pass


class CountingDict(dict):
    """action table that bounds the number of parser steps (LrParser.parse has no loop bound of its own)"""
    budget = 0

    def __contains__(self, k):
        self.budget -= 1
        if self.budget < 0:
            raise StepBudget()
        return dict.__contains__(self, k)


def real_parse(parser, typs):
    """OkV(value) | Diag (ParserException) | Internal (other exception, or no result within 5000 steps)"""
    _, _, _, PE, _, _, _ = _mods()
    if not isinstance(parser.action_table, CountingDict):
        parser.action_table = CountingDict(parser.action_table)
    parser.action_table.budget = 5000
    try:
        return OkV(parser.parse(ListLexer(typs)))
    except PE:
        return Diag
    except Exception:   # noqa: BLE001
        return Internal


# ---------------------------------------------------------------- export
def renumber(action_table, goto_table, sym_order):
    """state renumbering: BFS from 0, symbols in the model's order (nonterminals ++ terminals)"""
    edges = {}
    for (s, t), a in action_table.items():
        if type(a).__name__ == 'Shift':
            edges[(s, t)] = a.to_state
    for (s, n), t in goto_table.items():
        edges[(s, n)] = t
    ren, queue = {0: 0}, [0]
    while queue:
        s = queue.pop(0)
        for x in sym_order:
            t = edges.get((s, x))
            if t is not None and t not in ren:
                ren[t] = len(ren)
                queue.append(t)
    for (s, _), a in list(action_table.items()) + list(goto_table.items()):   # unreachable states keep distinct numbers
        for q in (s, a if isinstance(a, int) else getattr(a, 'to_state', None)):
            if q is not None and q not in ren:
                ren[q] = len(ren)
    return ren


def coq_nodup(lst):
    """order of Coq's List.nodup (keeps the last occurrence) = Model.LrBuilder.nonterminals"""
    return [x for i, x in enumerate(lst) if x not in lst[i + 1:]]


def coq_tables(action_table, goto_table, num, ren=None):
    ren = ren or {}
    r = lambda s: ren.get(s, s)   # noqa: E731
    acts = []
    for (s, t), a in sorted(action_table.items(), key=lambda kv: (r(kv[0][0]), num[kv[0][1]])):
        k = type(a).__name__
        if k == 'Shift':
            at = 'Shift %d' % r(a.to_state)
        elif k == 'Reduce':
            at = 'Reduce %d' % a.rule
        elif k == 'Accept':
            at = 'Accept %d' % a.rule
        else:
            raise ValueError('unknown action ' + k)
        acts.append('((%d, %d), %s)' % (r(s), num[t], at))
    gts = ['((%d, %d), %d)' % (r(s), num[n], r(t))
           for (s, n), t in sorted(goto_table.items(), key=lambda kv: (r(kv[0][0]), num[kv[0][1]]))]
    return 'mkTables [%s] [%s]' % ('; '.join(acts), '; '.join(gts))


def term_cert(at, gt, prods, ren=None):
    """termination certificate for Model.LrValidator.term_ok (untrusted hint, checked in Coq): weight 2n+2 for
    states entered by a shift, 1 for states entered by a goto; ranks = longest paths over the abstract reduce
    edges (Bellman-Ford). Returns Coq text of a tcert or None when the heuristic finds none."""
    ren = ren or {}
    rn = lambda q: ren.get(q, q)   # noqa: E731
    states, preds, shifted = {0}, {}, set()
    for (s, t), a in at.items():
        states.add(s)
        if type(a).__name__ == 'Shift':
            preds.setdefault(a.to_state, []).append(s)
            states.add(a.to_state)
            shifted.add(a.to_state)
    for (s, X), t in gt.items():
        states.update((s, t))
        preds.setdefault(t, []).append(s)
    W = 2 * len(states) + 2
    w = {q: (W if q in shifted else 1) for q in states}
    edges = []
    for (s, t), a in at.items():
        k = type(a).__name__
        if k == 'Shift':
            continue
        lhs, rhs = prods[a.rule]
        paths = [(s, 0)]
        for _ in rhs:
            paths = [(p, acc + w[q]) for (q, acc) in paths for p in preds.get(q, [])]
            if len(paths) > 20000:
                return None
        for (s0, acc) in paths:
            s2 = gt.get((s0, lhs))
            if s2 is not None and not (k == 'Accept' and s0 == 0):
                edges.append(((s, t), (s2, t), 1 + w[s2] - acc))
    r = {}
    nodes = {e[0] for e in edges} | {e[1] for e in edges}
    for _ in range(len(nodes) + 2):
        ch = False
        for a, b, c in edges:
            v = r.get(b, 0) + c
            if v > r.get(a, 0):
                r[a] = v
                ch = True
        if not ch:
            return w, r
    return None


def coq_tcert(cert, num, ren=None):
    ren = ren or {}
    w, r = cert
    return 'mkTcert [%s] [%s]' % (
        '; '.join('(%d, %d%%nat)' % (ren.get(q, q), v) for q, v in sorted(w.items())),
        '; '.join('((%d, %d), %d%%nat)' % (ren.get(q, q), num[t], v) for (q, t), v in sorted(r.items()) if v > 0))


def coq_ccert(items, terms, prods, num, ren=None):
    """completeness certificate (untrusted, checked by Model.LrComplete.complete_cert): the real builder's item
    sets + independently computed nullable / FIRST hints"""
    ren = ren or {}
    first, nullable = ref_first_sets(set(terms), prods)
    its = '; '.join('(%d, [%s])' % (ren.get(st, st), '; '.join(
        '(%d%%nat, %d%%nat, %d)' % (p, d, num[a]) for (p, d, a) in sorted(l, key=lambda x: (x[0], x[1], num[x[2]]))))
        for st, l in sorted(items.items(), key=lambda kv: ren.get(kv[0], kv[0])))
    return 'mkCcert [%s] [%s] [%s]' % (
        its, '; '.join(str(num[x]) for x in sorted(nullable, key=lambda x: num[x])),
        '; '.join('(%d, [%s])' % (num[x], '; '.join(str(num[c]) for c in sorted(f, key=lambda c: num[c])))
                  for x, f in sorted(first.items(), key=lambda kv: num[kv[0]])))


def start_cycle_at_bottom(items, terms, prods, start):
    """the one situation the completeness certificate rejects by design: an item of state 0 has the start symbol
    after the dot and EOF can follow it (the start symbol derives itself, S =>+ S): complete_cert is not expected
    to hold for such cyclic grammars"""
    first, nullable = ref_first_sets(set(terms), prods)
    nts = {l for l, _ in prods}
    for (p, d, a) in items.get(0, []):
        rhs = prods[p][1]
        if d < len(rhs) and rhs[d] == start:
            fol, allnull = set(), True
            for x in rhs[d + 1:]:
                fol |= first[x] if x in nts else {x}
                if x not in nullable:
                    allnull = False
                    break
            if allnull:
                fol.add(a)
            if 'EOF' in fol:
                return True
    return False


def coq_grammar(terms, prods, start, num):
    return 'mkGrammar [%s] [%s] %d' % (
        '; '.join(str(num[t]) for t in terms),
        '; '.join('(%d, [%s])' % (num[l], '; '.join(str(num[x]) for x in r)) for l, r in prods),
        num[start])


def words_upto(terms, n):
    out = []
    for k in range(n + 1):
        out += [list(w) for w in itertools.product(terms, repeat=k)]
    return out


# ---------------------------------------------------------------- the small family (same order as Coq [family])
def family():
    syms = FAM_T + FAM_N
    rhs = [()] + [(a,) for a in syms] + [(a, b) for a in syms for b in syms]
    cands = [(l, r) for l in FAM_N for r in rhs]
    out = []
    for k in (1, 2, 3):
        out += [list(c) for c in itertools.combinations(cands, k)]
    return out


def gname(prods):
    by = {}
    for l, r in prods:
        by.setdefault(l, []).append(' '.join(r) if r else 'eps')
    return '; '.join('%s -> %s' % (l, ' | '.join(v)) for l, v in by.items())


# ---------------------------------------------------------------- independent oracle
def derivable_words(terms, prods, maxlen):
    """{X: set of words (tuples) of length <= maxlen derivable from X} by naive fixpoint (independent of ppci)"""
    nts = {l for l, _ in prods}
    lang = {x: set() for x in nts}
    changed = True
    while changed:
        changed = False
        for l, r in prods:
            partial = {()}
            for x in r:
                opts = set()
                if x in terms:
                    opts.add((x,))
                if x in nts:
                    opts |= lang[x]
                partial = {p + o for p in partial for o in opts if len(p) + len(o) <= maxlen}
                if not partial:
                    break
            new = partial - lang[l]
            if new:
                lang[l] |= new
                changed = True
    return lang


def tree_ok(v, prods, terms_num, num, root):
    """independent check: v is a parse tree with root symbol `root` (a number); returns its yield or None"""
    if isinstance(v, int):
        return [v] if (v == root and v in terms_num) else None
    if not (isinstance(v, tuple) and len(v) == 2):
        return None
    i, kids = v
    if not (isinstance(i, int) and 0 <= i < len(prods)):
        return None
    l, r = prods[i]
    if num[l] != root or len(kids) != len(r):
        return None
    out = []
    for k, x in zip(kids, r):
        y = tree_ok(k, prods, terms_num, num, num[x])
        if y is None:
            return None
        out += y
    return out


def earley_recognize(terms, prods, start, w):
    """small independent Earley recognizer (handles epsilon via the standard nullable fix)"""
    nts = {l for l, _ in prods}
    nullable = set()
    ch = True
    while ch:
        ch = False
        for l, r in prods:
            if l not in nullable and all(x in nullable for x in r):
                nullable.add(l)
                ch = True
    by = {}
    for i, (l, r) in enumerate(prods):
        by.setdefault(l, []).append(i)
    n = len(w)
    chart = [set() for _ in range(n + 1)]
    order = [[] for _ in range(n + 1)]

    def add(k, it):
        if it not in chart[k]:
            chart[k].add(it)
            order[k].append(it)
    for i in by.get(start, []):
        add(0, (i, 0, 0))
    for k in range(n + 1):
        j = 0
        while j < len(order[k]):
            (i, d, o) = order[k][j]
            j += 1
            l, r = prods[i]
            if d < len(r):
                x = r[d]
                if x in nts:
                    for i2 in by.get(x, []):
                        add(k, (i2, 0, k))
                    if x in nullable:
                        add(k, (i, d + 1, o))
                if x in terms and k < n and w[k] == x:
                    add(k + 1, (i, d + 1, o))
            else:
                for (i3, d3, o3) in list(order[o]):
                    r3 = prods[i3][1]
                    if d3 < len(r3) and r3[d3] == l:
                        add(k, (i3, d3 + 1, o3))
    return any(prods[i][0] == start and d == len(prods[i][1]) and o == 0 for (i, d, o) in chart[n])


# ---------------------------------------------------------------- witnesses of the two defects
W_LA = dict(terms=['a', 'b', 'c'], prods=[('S', ('A', 'B', 'c')), ('A', ('a',)), ('B', ()), ('B', ('b',))],
            start='S', num={'EOF': 0, 'EPS': 1, 'a': 2, 'b': 3, 'c': 6, 'S': 4, 'A': 5, 'B': 7}, word=['a', 'c'])
W_RR = dict(terms=['a', 'b'], prods=[('S', ('a', 'S')), ('S', ('b',))], start='S', num=FAM_NUM, word=['a', 'a', 'b'])


def run_witness(wit):
    """returns (holds, actual) for the witness sentence on the implementation"""
    g = make_grammar(wit['terms'], wit['prods'], wit['start'], wit['num'])
    b = real_build(g)
    if b[0] != 'ok':
        return False, 'builder ' + b[0]
    r = real_parse(b[1], wit['word'])
    if not isinstance(r, OkV):
        return False, 'ParserException' if r is Diag else 'internal error'
    y = tree_ok(r.v, wit['prods'], {wit['num'][t] for t in wit['terms']}, wit['num'], wit['num'][wit['start']])
    if y != [wit['num'][t] for t in wit['word']]:
        return False, repr(r.v)
    return True, repr(r.v)


def report_witnesses(ctx):
    """re-execute both witnesses on the implementation; report while they fail. returns (fix_first, fix_accept)"""
    ok_la, act_la = run_witness(W_LA)
    ok_rr, act_rr = run_witness(W_RR)
    if not ok_la:
        ctx.violation({'fn': 'LrParserBuilder.closure/first2', 'key': 'lookahead-nullable',
                       'grammar': gname(W_LA['prods']), 'args': W_LA['word'],
                       'expected': 'accepted: (0, [(1, [a]), (2, []), c])', 'actual': act_la,
                       'how_to_replay': 'build LrParserBuilder for S->A B c; A->a; B->eps|b and parse tokens a c'})
    if not ok_rr:
        ctx.violation({'fn': 'LrParser.parse/Accept', 'key': 'accept-recursive-start',
                       'grammar': gname(W_RR['prods']), 'args': W_RR['word'],
                       'expected': 'parse tree of a a b: (0, [a, (0, [a, (1, [b])])])', 'actual': act_rr,
                       'how_to_replay': 'build LrParserBuilder for S->a S | b and parse tokens a a b'})
    ctx.cov['stages']['witnesses'] = {'lookahead_nullable_holds': ok_la, 'accept_recursive_start_holds': ok_rr}
    return ok_la, ok_rr


# ---------------------------------------------------------------- search (independent oracle)
def check_grammar_against_oracle(ctx, terms, prods, start, num, words, label, lang=None, member=None):
    """real builder + real parser vs oracle on the given words. returns number of evaluations"""
    g = make_grammar(terms, prods, start, num)
    b = real_build(g)
    if b[0] != 'ok':
        return 0
    parser, sr = b[1], b[4]
    tnum = {num[t] for t in terms}
    n = 0
    for w in words:
        n += 1
        r = real_parse(parser, w)
        inl = (tuple(w) in lang) if lang is not None else member(w)
        rec = None
        if isinstance(r, OkV):
            y = tree_ok(r.v, prods, tnum, num, num[start])
            if y != [num[t] for t in w]:
                kind = 'accept-recursive-start' if inl else 'accepts-non-sentence'
                rec = {'key': kind, 'expected': 'a parse tree of the input' if inl else 'ParserException',
                       'actual': repr(r.v)}
        elif r is Internal:
            rec = {'key': 'parser-internal-error', 'expected': 'value or ParserException', 'actual': 'internal error'}
        elif inl and not sr:
            rec = {'key': 'rejects-sentence', 'expected': 'accepted (sentence of a conflict-free grammar)',
                   'actual': 'ParserException'}
        if rec:
            rec.update({'fn': 'LrParser.parse', 'grammar': label, 'args': list(w),
                        'how_to_replay': 'LrParserBuilder on grammar %s (start %s), parse token types %s' % (label, start, ' '.join(w))})
            # known findings are matched on fn+grammar+args of the two recorded witnesses; others on key
            ctx.violation(rec)
    return n


def search(ctx, deep=None):
    deep = (not ctx.quick()) or bool(ctx.failed_stages) if deep is None else deep
    fam = family()
    words = words_upto(FAM_T, 4)
    todo = fam if deep else [p for p in fam if len(p) <= 2] + ctx.rng.sample([p for p in fam if len(p) == 3], 1200)
    n = 0
    for prods in todo:
        lang = derivable_words(set(FAM_T), prods, 4).get('S', set())
        n += check_grammar_against_oracle(ctx, FAM_T, prods, 'S', FAM_NUM, words, gname(prods), lang=lang)
    ctx.cov['stages']['oracle_search'] = {'grammars': len(todo), 'parses': n, 'deep': deep}
    ctx.cov['evaluations'] += n
    n += search_random(ctx, deep)
    return n


# ---------------------------------------------------------------- larger random grammars (planted nullable chains)
RG_T = ['x', 'y', 'z']
RG_N = ['S', 'A', 'B', 'C', 'D']
RG_NUM = {'EOF': 0, 'EPS': 1, 'x': 2, 'y': 3, 'z': 4, 'S': 5, 'A': 6, 'B': 7, 'C': 8, 'D': 9}
_RG_CACHE = {}


def _rand_grammar(rng):
    """3-5 nonterminals, 4-8 productions, rhs <= 3; planted: nullable chains (A -> B, B -> eps, C -> A B),
    nullable symbols before terminals, left/right recursion; production order shuffled"""
    nn = rng.randrange(3, 6)
    nts = RG_N[:nn]
    terms = RG_T[:rng.randrange(2, 4)]
    others = nts[1:]
    rng.shuffle(others)
    prods = []
    t = lambda: rng.choice(terms)   # noqa: E731
    # nullable chain over `others`
    chain = others[:rng.randrange(1, len(others) + 1)]
    prods.append((chain[-1], ()))
    for a, b in zip(chain, chain[1:]):
        k = rng.randrange(4)
        prods.append((a, (b,)) if k < 2 else ((a, (b, chain[-1])) if k == 2 else (a, (b, t()))))
    if rng.random() < 0.5:
        prods.append((chain[-1], (t(),)))
    rest = [n for n in others if n not in chain]
    for n in rest:   # recursion / plain
        k = rng.randrange(4)
        x = t()
        if k == 0:
            prods += [(n, (n, x)), (n, (t(),))]
        elif k == 1:
            prods += [(n, (x, n)), (n, (t(),))]
        elif k == 2:
            prods += [(n, (x, rng.choice(chain)))]
        else:
            prods += [(n, (x,))]
    # start productions: nullable symbols before terminals, mixtures
    pool = others
    k = rng.randrange(5)
    if k == 0:
        prods.append(('S', (chain[0], t())))
    elif k == 1:
        prods.append(('S', (chain[-1], rng.choice(pool), t())))
    elif k == 2:
        prods.append(('S', (rng.choice(pool), rng.choice(pool))))
    elif k == 3:
        prods += [('S', (t(), 'S')), ('S', (chain[0], t()))]
    else:
        prods += [('S', ('S', t())), ('S', (rng.choice(pool),))]
    if len(others) >= 2 and rng.random() < 0.5:   # T -> B S shape: nullable in front of a nonterminal that starts with a nullable
        a = rng.choice(others)
        prods.append((a, (chain[0], t()))) if (a, (chain[0], t())) not in prods else None
    while len(prods) < 4 or (len(prods) < 8 and rng.random() < 0.35):
        l = rng.choice(nts)
        r = tuple(rng.choice(nts + terms + terms) for _ in range(rng.randrange(1, 4)))
        prods.append((l, r))
    prods = prods[:8]
    seen, out = set(), []
    for pr in prods:
        if pr not in seen:
            seen.add(pr)
            out.append(pr)
    rng.shuffle(out)
    have = {l for l, _ in out}
    used = {x for _, r in out for x in r if x in RG_N} | {'S'}
    for n in sorted(used - have):
        out.append((n, (t(),)))
    return terms, out


def random_grammars(seed, count):
    """seeded list of (terms, prods, real_build result) the real builder accepts without any conflict"""
    key = (seed, count)
    if key in _RG_CACHE:
        return _RG_CACHE[key]
    import random
    rng = random.Random(1000003 * seed + 32)
    out, tries, seen = [], 0, set()
    while len(out) < count and tries < count * 60:
        tries += 1
        terms, prods = _rand_grammar(rng)
        sig = (tuple(terms), tuple(prods))
        if sig in seen:
            continue
        seen.add(sig)
        b = real_build(make_grammar(terms, prods, 'S', RG_NUM))
        if b[0] == 'ok' and not b[4]:
            out.append((terms, prods, b))
    _RG_CACHE[key] = (out, tries)
    return _RG_CACHE[key]


def ref_first_sets(terms, prods):
    """independent FIRST / nullable by the textbook definition"""
    nts = {l for l, _ in prods}
    nullable, first = set(), {n: set() for n in nts}
    ch = True
    while ch:
        ch = False
        for l, r in prods:
            if l not in nullable and all(x in nullable for x in r):
                nullable.add(l)
                ch = True
            for x in r:
                add = first[x] if x in nts else {x}
                if not add <= first[l]:
                    first[l] |= add
                    ch = True
                if x not in nullable:
                    break
    return first, nullable


def check_first_sets(ctx, terms, prods):
    """real calculate_first_sets vs the textbook definition (diagnostic: internal representation)"""
    lr = _mods()[0]
    try:
        real = lr.calculate_first_sets(make_grammar(terms, prods, 'S', RG_NUM))
    except Exception:   # noqa: BLE001
        return None
    first, nullable = ref_first_sets(set(terms), prods)
    for n in first:
        if set(real.get(n, ())) - {'EPS'} != first[n] or (('EPS' in real.get(n, ())) != (n in nullable)):
            return False
    return True


def search_random(ctx, deep):
    count = 1000 if deep else 150
    gl, tries = random_grammars(ctx.seed, count)
    n, nfirst_bad = 0, 0
    for terms, prods, _ in gl:
        maxlen = 5 if len(terms) <= 2 else 4
        words = words_upto(terms, maxlen)
        lang = derivable_words(set(terms), prods, maxlen).get('S', set())
        n += check_grammar_against_oracle(ctx, terms, prods, 'S', RG_NUM, words, gname(prods), lang=lang)
        if check_first_sets(ctx, terms, prods) is False:
            nfirst_bad += 1
            if nfirst_bad == 1:
                ctx.log('calculate_first_sets differs from the textbook FIRST/nullable sets on', gname(prods))
    ctx.cov['stages']['random_grammar_search'] = {'grammars': len(gl), 'generated': tries, 'parses': n,
                                                  'first_sets_differ': nfirst_bad}
    ctx.cov['evaluations'] += n
    return n


# ---------------------------------------------------------------- real grammars
def real_grammars(ctx):
    """[(name, terms, prods, start)] of grammars ppci builds, as plain data"""
    out = []
    from ppci.binutils.layout import _lloader
    out.append(('layout', _lloader.parser.p.grammar))
    from ppci.api import get_arch
    names = ['arm', 'or1k', 'mcs6500', 'stm8'] if not ctx.quick() else ['mcs6500']
    for nm in names:
        try:
            out.append((nm, get_arch(nm).assembler.parser.g))
        except Exception as ex:   # noqa: BLE001
            ctx.log('cannot get assembler grammar', nm, ex)
    res = []
    for nm, g in out:
        terms = sorted(g.terminals)
        prods = [(p.name, tuple(p.symbols)) for p in g.productions]
        res.append((nm, terms, prods, g.start_symbol or prods[0][0]))
    return res


def numbering(terms, prods):
    num = {'EOF': 0, 'EPS': 1}
    for x in list(terms) + sorted({l for l, _ in prods}):
        if x not in num:
            num[x] = len(num)
    return num


def gen_sentences(rng, terms, prods, start, count, maxdepth=7):
    nts = {l for l, _ in prods}
    by = {}
    for i, (l, r) in enumerate(prods):
        by.setdefault(l, []).append(r)
    height = {}
    ch = True
    while ch:
        ch = False
        for l, r in prods:
            if all((x not in nts) or x in height for x in r):
                h = 1 + max([height[x] for x in r if x in nts] + [0])
                if height.get(l, 10 ** 9) > h:
                    height[l] = h
                    ch = True

    def expand(x, d):
        if x not in nts:
            return [x]
        opts = [r for r in by[x] if all((y not in nts) or y in height for y in r)]
        if d <= 0:
            m = min(max([height[y] for y in r if y in nts] + [0]) for r in opts)
            opts = [r for r in opts if max([height[y] for y in r if y in nts] + [0]) == m]
        r = rng.choice(opts)
        out = []
        for y in r:
            out += expand(y, d - 1)
        return out
    sents = []
    if start not in height:
        return sents
    for _ in range(count):
        s = expand(start, rng.randrange(1, maxdepth))
        if len(s) <= 40:
            sents.append(s)
    muts = []
    tl = [t for t in terms if t not in ('EOF', 'EPS')]
    for s in sents:
        m = list(s)
        k = rng.randrange(3)
        if k == 0 and m:
            del m[rng.randrange(len(m))]
        elif k == 1:
            m.insert(rng.randrange(len(m) + 1), rng.choice(tl))
        elif m:
            m[rng.randrange(len(m))] = rng.choice(tl)
        muts.append(m)
    return sents + muts


# ---------------------------------------------------------------- regen: export real tables
def regen(ctx):
    if not hasattr(ctx, 'c32_variant'):
        ctx.c32_variant = (run_witness(W_LA)[0], run_witness(W_RR)[0])
    fxf, fxa = ctx.c32_variant
    lines = ['(* generated by tools/props/c32.py from the real LrParserBuilder tables; do not edit *)',
             'From PV Require Import Lib.Py Spec.CfgGrammarSpec Model.LrValidator Model.LrComplete.',
             'Open Scope Z_scope.',
             'Definition FXF : bool := %s.   (* implementation has the repaired lookahead *)' % ('true' if fxf else 'false'),
             'Definition FXA : bool := %s.   (* implementation has the repaired accept *)' % ('true' if fxa else 'false')]
    fam = family()
    words = words_upto(FAM_T, 4)
    nsamp = 320 if ctx.quick() else 2500
    small = [p for p in fam if len(p) <= 2]
    big = [p for p in fam if len(p) == 3]
    rich = [p for p in fam if len(derivable_words(set(FAM_T), p, 4).get('S', ())) >= 3]
    sample = (ctx.rng.sample(small, min(len(small), nsamp // 4)) + ctx.rng.sample(big, nsamp // 4)
              + ctx.rng.sample(rich, min(len(rich), nsamp // 2)))
    ctx.cov['stages']['family_sample'] = {'small': nsamp // 4, 'three_productions': nsamp // 4,
                                          'rich_language': min(len(rich), nsamp // 2), 'of': len(fam)}
    sample += [list(W_RR['prods'])]
    exp = {'family': [], 'real': []}
    for k, prods in enumerate(sample):
        g = make_grammar(FAM_T, prods, 'S', FAM_NUM)
        b = real_build(g)
        nts = coq_nodup([l for l, _ in prods])
        ent = {'k': k, 'prods': prods, 'build': b[0]}
        lines.append('Definition g%d : grammar := %s.' % (k, coq_grammar(FAM_T, prods, 'S', FAM_NUM)))
        if b[0] == 'ok':
            ren = renumber(b[2], b[3], nts + FAM_T)
            lines.append('Definition T%d : tables := %s.' % (k, coq_tables(b[2], b[3], FAM_NUM, ren)))
            cert = term_cert(b[2], b[3], prods)
            ent['cert'] = cert is not None
            if cert:
                lines.append('Definition C%d : tcert := %s.' % (k, coq_tcert(cert, FAM_NUM, ren)))
            ent['ccert'] = bool(b[5]) and not b[4] and fxf and fxa and not start_cycle_at_bottom(b[5], FAM_T, prods, 'S')
            if ent['ccert']:
                lines.append('Definition I%d : ccert := %s.' % (k, coq_ccert(b[5], FAM_T, prods, FAM_NUM, ren)))
            ent['sr'] = b[4]
            ent['parses'] = [real_parse(b[1], w) for w in words]
        exp['family'].append(ent)
    exp['random'] = []
    rg, _ = random_grammars(ctx.seed, 150 if ctx.quick() else 1000)
    for k, (terms, prods, b) in enumerate(rg[:150 if ctx.quick() else 400]):
        nts = coq_nodup([l for l, _ in prods])
        ws = words_upto(terms, 4 if len(terms) <= 2 else 3)
        ren = renumber(b[2], b[3], nts + terms)
        lines.append('Definition gr%d : grammar := %s.' % (k, coq_grammar(terms, prods, 'S', RG_NUM)))
        lines.append('Definition Tr%d : tables := %s.' % (k, coq_tables(b[2], b[3], RG_NUM, ren)))
        cert = term_cert(b[2], b[3], prods)
        if cert:
            lines.append('Definition Cr%d : tcert := %s.' % (k, coq_tcert(cert, RG_NUM, ren)))
        cc = bool(b[5]) and not b[4] and fxf and fxa and not start_cycle_at_bottom(b[5], terms, prods, 'S')
        if cc:
            lines.append('Definition Ir%d : ccert := %s.' % (k, coq_ccert(b[5], terms, prods, RG_NUM, ren)))
        exp['random'].append({'k': k, 'terms': terms, 'prods': prods, 'words': ws, 'cert': cert is not None, 'ccert': cc,
                              'parses': [real_parse(b[1], w) for w in ws]})
    for (nm, terms, prods, start) in real_grammars(ctx):
        num = numbering(terms, prods)
        g = make_grammar(terms, prods, start, num)
        b = real_build(g)
        ent = {'name': nm, 'terms': terms, 'prods': prods, 'start': start, 'num': num, 'build': b[0]}
        if b[0] == 'ok':
            lines.append('Definition g_%s : grammar := %s.' % (nm, coq_grammar(terms, prods, start, num)))
            lines.append('Definition T_%s : tables := %s.' % (nm, coq_tables(b[2], b[3], num)))
            cert = term_cert(b[2], b[3], prods)
            ent['cert'] = cert is not None
            if cert:
                lines.append('Definition C_%s : tcert := %s.' % (nm, coq_tcert(cert, num)))
            ent['ccert'] = (bool(b[5]) and not b[4] and fxf and fxa and (nm == 'layout' or not ctx.quick())
                            and not start_cycle_at_bottom(b[5], terms, prods, start))
            if ent['ccert']:
                lines.append('Definition I_%s : ccert := %s.' % (nm, coq_ccert(b[5], terms, prods, num)))
            sents = gen_sentences(ctx.rng, terms, prods, start, 14 if ctx.quick() else 60)
            ent['sents'] = sents
            ent['parses'] = [real_parse(b[1], s) for s in sents]
            ent['sr'] = b[4]
            ent['size'] = (len(b[2]), len(b[3]))
        exp['real'].append(ent)
    lines.append('Definition words4 : list (list Z) := [%s].' % '; '.join(
        '[%s]' % '; '.join(str(FAM_NUM[t]) for t in w) for w in words))
    ctx.write_gen('lr_tables', '\n'.join(lines) + '\n')
    ctx.c32_export = exp
    return exp


def explain_rejection(ctx, ent):
    """validator rejected the real tables of a small grammar: show a concrete wrong result of the real parser"""
    prods = ent['prods']
    g = make_grammar(FAM_T, prods, 'S', FAM_NUM)
    b = real_build(g)
    if b[0] != 'ok':
        return False
    tnum = {FAM_NUM[t] for t in FAM_T}
    for w in words_upto(FAM_T, 6):
        r = real_parse(b[1], w)
        if isinstance(r, OkV) and tree_ok(r.v, prods, tnum, FAM_NUM, FAM_NUM['S']) != [FAM_NUM[t] for t in w]:
            ctx.violation({'fn': 'LrParser.parse', 'key': 'accept-recursive-start', 'grammar': gname(prods),
                           'args': list(w), 'expected': 'a parse tree of the input', 'actual': repr(r.v),
                           'how_to_replay': 'LrParserBuilder on grammar %s, parse token types %s' % (gname(prods), ' '.join(w))})
            return True
    return False


# ---------------------------------------------------------------- run
def run(ctx):
    words = words_upto(FAM_T, 4)
    ctx.c32_variant = report_witnesses(ctx)
    fxf, fxa = ctx.c32_variant
    ctx.log('implementation variant: repaired lookahead =', fxf, ' repaired accept =', fxa)
    import time
    tm = ctx.cov['stages'].setdefault('timing_s', {})
    t0 = time.time()
    exp = regen(ctx)
    tm['regen'] = round(time.time() - t0, 1)
    t0 = time.time()
    ok, _ = ctx.build(['Proofs/C32_sound.vo', 'Proofs/C32_complete.vo', 'Proofs/C32_safe.vo', 'Proofs/C32_cert.vo',
                       'Gen/lr_tables.vo'])
    if ok:
        ctx.check_props('Props/C32.v')
    if not ctx.quick():     # larger bounded family (about 5 minutes of vm_compute the first time)
        if ctx.build(['Proofs/C32_complete_big.vo'], timeout=3000)[0]:
            # coqc + Print Assumptions only: coqchk re-evaluates the 5-minute vm_compute of the 111930-grammar family
            # with its slower reduction machine (> 25 min), which does not fit the tier budget. coqchk still runs on
            # Props/C32.v (all unbounded theorems and the <= 3 production family).
            import os
            prev = os.environ.get('VERIF_COQCHK')
            os.environ['VERIF_COQCHK'] = '0'
            try:
                ctx.check_props('Props/C32_thorough.v')
            finally:
                if prev is None:
                    os.environ.pop('VERIF_COQCHK', None)
                else:
                    os.environ['VERIF_COQCHK'] = prev
            ctx.cov['stages']['coqchk_skipped'] = 'Props/C32_thorough.v (vm_compute too long for coqchk; coqc-checked)'
    tm['build_and_props'] = round(time.time() - t0, 1)
    t0 = time.time()
    if ctx.build(['Gen/lr_tables.vo', 'Model/LrBuilder.vo', 'Lib/Val.vo'])[0]:
        cases, recs = [], []
        dist = {'family_ok': 0, 'family_builder_error': 0, 'family_sr_resolved': 0, 'accepted': 0, 'rejected': 0,
                'internal': 0, 'term_certified': 0, 'term_uncertified': 0, 'complete_cert': 0}
        for ent in exp['family']:
            k = ent['k']
            if ent['build'] == 'ok':
                dist['family_ok'] += 1
                dist['family_sr_resolved'] += int(ent['sr'])
                cases.append(('build_matches FXF 200 g%d (Some (T%d, %s))' % (k, k, 'true' if ent['sr'] else 'false'), True))
                recs.append(('builder', ent, None))
                cases.append(('tables_ok FXA g%d T%d' % (k, k), True))
                recs.append(('validator', ent, None))
                dist['term_certified' if ent.get('cert') else 'term_uncertified'] += 1
                if ent.get('cert'):
                    cases.append(('term_ok FXA g%d T%d C%d' % (k, k, k), True))
                    recs.append(('termination', ent, None))
                if ent.get('ccert'):
                    dist['complete_cert'] += 1
                    cases.append(('complete_cert g%d T%d I%d' % (k, k, k), True))
                    recs.append(('completeness', ent, None))
                cases.append(('map (parse_model FXA 200 g%d T%d) words4' % (k, k), ent['parses']))
                recs.append(('parser', ent, None))
                for w, r in zip(words, ent['parses']):
                    dist['accepted' if isinstance(r, OkV) else ('rejected' if r is Diag else 'internal')] += 1
                    if isinstance(r, OkV) and w:
                        ctx.cov['distinct_nontrivial'] += 1
            else:
                dist['family_builder_error'] += 1
                cases.append(('build_matches FXF 200 g%d None' % k, True))
                recs.append(('builder', ent, None))
        for ent in exp.get('random', []):
            k = ent['k']
            cases.append(('build_matches FXF 600 gr%d (Some (Tr%d, false))' % (k, k), True))
            recs.append(('builder', ent, None))
            cases.append(('tables_ok FXA gr%d Tr%d' % (k, k), True))
            recs.append(('validator', ent, None))
            dist['term_certified' if ent.get('cert') else 'term_uncertified'] += 1
            if ent.get('cert'):
                cases.append(('term_ok FXA gr%d Tr%d Cr%d' % (k, k, k), True))
                recs.append(('termination', ent, None))
            if ent.get('ccert'):
                dist['complete_cert'] += 1
                cases.append(('complete_cert gr%d Tr%d Ir%d' % (k, k, k), True))
                recs.append(('completeness', ent, None))
            cases.append(('map (parse_model FXA 400 gr%d Tr%d) [%s]' % (k, k, '; '.join(
                '[%s]' % '; '.join(str(RG_NUM[t]) for t in w) for w in ent['words'])), ent['parses']))
            recs.append(('parser', ent, None))
            for w, r in zip(ent['words'], ent['parses']):
                dist['accepted' if isinstance(r, OkV) else ('rejected' if r is Diag else 'internal')] += 1
                if isinstance(r, OkV) and w:
                    ctx.cov['distinct_nontrivial'] += 1
        dist['random_grammars'] = len(exp.get('random', []))
        for ent in exp['real']:
            if ent['build'] != 'ok':
                ctx.log('real grammar', ent['name'], 'is rejected by the LR builder:', ent['build'])
                continue
            nm = ent['name']
            cases.append(('tables_ok FXA g_%s T_%s' % (nm, nm), True))
            recs.append(('validator', ent, None))
            dist['term_certified' if ent.get('cert') else 'term_uncertified'] += 1
            if ent.get('cert'):
                cases.append(('term_ok FXA g_%s T_%s C_%s' % (nm, nm, nm), True))
                recs.append(('termination', ent, None))
            else:
                ctx.log('no termination certificate found for the tables of', nm, '(heuristic; informational)')
            if ent.get('ccert'):
                dist['complete_cert'] += 1
                cases.append(('complete_cert g_%s T_%s I_%s' % (nm, nm, nm), True))
                recs.append(('completeness', ent, None))
            for s, r in zip(ent['sents'], ent['parses']):
                cases.append(('parse_model FXA 2000 g_%s T_%s [%s]' % (nm, nm, '; '.join(str(ent['num'][t]) for t in s)), r))
                recs.append(('parser', ent, s))
                dist['accepted' if isinstance(r, OkV) else ('rejected' if r is Diag else 'internal')] += 1
                if isinstance(r, OkV) and s:
                    ctx.cov['distinct_nontrivial'] += 1
            dist['real_' + nm] = {'actions': ent['size'][0], 'gotos': ent['size'][1], 'sentences': len(ent['sents']),
                                  'sr_resolved': ent['sr']}
        ctx.cov['stages']['correspondence_distribution'] = dist
        for ent in exp['family'][:3]:
            ctx.note_sample({'grammar': gname(ent['prods']), 'build': ent['build'],
                             'accepted_words': [' '.join(w) for w, r in zip(words, ent.get('parses', [])) if isinstance(r, OkV)][:6]})
        bad = ctx.run_cases('lr', ['Gen.lr_tables', 'Model.LrValidator', 'Model.LrBuilder', 'Model.LrComplete'], cases, shard=150)
        if bad:
            kinds = {}
            for i in bad:
                kind, ent, s = recs[i]
                kinds.setdefault(kind, []).append((ent.get('name') or gname(ent['prods']), s))
            if 'validator' in kinds and not fxa:
                # lr.py as it is: tables of grammars with a recursive start symbol are rejected by the validator.
                # A rejection is explained when a concrete wrong value is shown on the implementation.
                left = []
                for i in bad:
                    kind, ent, s = recs[i]
                    if kind != 'validator':
                        continue
                    if 'name' in ent or 'terms' in ent or not explain_rejection(ctx, ent):
                        left.append((ent.get('name') or gname(ent['prods']), s))
                ctx.cov['stages']['validator_rejections_explained'] = len(kinds['validator']) - len(left)
                if left:
                    kinds['validator'] = left
                else:
                    del kinds['validator']
            for kind, l in kinds.items():
                ctx.log('%s: %d disagreements, first: %s %s' % (kind, len(l), l[0][0], l[0][1] or ''))
                what = {'builder': 'Model.LrBuilder disagrees with LrParserBuilder (tables modulo renumbering)',
                        'validator': 'real tables are rejected by the verified validator tables_ok',
                        'termination': 'exported termination certificate is rejected by term_ok',
                        'completeness': 'real item sets + tables are rejected by the completeness check complete_cert',
                        'parser': 'Model.LrValidator.parse_model disagrees with LrParser.parse'}[kind]
                ctx.failed_stages.append(('correspondence_' + kind, '%s on %d cases, first: %s %s' % (what, len(l), l[0][0], l[0][1] or '')))
    tm['correspondence'] = round(time.time() - t0, 1)
    t0 = time.time()
    # real grammars against the independent Earley recognizer
    n = 0
    for ent in exp['real']:
        if ent['build'] != 'ok':
            continue
        terms, prods, start = set(ent['terms']), ent['prods'], ent['start']
        n += check_grammar_against_oracle(
            ctx, ent['terms'], prods, start, ent['num'], ent['sents'], ent['name'],
            member=lambda w, terms=terms, prods=prods, start=start: earley_recognize(terms, prods, start, w))
    ctx.cov['stages']['real_grammar_oracle'] = n
    ctx.cov['evaluations'] += n
    search(ctx)
    tm['oracle'] = round(time.time() - t0, 1)
    ctx.cov['exhaustive'] = not ctx.quick()
    ctx.cov['rule'] = RULE


MANIFEST = {
    'text': 'translation validation: Coq-verified checkers are run inside coqc on what the real LrParserBuilder produces '
            '(sampled/exhaustive small grammars, seeded larger grammars with planted nullable chains, the layout grammar, '
            'LR(1) assembler grammars): tables_ok on the action/goto tables, term_ok on a termination certificate, '
            'complete_cert on the LR(1) item sets. Theorems (all unbounded in the input): c32_sound (accepted => sentence, '
            'value = its parse tree), c32_safe (no internal error), c32_terminates/c32_total (explicit fuel bound, result is '
            'a parse tree or ParserException), c32_complete_tables (every sentence is accepted, per validated instance). '
            'Bounded completeness of the builder model: all grammars with <= 3 productions (quick) and all with 4 productions '
            '(thorough), rhs <= 2, 2 terminals + 2 nonterminals, words <= 4, with a proved-complete derivability table. Two '
            'refutation theorems record the defects of lr.py before the repairs (lookahead behind nullable symbols, accept '
            'at inner reductions of a recursive start symbol)',
    'note': 'trusted: Coq kernel, table/item-set exporter, hand models of LrParser.parse and LrParserBuilder (compared with '
            'the implementation on every run: parser on all words <= 4 / generated sentences, builder tables modulo state '
            'renumbering), actions modelled as tree construction. Certificates (weights/ranks, item sets, FIRST/nullable) '
            'are untrusted hints checked in Coq. Lexers, Earley parser and yacc file output are not modelled. Requires the '
            'repairs C32-lookahead-nullable and C32-accept-recursive-start (applied in /repo).',
    'technique': 'verified validators (safety, termination, completeness certificates) + hand model correspondence + bounded vm_compute',
}
