"""C22 — WebAssembly execution follows the specification (DESIGN §4 C22).  PARTIAL: LEVEL 'other'.

Proved core = integer numeric semantics:
  * tie T  Gen/wasm_runtime.v   integer helpers of ppci/wasm/execution/runtime.py (+ Gen/bitfun.v)
  * tie T  Gen/irpy_rt.v        IrPy.correct/idiv/irem/ishl/ishr, translated from the *text emitted by*
                                 ppci/lang/python/ir2py.py (irpy_runtime_code)
  * tie I  Gen/wasm_irmap.v     opcode -> IR program, exported by compiling one-instruction functions
                                 with the real WasmToIrCompiler and reading the IR
  * tie H  Model/WasmIr.v       semantics of that IR fragment (python target = ir2py text; abstract IR)
Validated only (tests): end-to-end execution through instantiate(target='python') (and 'native' in the
thorough tier) against an independent Python oracle and against the Coq spec; float boundary pool.
"""
import io
import math
import os
import re
import struct
import textwrap

from vlib import OkV, Diag, Internal, call_impl, to_term, TieBroken, REPO, VERIF

LEVEL = 'other'
RULE = ('every integer numeric opcode (66) x operand tuples from a boundary pool (0, +-1, MIN, MAX, 2^k, 2^k+-1, '
        'shift counts around N, seeded random); a case is distinct non-trivial when its (opcode, operands) pair is '
        'new, the operands are not all zero and the implementation returned a value or trapped')
EXPLANATION = ('PARTIAL. Proved (unbounded, all operands): the 15 integer runtime helpers of runtime.py equal '
               'WasmNumSpec; the IR that wasm2ppci emits for each of the 66 integer numeric opcodes (exported from the '
               'real compiler on every run), executed with the python-target semantics (ir2py text + translated IrPy '
               'runtime), equals WasmNumSpec whenever the spec does not trap, and raises ZeroDivisionError (turned into '
               'WasmTrapException) for divisor 0. Refuted: iN.div_s MIN/-1 returns MIN instead of trapping; under the '
               'target-independent IR reading shift counts >= N are undefined behaviour (wasm2ppci does not mask). '
               'Also proved: under the target-independent IR reading (ir_run) the emitted IR equals the spec for every '
               'opcode whenever shift counts lie in [0,N) and the divisor is not 0, and is undefined for every shift count '
               'outside [0,N) (the only gap). LINEAR MEMORY (Props/C22_mem.v, hand model Model/WasmMem.v of IrPy '
               'read_mem/write_mem/load_/store_ struct formats, PythonMemoryInstance.size/grow/write and the wasm2ppci '
               'address computation, cross-checked per run on the real runtime object and real modules): every integer '
               'load/store width and signedness is little-endian with correct sign/zero extension and store truncation for '
               'in-bounds accesses, every out-of-bounds access with address < 2^31 raises, active data segments, '
               'memory.size and memory.grow equal Spec/WasmMemSpec.v; refuted rows: address >= 2^31 not trapped '
               '(fix proposed: fixes/C22-address-unsigned.diff, positive theorems for the repaired lowering are proved '
               'and used automatically once the source has it), memory.grow operand >= 2^31 raises ValueError. '
               'NOT modelled/proved: control flow, calls, locals/globals, float loads/stores, tables, floats, the native '
               'target, the text/binary front end; these are exercised by tests only. Linear memory and globals '
               '(memory.size/grow with min/max limits, every load/store width and signedness with static offsets at '
               'the last valid address and one past it, data segments, mutable/immutable globals, grow-store-load '
               'sequences, final memory image) and the fusion of pending comparisons with their consumers (every integer '
               'and f32/f64 comparison incl. NaN/+-0/+-inf, alone and followed by eqz, eqz eqz, br_if, if/else, select, '
               'eqz+br_if/if/select, local reuse, used twice: tools/props/c22_cmp.py) are VALIDATED ONLY by search-only '
               'differential stages '
               '(tools/props/c22_mem.py) against an independent reference written from the core spec; no theorem.')
TRUSTED = ['tools/py2coq.py (translator; cross-checked per run against the implementation)',
           'extraction of the IrPy static methods from the text emitted by irpy_runtime_code (dedent of 5 functions)',
           'export of the opcode -> IR table from the compiled IR (symbolic walk in tools/props/c22.py; '
           'cross-checked end to end by executing the real python target on the same operands)',
           'Model/WasmIr.v py_run mirrors ir2py gen_binop/gen_cast/gen_cjump/gen_const/FunctionCall (hand model)',
           'Python int arithmetic == Coq Z arithmetic',
           'Model/WasmMem.v (hand model of IrPy memory builtins, struct integer formats on a little-endian host, Python '
           'slice semantics, PythonMemoryInstance, wasm2ppci address computation and narrow load/store lowering; the '
           'opcode -> (width, struct format, N) table is in tools/props/c22_mem.py; all cross-checked per run)',
           'the wasm memory is the last allocation on the IrPy heap (instantiate creates it after globals and tables)',
           'reading of the WebAssembly core specification 4.3.2 in Spec/WasmNumSpec.v']
ASSUMPTIONS = ['operands are passed as signed Python ints in [-2^(N-1), 2^(N-1)) (what the python instance produces)',
               'fuel > 64 for clz/ctz (loops run at most N times)']

RT_ENTRIES = [{'name': n} for n in (
    'i32_rotr', 'i64_rotr', 'i32_rotl', 'i64_rotl', 'i32_clz', 'i64_clz', 'i32_ctz', 'i64_ctz',
    'i32_popcnt', 'i64_popcnt', 'i32_extend8_s', 'i32_extend16_s', 'i64_extend8_s', 'i64_extend16_s',
    'i64_extend32_s')]
IRPY_ENTRIES = [{'name': 'correct', 'params': {'signed': 'bool'}}, {'name': 'idiv'}, {'name': 'irem'},
                {'name': 'ishl'}, {'name': 'ishr'}]

# ---------------------------------------------------------------- the opcode list
BIN = [('add', 'Add'), ('sub', 'Sub'), ('mul', 'Mul'), ('div_s', 'DivS'), ('div_u', 'DivU'), ('rem_s', 'RemS'),
       ('rem_u', 'RemU'), ('and', 'And'), ('or', 'Or'), ('xor', 'Xor'), ('shl', 'Shl'), ('shr_s', 'ShrS'),
       ('shr_u', 'ShrU'), ('rotl', 'Rotl'), ('rotr', 'Rotr')]
UN = [('clz', 'Clz'), ('ctz', 'Ctz'), ('popcnt', 'Popcnt'), ('extend8_s', 'Ext8S'), ('extend16_s', 'Ext16S'),
      ('extend32_s', 'Ext32S')]
REL = [('eq', 'Eq'), ('ne', 'Ne'), ('lt_s', 'LtS'), ('lt_u', 'LtU'), ('gt_s', 'GtS'), ('gt_u', 'GtU'),
       ('le_s', 'LeS'), ('le_u', 'LeU'), ('ge_s', 'GeS'), ('ge_u', 'GeU')]


def all_ops():
    """[(wasm opcode, Coq wop term, [operand types], result type)]"""
    out = []
    for w in (32, 64):
        t = 'i%d' % w
        for n, c in BIN:
            out.append(('%s.%s' % (t, n), 'Bin W%d %s' % (w, c), [t, t], t))
        for n, c in UN:
            if w == 32 and n == 'extend32_s':
                continue
            out.append(('%s.%s' % (t, n), 'Un W%d %s' % (w, c), [t], t))
        out.append(('%s.eqz' % t, 'Eqz W%d' % w, [t], 'i32'))
        for n, c in REL:
            out.append(('%s.%s' % (t, n), 'Rel W%d %s' % (w, c), [t, t], 'i32'))
    out.append(('i32.wrap_i64', 'WrapI64', ['i64'], 'i32'))
    out.append(('i64.extend_i32_s', 'ExtendI32S', ['i32'], 'i64'))
    out.append(('i64.extend_i32_u', 'ExtendI32U', ['i32'], 'i64'))
    return out


def fname(op):
    return 'f_' + op.replace('.', '_')


def module_text(ops):
    funcs = []
    for op, _c, tys, res in ops:
        params = ' '.join('(param %s)' % t for t in tys)
        gets = ' '.join('(local.get %d)' % i for i in range(len(tys)))
        funcs.append('(func $%s (export "%s") %s (result %s) %s (%s))' % (fname(op), fname(op), params, res, gets, op))
    return '(module\n' + '\n'.join(funcs) + ')'


# ---------------------------------------------------------------- tie I: export opcode -> IR program
class ExportError(Exception):
    pass


BOP = {'+': 'OAdd', '-': 'OSub', '*': 'OMul', '/': 'ODiv', '%': 'ORem', '&': 'OAnd', '|': 'OOr', '^': 'OXor',
       '<<': 'OShl', '>>': 'OShr'}
COP = {'==': 'CEq', '!=': 'CNe', '<': 'CLt', '>': 'CGt', '<=': 'CLe', '>=': 'CGe'}
RTFNS = {e['name'] for e in RT_ENTRIES}


def ity(ty):
    if not getattr(ty, 'is_integer', False):
        raise ExportError('non-integer IR type %s' % ty)
    return '(Ity %d %s)' % (ty.bits, 'true' if ty.signed else 'false')


def extract_prog(fn):
    """symbolic walk over the IR of a one-instruction wasm function: returns ([iins text], result index).
    Locals (alloc/&/store/load), jumps and single-input phis are resolved; the CJump/Const 1/Const 0/Phi diamond
    emitted by wasm2ppci for comparisons becomes ICmp. Anything else: ExportError (fail closed)."""
    from ppci import ir
    env, mem, prog = {}, {}, []
    nvals = len(fn.arguments)
    for i, a in enumerate(fn.arguments):
        env[a] = i
    block, prev = fn.entry, None
    for _ in range(50):
        nxt = None
        for ins in block:
            if isinstance(ins, ir.Phi):
                if ins in env:
                    continue
                if prev not in ins.inputs:
                    raise ExportError('phi without input for predecessor')
                env[ins] = env[ins.inputs[prev]]
            elif isinstance(ins, ir.Alloc):
                pass
            elif isinstance(ins, ir.AddressOf):
                pass
            elif isinstance(ins, ir.Store):
                mem[ins.address] = env[ins.value]
            elif isinstance(ins, ir.Load):
                env[ins] = mem[ins.address]
            elif isinstance(ins, ir.Const):
                prog.append('IConst %s %s' % (ity(ins.ty), to_term(int(ins.value))))
                env[ins] = nvals
                nvals += 1
            elif isinstance(ins, ir.Cast):
                prog.append('ICast %s %d%%nat' % (ity(ins.ty), env[ins.src]))
                env[ins] = nvals
                nvals += 1
            elif isinstance(ins, ir.Binop):
                prog.append('IBinop %s %s %d%%nat %d%%nat' % (BOP[ins.operation], ity(ins.ty), env[ins.a], env[ins.b]))
                env[ins] = nvals
                nvals += 1
            elif isinstance(ins, ir.FunctionCall):
                name = ins.callee.name
                if not (name.startswith('wasm_rt_') and name[8:] in RTFNS):
                    raise ExportError('call of %s' % name)
                prog.append('ICall Rt_%s [%s]' % (name[8:], '; '.join('%d%%nat' % env[a] for a in ins.arguments)))
                env[ins] = nvals
                nvals += 1
            elif isinstance(ins, ir.Jump):
                nxt = ins.target
            elif isinstance(ins, ir.CJump):
                yes, no = ins.lab_yes, ins.lab_no
                yi, ni = list(yes), list(no)
                ok = (len(yi) == 2 and len(ni) == 2 and isinstance(yi[0], ir.Const) and isinstance(ni[0], ir.Const)
                      and yi[0].value == 1 and ni[0].value == 0 and yi[0].ty is ir.i32 and ni[0].ty is ir.i32
                      and isinstance(yi[1], ir.Jump) and isinstance(ni[1], ir.Jump) and yi[1].target is ni[1].target)
                if not ok:
                    raise ExportError('unrecognised conditional')
                join = yi[1].target
                phis = [p for p in join if isinstance(p, ir.Phi)]
                if len(phis) != 1 or phis[0].inputs.get(yes) is not yi[0] or phis[0].inputs.get(no) is not ni[0]:
                    raise ExportError('unrecognised conditional join')
                prog.append('ICmp %s %d%%nat %d%%nat' % (COP[ins.cond], env[ins.a], env[ins.b]))
                env[phis[0]] = nvals
                nvals += 1
                prev, nxt = yes, join
                block = None
            elif isinstance(ins, ir.Return):
                return prog, env[ins.result]
            else:
                raise ExportError('unsupported IR instruction %s' % type(ins).__name__)
            if nxt is not None:
                break
        if nxt is None:
            raise ExportError('block without terminator')
        if block is not None:
            prev = block
        block = nxt
    raise ExportError('too many blocks')


def export_irmap(ctx):
    from ppci.wasm import Module
    from ppci.wasm.wasm2ppci import wasm_to_ir
    from ppci.arch.arch_info import TypeInfo
    ops = all_ops()
    try:
        m = Module(module_text(ops))
        irm = wasm_to_ir(m, TypeInfo(4, 4))      # as python_instantiate does
        fns = {f.name: f for f in irm.functions}
        rows, defs = [], []
        table = {}
        for op, cterm, _tys, _res in ops:
            prog, res = extract_prog(fns[fname(op)])
            table[op] = (prog, res)
            defs.append('Definition p_%s : irprog := ([%s], %d%%nat).' % (fname(op)[2:], '; '.join(prog), res))
            rows.append('  (%s, p_%s)' % (cterm, fname(op)[2:]))
    except ExportError as ex:
        ctx.log('cannot export the opcode -> IR table:', ex)
        ctx.failed_stages.append(('export', 'wasm2ppci IR for %s: %s' % (op, ex)))
        raise TieBroken(str(ex))
    except Exception as ex:   # noqa: BLE001  compiler crashed on a one-instruction module
        ctx.log('wasm_to_ir failed:', repr(ex))
        ctx.failed_stages.append(('export', 'wasm_to_ir failed: %r' % (ex,)))
        raise TieBroken(repr(ex))
    text = ('(* GENERATED by tools/props/c22.py: IR emitted by ppci/wasm/wasm2ppci.py for one-instruction functions '
            '— do not edit; regenerated on every check run *)\n'
            'From PV Require Import Lib.Py Spec.WasmNumSpec Model.WasmIr.\nOpen Scope Z_scope.\n\n'
            + '\n'.join(defs) + '\n\n'
            'Definition table : list (wop * irprog) := [\n' + ';\n'.join(rows) + '\n].\n'
            + '\n(* the specification as a [result] (None = trap), for the oracle cross-check of the check module *)\n'
            'Definition spec_run (o : wop) (args : list Z) : result Z :=\n'
            '  match wop_sem_signed o args with Some r => Ok r | None => Internal ZeroDiv end.\n')
    ctx.write_gen('wasm_irmap', text)
    ctx.cov['stages']['gen_wasm_irmap'] = {'opcodes': len(rows)}
    return table


def irpy_runtime_source():
    """the five static methods of class IrPy, as emitted by the current ir2py, as top-level functions"""
    from ppci.lang.python.ir2py import irpy_runtime_code
    f = io.StringIO()
    irpy_runtime_code(f)
    lines = f.getvalue().split('\n')
    want = [e['name'] for e in IRPY_ENTRIES]
    out, i = {}, 0
    while i < len(lines):
        m = re.match(r'    def (\w+)\(', lines[i])
        if m and m.group(1) in want and i > 0 and lines[i - 1].strip() == '@staticmethod':
            j, blk = i + 1, [lines[i]]
            while j < len(lines) and (lines[j].startswith('        ') or not lines[j].strip()):
                blk.append(lines[j])
                j += 1
            out[m.group(1)] = textwrap.dedent('\n'.join(blk)).rstrip() + '\n'
            i = j
        else:
            i += 1
    missing = [n for n in want if n not in out]
    if missing:
        raise TieBroken('IrPy runtime no longer defines static methods %s' % missing)
    return '\n\n'.join(out[n] for n in want)


def regen(ctx):
    import importlib
    c39 = importlib.import_module('props.c39')
    bf_infos, _ = c39.regen(ctx)                      # Gen/bitfun.v (same text as C39 writes)
    rt_infos, _ = ctx.gen_T('wasm_runtime', 'ppci/wasm/execution/runtime.py', RT_ENTRIES,
                            imports=('From PV Require Import Gen.bitfun.',), known=bf_infos)
    try:
        src = irpy_runtime_source()
    except TieBroken as ex:
        ctx.failed_stages.append(('translate', str(ex)))
        raise
    os.makedirs(ctx.work, exist_ok=True)
    tmp = os.path.join(ctx.work, 'irpy_rt_extracted.py')
    with open(tmp, 'w') as f:
        f.write(src)
    irpy_infos, _ = ctx.gen_T('irpy_rt', tmp, IRPY_ENTRIES)
    table = export_irmap(ctx)
    return rt_infos, irpy_infos, table


# ---------------------------------------------------------------- terms
def zt(v):
    return to_term(int(v))


def wrapt(t):
    return t if not t.startswith('-') else '(%s)' % t


def zlist(args):
    return '[%s]' % '; '.join(zt(a) for a in args)


def replay_cmd(op, args, tys, res, target='python'):
    params = ' '.join('(param %s)' % t for t in tys)
    gets = ' '.join('(local.get %d)' % i for i in range(len(tys)))
    src = '(module (func $f (export "f") %s (result %s) %s (%s)))' % (params, res, gets, op)
    return ('PYTHONPATH=%s /venv/bin/python -c "from ppci.wasm import Module, instantiate; '
            'print(instantiate(Module(\'%s\'), {}, target=\'%s\').exports.f(%s))"'
            % (REPO, src, target, ', '.join(repr(a) for a in args)))


# ---------------------------------------------------------------- search: implementation vs independent oracle
def search_integer(ctx, deep, target='python', inst=None):
    """every integer opcode x boundary operand tuples through the real target vs the Python oracle"""
    from props import c22_exec as X
    ops = all_ops()
    if inst is None:
        try:
            inst = X.instantiate_ops(module_text(ops), target)
        except Exception as ex:   # noqa: BLE001
            ctx.log('instantiate(target=%r) failed: %r' % (target, ex))
            ctx.violation({'fn': 'instantiate', 'args': [target], 'what': 'instantiation of the one-instruction '
                           'module failed: %r' % (ex,)})
            return 0
    n = 0
    per_op = None if deep else 160
    for op, _c, tys, res in ops:
        reported = 0
        for args in X.operand_tuples(op, tys, ctx.rng, per_op):
            exp = X.oracle(op, list(args))
            if target != 'python' and (exp == 'trap' or (op.endswith('rem_s') and args[1] == -1)):
                continue          # a native trap (also x86 idiv for MIN rem -1) is a hardware exception: kills this process
            got = X.run_export(inst, fname(op), args)
            n += 1
            ok = (got[0] == 'trap') if exp == 'trap' else (got[0] == 'ok' and got[1] == exp)
            if not ok and reported < 3:
                reported += 1
                ctx.violation({'fn': op, 'args': list(args), 'target': target, 'expected': exp,
                               'actual': got[1] if got[0] == 'ok' else '%s (%s)' % got,
                               'how_to_replay': replay_cmd(op, args, tys, res, target)})
    ctx.cov['stages']['search_%s' % target] = n
    ctx.cov['evaluations'] += n
    return n


def float_tests(ctx):
    """fixed boundary pool, TESTS only (no proof): trunc / trunc_sat / nearest / trunc / ceil / floor / min / max"""
    from props import c22_exec as X
    try:
        inst = X.instantiate_ops(X.float_module_text(), 'python')
    except Exception as ex:   # noqa: BLE001
        ctx.violation({'fn': 'instantiate', 'args': ['float module'], 'what': repr(ex)})
        return
    n = bad = 0
    for op, bits in X.float_cases():
        xs = [X.f64_of(b) for b in bits]
        exp = X.float_oracle(op, xs)
        got = X.run_export(inst, op.replace('.', '_'), xs)
        n += 1
        if not X.float_check(got, exp):
            bad += 1
            act = got[1] if got[0] != 'ok' else (hex(X.bits_of(got[1])) if isinstance(got[1], float) else got[1])
            ctx.violation({'fn': op, 'args': ['0x%016x' % b for b in bits], 'kind': 'float-test',
                           'expected': 'trap' if exp[0] == 'trap' else ('NaN' if exp[0] == 'nan' else
                                                                        (hex(exp[1]) if op[0] == 'f' else exp[1])),
                           'actual': act if got[0] == 'ok' else '%s: %s' % (got[0], act)})
    ctx.cov['stages']['float_tests'] = {'cases': n, 'failing': bad, 'note': 'tests on a fixed pool, not proofs'}
    ctx.cov['evaluations'] += n


def search(ctx):
    from vlib import ensure_repo_on_path
    ensure_repo_on_path()
    search_integer(ctx, True, 'python')
    float_tests(ctx)
    memory_tests(ctx, False)


def memory_tests(ctx, quick):
    """linear memory + globals on the python target vs an independent reference: VALIDATION ONLY (no proof)"""
    from props import c22_mem, c22_cmp
    try:
        c22_mem.memory_stage(ctx, quick)
    except Exception as ex:   # noqa: BLE001
        ctx.log('memory/globals stage crashed: %r' % (ex,))
        ctx.failed_stages.append(('memory_search', repr(ex)))
    # comparisons (int signed/unsigned, f32/f64 with NaN, +-0, +-inf) x consumers (eqz, br_if, if, select, local reuse ...):
    # wasm2ppci fuses a pending comparison with its consumer.  VALIDATION ONLY.
    try:
        c22_cmp.cmp_stage(ctx)
    except Exception as ex:   # noqa: BLE001
        ctx.log('comparison/consumer stage crashed: %r' % (ex,))
        ctx.failed_stages.append(('cmp_search', repr(ex)))


# ---------------------------------------------------------------- correspondence
def helper_cases(ctx, rt_infos):
    """Gen.wasm_runtime vs ppci.wasm.execution.runtime"""
    from props import c22_exec as X
    import ppci.wasm.execution.runtime as rtm
    cases, recs = [], []
    for ent in RT_ENTRIES:
        name = ent['name']
        fn = getattr(rtm, name)
        n = 32 if name.startswith('i32') else 64
        pool = X.value_pool(n, ctx.rng, 2)
        fuel = 'FUEL ' if getattr(rt_infos[name], 'uses_fuel', False) else ''
        if 'rot' in name:
            tuples = [(a, b) for a in pool[:9] + pool[-2:] for b in (0, 1, n - 1, n, n + 1, -1, -n, 2 * n + 1, pool[-1])]
        else:
            tuples = [(a,) for a in pool[:12] + pool[12::2]]
        for args in tuples:
            out = call_impl(fn, list(args), diag=())
            cases.append(('wasm_runtime.%s %s%s' % (name, fuel, ' '.join(wrapt(zt(a)) if zt(a)[0] != '(' else zt(a)
                                                                        for a in args)), out))
            recs.append((name, args, out))
    return cases, recs


def irpy_cases(ctx):
    """Gen.irpy_rt vs the IrPy class that the python target really uses"""
    from ppci.wasm.execution._python_instance import get_irpy_rt
    cls = get_irpy_rt().IrPy
    vals = [0, 1, -1, 2, -2, 7, -7, 31, 32, 33, 63, 64, 65, -32, -64, 2 ** 31 - 1, -2 ** 31, 2 ** 31, 2 ** 32 - 1, 2 ** 32,
            2 ** 63 - 1, -2 ** 63, 2 ** 64 - 1, ctx.rng.randrange(-2 ** 63, 2 ** 63)]
    cases, recs = [], []
    for v in vals:
        for bits in (32, 64):
            for sg in (True, False):
                out = call_impl(cls.correct, [v, bits, sg], diag=())
                cases.append(('irpy_rt.correct %s %d %s' % (zt(v), bits, 'true' if sg else 'false'), out))
                recs.append(('correct', (v, bits, sg), out))
    small = [0, 1, -1, 2, 7, -7, 2 ** 31 - 1, -2 ** 31, 2 ** 32 - 1, -2 ** 63, vals[-1]]
    for a in small:
        for b in small:
            for nm in ('idiv', 'irem'):
                out = call_impl(getattr(cls, nm), [a, b], diag=())
                cases.append(('irpy_rt.%s %s %s' % (nm, zt(a), zt(b)), out))
                recs.append((nm, (a, b), out))
    for a in small:
        for c in (0, 1, 31, 32, 33, 63, 64, 65, -1, -33, 2 ** 32 - 1):
            for bits in (32, 64):
                for nm in ('ishl', 'ishr'):
                    out = call_impl(getattr(cls, nm), [a, c, bits], diag=())
                    cases.append(('irpy_rt.%s %s %s %d' % (nm, zt(a), zt(c), bits), out))
                    recs.append((nm, (a, c, bits), out))
    return cases, recs


def end_to_end_cases(ctx, inst, per_op):
    """(1) Model.py_run over the exported IR  vs  the real python target;
       (2) Spec.wop_sem_signed                 vs  the independent Python oracle used by the search"""
    from props import c22_exec as X
    model_cases, spec_cases, recs = [], [], []
    for op, cterm, tys, _res in all_ops():
        for args in X.operand_tuples(op, tys, ctx.rng, per_op)[:per_op if len(tys) == 2 else None]:
            got = X.run_export(inst, fname(op), args)
            out = OkV(got[1]) if got[0] == 'ok' else Internal     # WasmTrapException <- ZeroDivisionError
            model_cases.append(('py_run FUEL p_%s %s' % (fname(op)[2:], zlist(args)), out))
            exp = X.oracle(op, list(args))
            spec_cases.append(('spec_run (%s) %s' % (cterm, zlist(args)), Internal if exp == 'trap' else OkV(exp)))
            recs.append((op, args, got))
    return model_cases, spec_cases, recs


CASE_TIMEOUT = 150
MEM_TARGETS = ['Proofs/C22_mem.vo', 'Proofs/C22_mem_fixed.vo', 'Proofs/C22_grow_fixed.vo']      # proofs about the memory model Model/WasmMem.v

KNOWN_OVERFLOW = [('i32.div_s', [-2 ** 31, -1], ['i32', 'i32'], 'i32'), ('i64.div_s', [-2 ** 63, -1], ['i64', 'i64'], 'i64')]


def run(ctx):
    from props import c22_exec as X
    rt_infos, _irpy_infos, table = regen(ctx)
    ok, _ = ctx.build(['Proofs/C22_table.vo', 'Proofs/C22_irread.vo'] + MEM_TARGETS)
    if ok:
        ctx.check_props('Props/C22.v')
        ctx.check_props('Props/C22_mem.v')
    if ctx.build(['Model/WasmMem.vo', 'Lib/Val.vo'])[0]:
        from props import c22_mem
        try:
            c22_mem.model_correspondence(ctx, CASE_TIMEOUT)
        except Exception as ex:   # noqa: BLE001
            ctx.log('memory model correspondence crashed: %r' % (ex,))
            ctx.failed_stages.append(('correspondence', 'memory model correspondence crashed: %r' % (ex,)))
    inst = None
    try:
        inst = X.instantiate_ops(module_text(all_ops()), 'python')
    except Exception as ex:   # noqa: BLE001
        ctx.log('instantiate failed: %r' % (ex,))
        ctx.failed_stages.append(('instantiate', repr(ex)))
    # ---- correspondence
    if ctx.build(['Gen/wasm_runtime.vo', 'Gen/irpy_rt.vo', 'Gen/wasm_irmap.vo', 'Model/WasmIr.vo', 'Lib/Val.vo'])[0]:
        cases, recs = helper_cases(ctx, rt_infos)
        # short timeouts: a model that lost a shift-count mask makes Z.shiftl/Z.shiftr iterate 2^63 times
        bad = ctx.run_cases('rt_helpers', ['Gen.wasm_runtime'], cases, timeout=CASE_TIMEOUT)
        if bad:
            ctx.failed_stages.append(('correspondence', 'Gen.wasm_runtime disagrees with runtime.py on %d cases, first: %s%r'
                                      % (len(bad), recs[bad[0]][0], recs[bad[0]][1])))
        cases2, recs2 = irpy_cases(ctx)
        bad = ctx.run_cases('irpy_rt', ['Gen.irpy_rt'], cases2, timeout=CASE_TIMEOUT)
        if bad:
            ctx.failed_stages.append(('correspondence', 'Gen.irpy_rt disagrees with the IrPy runtime on %d cases, first: %s%r'
                                      % (len(bad), recs2[bad[0]][0], recs2[bad[0]][1])))
        ctx.cov['stages']['correspondence_T'] = {'runtime_helpers': len(cases), 'irpy_runtime': len(cases2)}
        if inst is not None:
            per_op = 26 if ctx.quick() else 120
            mc, sc, recs3 = end_to_end_cases(ctx, inst, per_op)
            bad = ctx.run_cases('py_run', ['Spec.WasmNumSpec', 'Model.WasmIr', 'Gen.wasm_irmap'], mc,
                                timeout=CASE_TIMEOUT)
            if bad:
                ctx.failed_stages.append(('correspondence', 'Model.py_run over the exported IR disagrees with the python '
                                          'target on %d cases, first: %s%r' % (len(bad), recs3[bad[0]][0], recs3[bad[0]][1])))
            bad = ctx.run_cases('spec_oracle', ['Spec.WasmNumSpec', 'Model.WasmIr', 'Gen.wasm_irmap'], sc,
                                timeout=CASE_TIMEOUT)
            if bad:
                ctx.failed_stages.append(('oracle', 'the Python search oracle disagrees with Spec/WasmNumSpec.v on %d '
                                          'cases, first: %s%r' % (len(bad), recs3[bad[0]][0], recs3[bad[0]][1])))
            seen = set()
            for op, args, got in recs3:
                if any(args) and got[0] in ('ok', 'trap'):
                    seen.add((op, tuple(args)))
            ctx.cov['distinct_nontrivial'] += len(seen)
            dist = {'ok': 0, 'trap': 0, 'exc': 0}
            for _op, _a, got in recs3:
                dist[got[0]] += 1
            ctx.cov['stages']['end_to_end_distribution'] = dist
            for r in recs3[:: max(1, len(recs3) // 8)]:
                ctx.note_sample({'op': r[0], 'args': repr(r[1]), 'impl': repr(r[2])})
    # ---- search (always; deep when something failed or thorough): implementation vs independent oracle
    deep = (not ctx.quick()) or bool(ctx.failed_stages)
    if inst is not None:
        search_integer(ctx, deep, 'python', inst)
    # known finding re-executed on every run: iN.div_s MIN -1 must trap
    if inst is not None:
        for op, args, tys, res in KNOWN_OVERFLOW:
            got = X.run_export(inst, fname(op), args)
            if got[0] != 'trap':
                ctx.violation({'fn': op, 'args': list(args), 'target': 'python', 'expected': 'trap',
                               'actual': got[1] if got[0] == 'ok' else '%s (%s)' % got,
                               'how_to_replay': replay_cmd(op, args, tys, res)})
    float_tests(ctx)
    memory_tests(ctx, ctx.quick())
    if not ctx.quick():
        try:
            search_integer(ctx, False, 'native')
        except Exception as ex:   # noqa: BLE001
            ctx.log('native target search skipped: %r' % (ex,))
    ctx.cov['exhaustive'] = False


MANIFEST = {
    'text': 'PARTIAL (integer numeric core proved, the rest tested). Coq theorems, unbounded over all operands: the 15 integer '
            'helpers of wasm/execution/runtime.py (rotl/rotr/clz/ctz/popcnt/extendN_s for i32 and i64) equal the WebAssembly '
            'integer operators; the IR that wasm2ppci emits for each of the 66 integer numeric opcodes (table exported from the '
            'real compiler on every run and proved equal to the expected shapes) evaluates, under the python-target semantics '
            '(ir2py text + translated IrPy runtime), to the specification value whenever the specification does not trap, and '
            'raises ZeroDivisionError (= WasmTrapException) for divisor 0; the same IR under the target-independent reading '
            '(ir_run) equals the specification wherever shift counts are in [0,N), and is undefined exactly for the unmasked '
            'counts. Linear memory of the python target (hand model of the IrPy memory builtins, PythonMemoryInstance and the '
            'wasm2ppci address computation): integer loads/stores of every width and signedness, out-of-bounds raising for '
            'addresses < 2^31, data segments, memory.size/grow are proved equal to Spec/WasmMemSpec.v. Refuted and recorded as '
            'known findings: iN.div_s MIN/-1 returns MIN instead of trapping; addresses >= 2^31 are not trapped (fix diff '
            'provided); memory.grow with operand >= 2^31 raises ValueError. Control flow, calls, tables, globals, floats (incl. '
            'float loads/stores) and the native target are NOT '
            'proved: integer opcodes are executed end to end through instantiate(target=python) (native in the thorough tier) '
            'against an independent oracle, and float trunc/nearest/min/max/ceil/floor run on a fixed boundary pool as TESTS; '
            'their failures (NaN -> ValueError, out-of-range trunc not trapping, lost -0.0/NaN) are known findings. Linear '
            'memory and globals on the python target (memory.size/grow limits, all load/store widths at the bounds, data '
            'segments, global get/set, multi-step sequences, final memory image) are checked by a search-only differential '
            'stage against an independent reference, as are all integer and float comparisons (NaN, +-0, +-inf) alone and '
            'fused with their consumers (eqz, br_if, if/else, select, local reuse): validation, NOT proof; out-of-bounds '
            'accesses abort with AssertionError '
            '(accepted as trap); addresses >= 2^31 are not trapped (known finding).',
    'note': 'trusted: Coq kernel; tools/py2coq.py; the IR table exporter and the hand model Model/WasmIr.v of what ir2py emits for '
            'Binop/Cast/CJump/Const/FunctionCall (both cross-checked per run by executing the real python target on ~2600 '
            'boundary cases); reading of the WebAssembly spec in Spec/WasmNumSpec.v (cross-checked against an independent '
            'Python oracle). Shift counts >= N rely on IrPy.ishl/ishr masking (proved for the python target); the '
            'target-independent IR gives no meaning to such shifts and wasm2ppci does not mask. No axioms.',
    'technique': 'Coq proof over py2coq-regenerated helpers + exported opcode->IR table; differential tests for the rest',
}
