"""Independent Python implementation of coq/Spec/CIntSpec.v (C11 integer constant expressions and
#if arithmetic), expression generators and renderers shared by c27.py and c26.py.

Expression trees:  ('lit', ty, v) | ('cast', ty, e) | ('un', op, e) | ('bin', op, a, b) | ('cond', c, a, b)
types: 'char' 'uchar' 'short' 'ushort' 'int' 'uint' 'long' 'ulong' 'llong' 'ullong'
A data model is a dict {'char': bits, 'short':…, 'int':…, 'long':…, 'llong':…, 'char_signed': bool}.
"""
import os
import subprocess
import tempfile

TYPES = ['char', 'uchar', 'short', 'ushort', 'int', 'uint', 'long', 'ulong', 'llong', 'ullong']
COQ_T = {'char': 'TChar', 'uchar': 'TUChar', 'short': 'TShort', 'ushort': 'TUShort', 'int': 'TInt',
         'uint': 'TUInt', 'long': 'TLong', 'ulong': 'TULong', 'llong': 'TLLong', 'ullong': 'TULLong'}
C_T = {'char': 'signed char', 'uchar': 'unsigned char', 'short': 'short', 'ushort': 'unsigned short',
       'int': 'int', 'uint': 'unsigned int', 'long': 'long', 'ulong': 'unsigned long',
       'llong': 'long long', 'ullong': 'unsigned long long'}
BASE = {'char': 'char', 'uchar': 'char', 'short': 'short', 'ushort': 'short', 'int': 'int', 'uint': 'int',
        'long': 'long', 'ulong': 'long', 'llong': 'llong', 'ullong': 'llong'}
RANK = {'char': 1, 'short': 2, 'int': 3, 'long': 4, 'llong': 5}
UNOPS = {'-': 'UNeg', '~': 'UCompl', '!': 'ULNot', '+': 'UPlus'}
BINOPS = {'+': 'BAdd', '-': 'BSub', '*': 'BMul', '/': 'BDiv', '%': 'BMod', '<<': 'BShl', '>>': 'BShr',
          '&': 'BAnd', '|': 'BOr', '^': 'BXor', '<': 'BLt', '>': 'BGt', '<=': 'BLe', '>=': 'BGe',
          '==': 'BEq', '!=': 'BNe', '&&': 'BLAnd', '||': 'BLOr'}
CMP = ('<', '>', '<=', '>=', '==', '!=')
DM_LP64 = {'char': 8, 'short': 16, 'int': 32, 'long': 64, 'llong': 64, 'char_signed': True}
DM_PP = {'char': 8, 'short': 16, 'int': 64, 'long': 64, 'llong': 64, 'char_signed': True}


def coq_dm(dm):
    return '(mkdm %d %d %d %d %d %s)' % (dm['char'], dm['short'], dm['int'], dm['long'], dm['llong'],
                                         'true' if dm['char_signed'] else 'false')


def signed(dm, t):
    return dm['char_signed'] if t == 'char' else not t.startswith('u')


def nbits(dm, t):
    return dm[BASE[t]]


def rank(t):
    return RANK[BASE[t]]


def limits(dm, t):
    n = nbits(dm, t)
    return (-(1 << (n - 1)), (1 << (n - 1)) - 1) if signed(dm, t) else (0, (1 << n) - 1)


def fits(dm, t, v):
    lo, hi = limits(dm, t)
    return lo <= v <= hi


def convert(dm, t, v):
    n = nbits(dm, t)
    v &= (1 << n) - 1
    if signed(dm, t) and v >> (n - 1):
        v -= 1 << n
    return v


def promote(dm, t):
    if rank(t) >= 3:
        return t
    lo, hi = limits(dm, t)
    return 'int' if fits(dm, 'int', lo) and fits(dm, 'int', hi) else 'uint'


def uac(dm, a, b):
    if a == b:
        return a
    sa, sb = signed(dm, a), signed(dm, b)
    if sa == sb:
        return a if rank(a) >= rank(b) else b
    u, s = (b, a) if sa else (a, b)
    if rank(u) >= rank(s):
        return u
    if fits(dm, s, limits(dm, u)[1]):
        return s
    return 'u' + s


def type_of(dm, e):
    k = e[0]
    if k in ('lit', 'cast'):
        return e[1]
    if k == 'un':
        return 'int' if e[1] == '!' else promote(dm, type_of(dm, e[2]))
    if k == 'bin':
        op = e[1]
        if op in CMP or op in ('&&', '||'):
            return 'int'
        if op in ('<<', '>>'):
            return promote(dm, type_of(dm, e[2]))
        return uac(dm, promote(dm, type_of(dm, e[2])), promote(dm, type_of(dm, e[3])))
    if k == 'cond':
        return uac(dm, promote(dm, type_of(dm, e[2])), promote(dm, type_of(dm, e[3])))
    raise ValueError(k)


def tdiv(a, b):
    q = abs(a) // abs(b)
    return q if (a >= 0) == (b >= 0) else -q


def ev(dm, e):
    """value of e, or None for undefined behaviour / not a valid constant expression"""
    k = e[0]
    if k == 'lit':
        return e[2] if fits(dm, e[1], e[2]) else None
    if k == 'cast':
        v = ev(dm, e[2])
        return None if v is None else convert(dm, e[1], v)
    if k == 'un':
        v = ev(dm, e[2])
        if v is None:
            return None
        if e[1] == '!':
            return int(v == 0)
        t = promote(dm, type_of(dm, e[2]))
        if e[1] == '+':
            return v
        if e[1] == '~':
            return convert(dm, t, ~v)
        r = -v
        if signed(dm, t):
            return r if fits(dm, t, r) else None
        return convert(dm, t, r)
    if k == 'cond':
        c = ev(dm, e[1])
        if c is None:
            return None
        v = ev(dm, e[2] if c != 0 else e[3])
        return None if v is None else convert(dm, type_of(dm, e), v)
    op, a, b = e[1], e[2], e[3]
    va = ev(dm, a)
    if va is None:
        return None
    if op == '&&':
        if va == 0:
            return 0
        vb = ev(dm, b)
        return None if vb is None else int(vb != 0)
    if op == '||':
        if va != 0:
            return 1
        vb = ev(dm, b)
        return None if vb is None else int(vb != 0)
    vb = ev(dm, b)
    if vb is None:
        return None
    ta, tb = promote(dm, type_of(dm, a)), promote(dm, type_of(dm, b))
    if op in ('<<', '>>'):
        if vb < 0 or vb >= nbits(dm, ta):
            return None
        if op == '>>':
            return va >> vb
        if signed(dm, ta):
            if va < 0:
                return None
            r = va << vb
            return r if fits(dm, ta, r) else None
        return convert(dm, ta, va << vb)
    t = uac(dm, ta, tb)
    x, y = convert(dm, t, va), convert(dm, t, vb)
    if op in CMP:
        return int({'<': x < y, '>': x > y, '<=': x <= y, '>=': x >= y, '==': x == y, '!=': x != y}[op])
    if op in ('/', '%'):
        if y == 0:
            return None
        q = tdiv(x, y)
        if signed(dm, t) and not fits(dm, t, q):
            return None
        r = q if op == '/' else x - q * y
    else:
        r = {'+': x + y, '-': x - y, '*': x * y, '&': x & y, '|': x | y, '^': x ^ y}[op]
    if signed(dm, t):
        return r if fits(dm, t, r) else None
    return convert(dm, t, r)


# ------------------------------------------------------------------ ppci's typing (semantics.py), to classify
PPCI_RANK = {'char': 30, 'uchar': 31, 'short': 40, 'ushort': 41, 'int': 50, 'uint': 51, 'long': 60,
             'ulong': 61, 'llong': 70, 'ullong': 71}


def ppci_promote(dm, t):
    """CSemantics.promote (c83990b): unsigned int when the unsigned source type is as wide as int"""
    if rank(t) >= 3:
        return t
    return 'uint' if (not signed(dm, t)) and nbits(dm, t) >= dm['int'] else 'int'


def ppci_common(dm, a, b):
    """CSemantics._get_common_integer_type (c83990b)"""
    r1, r2 = PPCI_RANK[a] // 10, PPCI_RANK[b] // 10
    if signed(dm, a) == signed(dm, b):
        return b if r2 > r1 else a
    (s, sr, u, ur) = (a, r1, b, r2) if signed(dm, a) else (b, r2, a, r1)
    if ur >= sr:
        return u
    if nbits(dm, s) > nbits(dm, u):
        return s
    return {'char': 'uchar', 'short': 'ushort', 'int': 'uint', 'long': 'ulong', 'llong': 'ullong'}[s]


def sema_agrees(dm, e):
    """True when ppci's expression typing (semantics.py with fixes/C27-sema-promotions.diff and c83990b) coincides with
    C's on every node of e (the fragment of theorem c27_eval_exact_partial; mirrors Model/CSema.sema_agrees)"""
    def pa(x):   # promotion agrees
        t = type_of(dm, x)
        return ppci_promote(dm, t) == promote(dm, t)
    def ca(x, y):   # common type agrees
        tx, ty = type_of(dm, x), type_of(dm, y)
        return pa(x) and pa(y) and ppci_common(dm, ppci_promote(dm, tx), ppci_promote(dm, ty)) == uac(dm, promote(dm, tx), promote(dm, ty))
    k = e[0]
    if k == 'lit':
        return True
    if k == 'cast':
        return sema_agrees(dm, e[2])
    if k == 'un':
        return sema_agrees(dm, e[2]) and (e[1] == '!' or pa(e[2]))
    if k == 'cond':
        return all(sema_agrees(dm, x) for x in e[1:]) and ca(e[2], e[3])
    op, a, b = e[1], e[2], e[3]
    if not (sema_agrees(dm, a) and sema_agrees(dm, b)):
        return False
    if op in ('&&', '||'):
        return True
    if op in ('<<', '>>'):
        return pa(a) and pa(b)
    return ca(a, b)


# ------------------------------------------------------------------ rendering
def c_lit(dm, t, v, pp=False):
    """a C integer constant (possibly a parenthesised negation / cast) of type t and value v"""
    if pp:
        s = str(abs(v)) + ('u' if t == 'ullong' else '')
        return '(-%s)' % s if v < 0 else s
    suffix = {'int': '', 'uint': 'u', 'long': 'l', 'ulong': 'ul', 'llong': 'll', 'ullong': 'ull'}
    if rank(t) < 3:
        return '((%s)%s)' % (C_T[t], c_lit(dm, 'int' if fits(dm, 'int', v) else 'uint', v))
    if v < 0:
        # INT_MIN and friends have no literal: (-MAX - 1)
        if v == limits(dm, t)[0]:
            return '(-%d%s - 1)' % (-v - 1, suffix[t])
        return '(-%d%s)' % (-v, suffix[t])
    return '%d%s' % (v, suffix[t])


def render(dm, e, pp=False):
    k = e[0]
    if k == 'lit':
        return c_lit(dm, e[1], e[2], pp)
    if k == 'cast':
        return '((%s)%s)' % (C_T[e[1]], render(dm, e[2], pp))
    if k == 'un':
        return '(%s %s)' % (e[1], render(dm, e[2], pp))
    if k == 'bin':
        return '(%s %s %s)' % (render(dm, e[2], pp), e[1], render(dm, e[3], pp))
    return '(%s ? %s : %s)' % tuple(render(dm, x, pp) for x in e[1:])


def lit_tree(dm, t, v):
    """the expression tree that c_lit(dm, t, v) parses to (literals are non-negative in C)"""
    if rank(t) < 3:
        return ('cast', t, lit_tree(dm, 'int' if fits(dm, 'int', v) else 'uint', v))
    if v < 0:
        if v == limits(dm, t)[0]:
            return ('bin', '-', ('un', '-', ('lit', t, -v - 1)), ('lit', 'int', 1))
        return ('un', '-', ('lit', t, -v))
    return ('lit', t, v)


def desugar(dm, e):
    """replace negative / small-type literals by the trees their C rendering denotes"""
    k = e[0]
    if k == 'lit':
        return lit_tree(dm, e[1], e[2])
    if k == 'cast':
        return ('cast', e[1], desugar(dm, e[2]))
    if k == 'un':
        return ('un', e[1], desugar(dm, e[2]))
    if k == 'bin':
        return ('bin', e[1], desugar(dm, e[2]), desugar(dm, e[3]))
    return ('cond',) + tuple(desugar(dm, x) for x in e[1:])


def coq_z(v):
    return str(v) if v >= 0 else '(%d)' % v


def coq_expr(e):
    k = e[0]
    if k == 'lit':
        return '(ELit %s %s)' % (COQ_T[e[1]], coq_z(e[2]))
    if k == 'cast':
        return '(ECast %s %s)' % (COQ_T[e[1]], coq_expr(e[2]))
    if k == 'un':
        return '(EUn %s %s)' % (UNOPS[e[1]], coq_expr(e[2]))
    if k == 'bin':
        return '(EBin %s %s %s)' % (BINOPS[e[1]], coq_expr(e[2]), coq_expr(e[3]))
    return '(ECond %s %s %s)' % tuple(coq_expr(x) for x in e[1:])


def coq_pexpr(e):
    k = e[0]
    if k == 'lit':
        return '(PLit %s %s)' % ('true' if e[1] == 'ullong' else 'false', coq_z(e[2]))
    if k == 'un':
        return '(PUn %s %s)' % (UNOPS[e[1]], coq_pexpr(e[2]))
    if k == 'bin':
        return '(PBin %s %s %s)' % (BINOPS[e[1]], coq_pexpr(e[2]), coq_pexpr(e[3]))
    return '(PCond %s %s %s)' % tuple(coq_pexpr(x) for x in e[1:])


def size(e):
    return 1 + sum(size(x) for x in e[1:] if isinstance(x, tuple))


# ------------------------------------------------------------------ generators
def pool(dm, t):
    lo, hi = limits(dm, t)
    s = {0, 1, 2, 3, 5, 7, 8, 15, 16, 31, 32, 63, 64, 100, 127, 128, 255, 256, hi, hi - 1, hi // 2, hi // 2 + 1,
         lo, lo + 1, -1, -2, -3, -7, -8, -128, -129}
    return sorted(v for v in s if lo <= v <= hi)


def gen_expr(rng, dm, depth, types=TYPES, pp=False, small=False):
    """random typed constant expression tree of depth <= depth"""
    r = rng.random()
    if depth <= 0 or r < 0.18:
        t = rng.choice(types)
        if small and rng.random() < 0.7:
            v = rng.choice([0, 1, 2, 3, 5, 7, -1, -2, -7, 8, 31, 100])
            v = v if fits(dm, t, v) else 1
        elif rng.random() < 0.8:
            v = rng.choice(pool(dm, t))
        else:
            lo, hi = limits(dm, t)
            v = rng.randint(lo, hi)
        return ('lit', t, v)
    if r < 0.28 and not pp:
        return ('cast', rng.choice(types), gen_expr(rng, dm, depth - 1, types, pp, small))
    if r < 0.40:
        return ('un', rng.choice(['-', '~', '!', '+', '-', '~']), gen_expr(rng, dm, depth - 1, types, pp, small))
    if r < 0.47:
        return ('cond',) + tuple(gen_expr(rng, dm, depth - 1, types, pp, small) for _ in range(3))
    op = rng.choice(list(BINOPS))
    a = gen_expr(rng, dm, depth - 1, types, pp, small)
    if op in ('<<', '>>'):
        # shift counts are always small non-negative literals: a huge count (or a negative one converted to an
        # unsigned type) makes CPython and vm_compute allocate 2^count bits
        b = ('lit', 'llong' if pp else rng.choice(['int', 'int', 'uint', 'long', 'uchar']),
             rng.choice([0, 1, 2, 3, 7, 8, 15, 16, 31, 32, 33, 63, 64, 65]))
    elif op in ('/', '%') and rng.random() < 0.5:
        t = rng.choice(types)
        b = ('lit', t, rng.choice([v for v in (1, 2, 3, 7, -1, -2, -3, 10) if fits(dm, t, v)]))
    else:
        b = gen_expr(rng, dm, depth - 1, types, pp, small)
    return ('bin', op, a, b)


def gen_defined(rng, dm, depth, tries=40, **kw):
    """a generated expression whose value is defined (spec /= None); mostly by retrying"""
    for _ in range(tries):
        e = gen_expr(rng, dm, depth, **kw)
        if ev(dm, desugar(dm, e) if not kw.get('pp') else e) is not None:
            return e
    return ('lit', 'int' if not kw.get('pp') else 'llong', 1)


# ------------------------------------------------------------------ gcc as an extra oracle (LP64 only)
def gcc_values(exprs_c, timeout=120):
    """value of each C expression according to gcc -std=c11 on this machine (LP64), as unsigned 64-bit
    two's complement of (long long)(EXPR); None for an expression gcc rejects as a constant.
    One compilation per batch; falls back to per-expression compilation when the batch fails."""
    def run(batch):
        src = '#include <stdio.h>\n' + ''.join(
            'static const long long v%d = (long long)(%s);\nstatic const int s%d = sizeof(%s);\n'
            'static const int n%d = ((__typeof__(%s))-1) < 0;\n' % (i, c, i, c, i, c) for i, c in enumerate(batch))
        src += 'int main(void){\n' + ''.join(
            'printf("%%lld %%d %%d\\n", v%d, s%d, n%d);\n' % (i, i, i) for i in range(len(batch))) + 'return 0;}\n'
        d = tempfile.mkdtemp(prefix='cint')
        try:
            with open(os.path.join(d, 't.c'), 'w') as f:
                f.write(src)
            p = subprocess.run(['gcc', '-std=c11', '-w', '-O0', '-o', os.path.join(d, 't'), os.path.join(d, 't.c')],
                               stdout=subprocess.PIPE, stderr=subprocess.STDOUT, text=True, timeout=timeout)
            if p.returncode != 0:
                return None
            q = subprocess.run([os.path.join(d, 't')], stdout=subprocess.PIPE, text=True, timeout=timeout)
            return [tuple(int(x) for x in line.split()) for line in q.stdout.splitlines()]
        finally:
            import shutil
            shutil.rmtree(d, ignore_errors=True)
    out = run(exprs_c)
    if out is not None and len(out) == len(exprs_c):
        return out
    if len(exprs_c) == 1:
        return [None]
    h = len(exprs_c) // 2
    return gcc_values(exprs_c[:h], timeout) + gcc_values(exprs_c[h:], timeout)
