"""C05 (partial: RISC-V RV32IM, rule level + end-to-end search) — machine code preserves IR behaviour.

tie I+H: every @isa.pattern function of ppci/arch/riscv/instructions.py is executed on a dummy tree with
symbolic operands and a recording context (tools/props/c05_rules.py) -> coq/Gen/Tab_rv_patterns.v.
Coq (Props/C05.v): per-opcode lemmas against Spec/RV32Exec.v + Spec/IRSem.eval_binop, a syntactic check whose
soundness is proved once, the Li large-immediate split, and verified counterexamples for unsound rules.
Correspondence: Model/RvRules.li_expand vs the real Li.render; exported rule bodies vs the code really
selected for single-tree IR functions.  Search: rule-level differential test of all integer value rules with
a Python twin of RV32Exec, and end-to-end execution of the final linked bytes of generated IR functions
(tools/props/c05_e2e.py) against tools/irsem_py.
"""
import os
import re
import sys

sys.path.insert(0, os.path.join(os.path.dirname(os.path.abspath(__file__)), '..'))
import rv32_py as RV   # noqa: E402

LEVEL = 'other'
RULE = ('rule-level: every exported rule whose tree is an integer binary operator / constant / cast / neg / inv is run on up to '
        '400 random operand-register contents and constants satisfying its condition; non-trivial = rule with a non-empty body. '
        'end-to-end: seeded generated IR functions (1-4 integer parameters, arithmetic, casts, constants, diamonds, loops, stack '
        'memory; no calls) x 6 boundary-biased argument vectors, final linked bytes executed by the Python RV32 twin, result in '
        'x10 compared with tools/irsem_py (UB cases skipped)')
EXPLANATION = ('WAVE 3: additionally proved - conditional jumps on 8/16-bit values that first sign/zero-extend both operands '
               '(c05_rv_cjmp_ext_rule_sound, on c05_rv_ext_correct), truncating casts (no code), widening casts by extension according to the '
               'source signedness, NEG, INV and REG rows (c05_rv_unary_rule_sound). Not proved (classified in evidence not_covered): '
               'LABEL / address-forming rows (lui+addi, auipc pairs: need the relocation theorems of C11), FPREL rows, MOVB, all float rows '
               '(soft-float calls), CJMPF*, mem-producing rows, the multi-instruction SHRU8/16, SHRI8/16, DIVU16, REMU16 rows. '
               'PREVIOUS TEXT: '
               'UPDATE (deepening round): now ALSO proved - loads LDR{I,U}{8,16,32} and stores STR{I,U}{8,16,32} with reg, reg+const '
               'and (base, offset) mem addresses against IRSem.read_bytes/write_bytes/le_decode/le_encode through the relation mem_rel '
               '(c05_rv_load_rule_sound, c05_rv_store_rule_sound); MOVx (c05_rv_mov_rule_sound); CJMP{I,U}32 for all six relations: '
               'branch taken iff IRSem.eval_cond (c05_rv_cjmp_rule_sound), the 24 sub-word CJMP rows are refuted with Coq-verified '
               'witnesses (c05_rv_cjmp_refuted); JMP; and c05_rv_callconv: prologue/epilogue balanced on an abstract frame machine '
               '(word slots; the printed instruction lists are shown to be these operations; NOT tied to the byte memory of RV32Exec), '
               'argument locations x12..x17 then packed stack slots (distinct registers, non-overlapping slots), callee reads a stack '
               'argument at the address the caller stored it. Still NOT proved: LABEL/address constants (hi/lo relocation pairs), '
               'FPREL address rule and the peephole fprel adjustment, MOVB memcpy, float rules, gen_call argument set-up, selection, '
               'register allocation. Frames above ~2 KiB do not compile (no rule for FPREL offsets outside 12 bits) - recorded. '
               'ORIGINAL TEXT: '
               'PARTIAL, RISC-V RV32IM only, no RVC, no other target. Proved (unbounded): add/sub/mul/and/or/xor/sll at 8/16/32 bits, '
               'srl/sra/div/divu/rem/remu at 32 bits and the immediate forms addi/andi/ori/xori/slli/srli/srai implement the IR '
               'operator on represented values; every exported rule that passes check_rule (binary operator over reg/reg, '
               'reg/const, const/reg; constants through Li) is sound for all states, operand registers and admissible constants; '
               'Li loads exactly v for -2^31 <= v < 2^32. NOT proved: cast/extension, neg/inv, load/store, move, jump/compare, '
               'label, frame-relative, memcpy and float rules (only tested), instruction selection itself (which rule is chosen), '
               'register allocation (C06), frame layout, prologue/epilogue and the calling convention (c05_rv_callconv is NOT '
               'claimed), linking/relocation, all other targets. The end-to-end search has no emulator: it runs my own RV32 '
               'interpreter (tools/rv32_py.py).')
TRUSTED = ['coq/Spec/RV32Exec.v, RV32Decode.v (reading of the RISC-V manual), Spec/IRSem.v (reading of the IR)',
           'tools/props/c05_rules.py: symbolic execution of the pattern functions (recording context) and the parsing of the '
           'condition lambdas (cross-checked by probing the real lambdas)',
           'Model/RvRules.li_expand (hand model of Li.render, cross-checked per run) and the printed-mnemonic -> base instruction '
           'table rv_expect shared with C08',
           'tools/rv32_py.py + tools/irsem_py.py for the searches']
ASSUMPTIONS = ['sub-word values are represented in registers modulo 2^bits (upper bits unspecified) - the weakest invariant under '
               'which the no-op truncation rules are correct',
               'fresh temporaries are distinct from operand registers and from x0 (virtual-register level; allocation is C06)',
               'tree constants lie in the range of their IR type']

FAMILY_OF_RULE = [
    (r'^(ADD|AND|OR|XOR)I32\((reg, CONSTI32|CONSTI32, reg)\)$', 'negconst'),
    (r'^(SHRU8|SHRU16|DIVU16|REMU16)\(', 'subword_shr_div_cmp'),
    (r'^(I8TOU16|I8TOU32|I16TOU32)\(', 'signed_to_unsigned_widen'),
    (r'^(NEG|INV|SHRI8|SHRI16|[IU](8|16)TO[IU](16|32))', 'inplace'),
]


def family_of(text):
    for rx, fam in FAMILY_OF_RULE:
        if re.match(rx, text):
            return fam
    return 'other:' + text


def zl(l):
    return '[' + '; '.join(str(x) if x >= 0 else '(%d)' % x for x in l) + ']'


def export(ctx):
    from props import c05_rules as R
    rows = R.export_rules()
    ctx.write_gen('Tab_rv_patterns', R.render(rows))
    return R, rows


def regen(ctx):
    return export(ctx)


def coq_check_flags(ctx, n):
    """check_rule / in_scope of every table row, evaluated by Coq"""
    out = ctx.eval_terms('flags', ['Model.RvRules', 'Gen.Tab_rv_patterns', 'Proofs.C05_rules', 'Proofs.C05_mem', 'Proofs.C05_ext', 'Proofs.C05_ext2'],
                         ['map (fun r => (((check_rule r || check_subword_bin r)%bool, match tree_sem (r_tree r) with Some _ => true | None => false end), '
                          '((check_rule2 r || check_cjmp_ext r)%bool, in_scope2 r), ((check_unary r || check_memprod r || check_fprel_reg r)%bool, (in_scope3 r || check_memprod r || check_fprel_reg r)%bool))) rv_rules'])
    toks = re.findall(r'VBool (true|false)', out)
    if len(toks) != 6 * n:
        toks = re.findall(r'\b(true|false)\b', out)
    if len(toks) != 6 * n:
        ctx.failed_stages.append(('flags', 'cannot read check_rule flags from coqc (%d tokens for %d rules)' % (len(toks), n)))
        return None
    return [tuple(toks[6 * i + k] == 'true' for k in range(6)) for i in range(n)]


def write_bad(ctx, rows, flags, wit, cjwit=None):
    bad, undecided = [], []
    for r in rows:
        ck, scope = flags[r['idx']][:2]
        if scope and not ck:
            w = wit.get(r['idx'])
            if w is None:
                undecided.append(r['idx'])
            else:
                env = 'mkEnv %s %s [%s] 25' % (zl(w['childs']), zl(w['fresh']), '; '.join(
                    '([%s], %s)' % ('; '.join('%d%%nat' % k for k in p), v if v >= 0 else '(%d)' % v) for p, v in w['const_items']))
                regs = '[%s]' % '; '.join('(%d, %d)' % kv for kv in w['reg_items'])
                bad.append('(%d%%nat, %s, %s)' % (r['idx'], env, regs))
    text = ('(* generated by tools/props/c05.py: counterexamples of in-scope rules that fail check_rule — do not edit *)\n'
            'From PV Require Import Model.RvRules.\nFrom Coq Require Import ZArith List.\nImport ListNotations.\nOpen Scope Z_scope.\n'
            'Definition rv_rules_bad : list (nat * env * list (Z * Z)) := [\n  %s].\n'
            'Definition rv_rules_undecided : list nat := [%s]%%nat.\n' % (';\n  '.join(bad), '; '.join(map(str, undecided))))
    cjbad, und2 = [], []
    for r in rows:
        ck2, scope2 = flags[r['idx']][2:4]
        if scope2 and not ck2:
            w = cjwit.get(r['idx']) if cjwit else None
            if w is None:
                und2.append(r['idx'])
            else:
                cjbad.append('(%d%%nat, %d, %d)' % (r['idx'], w[0], w[1]))
    text += ('(* conditional-jump rules that fail check_cjmp, with register contents on which branch and IR comparison differ *)\n'
             'Definition rv_cj_bad : list (nat * Z * Z) := [%s].\n'
             'Definition rv_rules2_undecided : list nat := [%s]%%nat.\n' % ('; '.join(cjbad), '; '.join(map(str, und2))))
    ctx.write_gen('Tab_rv_bad', text)
    return undecided, und2


def li_correspondence(ctx):
    """Model.RvRules.li_expand vs the real Li.render"""
    from ppci.arch.riscv import instructions as I, registers as Rg
    vals = [0, 1, -1, 2047, 2048, -2048, -2049, 4095, 4096, 0x7ff, 0x800, 0x801, 0xfff, 0x1000, 0x1800, 0x7ffff800, 0x7fffffff,
            -(1 << 31), 0x80000000, 0xfffff7ff, 0xfffff800, 0xffffffff, 0x12345678, -5000, 70000, -70000, 0xdeadbeef]
    vals += [ctx.rng.randrange(-(1 << 31), 1 << 32) for _ in range(60 if ctx.quick() else 600)]
    cases = []
    for v in vals:
        rd = ctx.rng.choice([5, 9, 10, 20, 31])
        real = []
        for ins in I.Li(Rg.get_register(rd), v).render():
            ops = []
            for fa in type(ins).syntax.formal_arguments:
                x = getattr(ins, fa._name)
                ops.append(x.num if hasattr(x, 'num') else x)
            mn = type(ins).syntax.syntax[0]
            if mn == 'lui':
                ops[1] &= 0xFFFFF      # Lui.encode masks its operand
            if mn == 'addi':
                ops[2] = ops[2] if -2048 <= ops[2] < 2048 else ops[2] & 0xFFF
            real.append((mn, ops))
        cases.append(('map (fun it => (fst it, map (fun z => z) (snd it))) (li_expand %d %s)' % (rd, v if v >= 0 else '(%d)' % v), real))
    bad = ctx.run_cases('li', ['Model.RvRules'], cases)
    ctx.cov['stages']['li_correspondence'] = len(cases)
    if bad:
        ctx.failed_stages.append(('correspondence', 'li_expand differs from Li.render on %r' % (vals[bad[0]],)))


def ins_item(ins):
    ops = []
    for fa in type(ins).syntax.formal_arguments:
        x = getattr(ins, fa._name)
        ops.append(x.num if hasattr(x, 'num') else x)
    return (type(ins).syntax.syntax[0], ops)


def frame_correspondence(ctx):
    """Model/RvFrame.v (determine_arg_locations, prologue_items, epilogue_items) vs the real RiscvArch methods"""
    from ppci import ir
    from ppci.api import get_arch
    from ppci.arch.stack import Frame, StackLocation
    from ppci.arch.encoding import Instruction
    from ppci.arch.generic_instructions import ArtificialInstruction
    arch = get_arch('riscv')
    rng = ctx.rng
    scal = [ir.i8, ir.i16, ir.i32, ir.u8, ir.u16, ir.u32, ir.ptr]
    cases = []
    n_sig = 60 if ctx.quick() else 600
    for _ in range(n_sig):
        tys = []
        for _k in range(rng.randrange(0, 12)):
            tys.append(ir.BlobDataTyp(rng.choice([1, 3, 4, 8, 12, 20]), 4) if rng.random() < 0.15 else rng.choice(scal))
        real = []
        for l in arch.determine_arg_locations(tys):
            real.append((1, l.offset, l.size) if isinstance(l, StackLocation) else (0, l.num, 0))
        margs = '; '.join('(%s, %d)' % ('true' if t.is_blob else 'false', t.size if t.is_blob else arch.info.get_size(t)) for t in tys)
        cases.append(('map (fun l => match l with AReg r => (0, r, 0) | AStack o z => (1, o, z) end) (determine_arg_locations [%s])' % margs, real))
    callee = list(arch.callee_save)
    n_fr = 40 if ctx.quick() else 400
    for _ in range(n_fr):
        fr = Frame('f', fp_location=arch.fp_location)
        fr.stacksize = rng.choice([0, 4, 8, 12, 16, 20, 100, 1000, rng.randrange(0, 1900)])
        saved = [r for r in callee if rng.random() < 0.4]
        for r in saved:
            fr.used_regs.add(r)
        extras = rng.choice([0, 0, 4, 8, 16, 24, 100])
        if extras:
            fr.add_out_call(extras)
            if rng.random() < 0.5:
                fr.add_out_call(rng.randrange(0, extras + 1))

        def items(gen):
            return [ins_item(i) for i in gen if isinstance(i, Instruction) and not isinstance(i, ArtificialInstruction)
                    and type(i).__module__.startswith('ppci.arch.riscv')]
        margs = '%d %s %d' % (fr.stacksize, zl([r.num for r in saved]), extras)
        cases.append(('prologue_items %s' % margs, items(arch.gen_prologue(fr))))
        cases.append(('epilogue_items %s' % margs, items(arch.gen_epilogue(fr))))
    bad = ctx.run_cases('frame', ['Model.RvFrame'], cases)
    ctx.cov['stages']['frame_correspondence'] = {'signatures': n_sig, 'frames': n_fr}
    if bad:
        ctx.failed_stages.append(('correspondence', 'Model/RvFrame.v differs from the real RiscvArch on case %s' % cases[bad[0]][0][:120]))


def selection_correspondence(ctx, R, rows):
    """exported rule bodies vs the code really selected: compile f(a, b) = a OP b (i32/u32) and check that the
    base mnemonics of the cheapest exported rule body for that tree occur in the final code"""
    from ppci import ir
    from props import c05_e2e as E, c08
    n, missing = 0, []
    ops = {'ADD': '+', 'SUB': '-', 'MUL': '*', 'DIV': '/', 'REM': '%', 'AND': '&', 'OR': '|', 'XOR': '^', 'SHL': '<<', 'SHR': '>>'}
    for r in rows:
        sem = R.row_sem(r)
        if not sem or sem[0] != 'bin' or sem[3][0] != 'child' or sem[4][0] != 'child' or sem[2] not in ('I32', 'U32'):
            continue
        ty = ir.i32 if sem[2] == 'I32' else ir.u32
        m = ir.Module('m')
        f = ir.Function('f', ir.Binding.GLOBAL, ty)
        m.add_function(f)
        ps = [ir.Parameter('p%d' % i, ty) for i in range(2)]
        for p in ps:
            f.add_parameter(p)
        b = ir.Block('entry')
        f.add_block(b)
        f.entry = b
        v = ir.Binop(ps[0], ops[sem[1]], ps[1], 'r', ty)
        b.add_instruction(v)
        b.add_instruction(ir.Return(v))
        img = E.compile_module(m, 'f')
        if getattr(img, 'error', None):
            missing.append((r['text'], 'compile error: %s' % img.error))
            continue
        words = sorted(a for a in img.mem if a % 4 == 0)
        mns = set()
        for a in words:
            d = RV.decode([img.mem.get(a + i, 0) for i in range(4)])
            if d:
                mns.add(d[0])
        want = set()
        for bi in r['body']:
            e = c08.rv_expect(bi[0], len(bi[1]))
            if e:
                want.add(e[0])
        n += 1
        if not want <= mns:
            missing.append((r['text'], 'rule body %s not in selected code %s' % (sorted(want), sorted(mns))))
    ctx.cov['stages']['selection_correspondence'] = {'trees': n, 'mismatching': missing[:5]}
    if missing:
        ctx.failed_stages.append(('correspondence', 'exported rule vs real selection: %s' % (missing[0],)))


def real_li(rd, imm):
    """the instructions the real Li pseudo-instruction renders"""
    from ppci.arch.riscv import instructions as I, registers as Rg
    out = []
    for ins in I.Li(Rg.get_register(rd), imm).render():
        ops = []
        for fa in type(ins).syntax.formal_arguments:
            x = getattr(ins, fa._name)
            ops.append(x.num if hasattr(x, 'num') else x)
        out.append((type(ins).syntax.syntax[0], ops))
    return out


def rule_search(ctx, R, rows, flags):
    from props import c08
    wit = {}
    n = 0
    for r in rows:
        if R.row_sem(r) is None:
            continue
        n += 1
        w = R.find_witness(r, ctx.rng, RV, c08.rv_expect, c08.apply_view, tries=400 if ctx.quick() else 3000, li=real_li)
        if w:
            wit[r['idx']] = w
    ctx.cov['stages']['rule_level'] = {'rules_tested': n, 'rules_with_counterexample': len(wit)}
    ctx.cov['evaluations'] += n * 100
    ctx.cov['distinct_nontrivial'] += sum(1 for r in rows if R.row_sem(r) and r['body'])
    return wit


CJ_PY = {'<': lambda a, b: a < b, '>': lambda a, b: a > b, '==': lambda a, b: a == b, '!=': lambda a, b: a != b,
         '>=': lambda a, b: a >= b, '<=': lambda a, b: a <= b}


def cj_search(ctx, R, rows):
    """conditional-jump rules: register contents on which the emitted branch disagrees with the IR comparison"""
    from props import c08
    out = {}
    pool = R.REG_POOL
    for r in rows:
        if not r.get('cjop') or r['error'] or len(r['body']) != 2:
            continue
        op, ty, _ = R.split_name(r['tree'].name)
        if ty not in R.BITS:
            continue
        bits, sg = R.BITS[ty]
        exp = c08.rv_expect(r['body'][0][0], 3)
        if exp is None or exp[0] not in RV.BR:
            continue
        for _ in range(300):
            a, b = ctx.rng.choice(pool), ctx.rng.choice(pool)
            x, y = c08.apply_view(exp[1], [a, b, 0])[:2]
            taken = RV.BR[exp[0]](x, y)
            want = CJ_PY[r['cjop']](R.wrap(bits, sg, a), R.wrap(bits, sg, b))
            if taken != want:
                out[r['idx']] = (a, b, taken, want)
                break
    return out


def report_cj(ctx, rows, flags, cjwit):
    for idx, (a, b, taken, want) in sorted(cjwit.items()):
        r = rows[idx]
        if flags and flags[idx][2]:
            ctx.failed_stages.append(('oracle', 'rule %s is proved sound but the Python twin refutes it' % r['text']))
            continue
        ctx.violation({'fn': 'rule', 'family': 'subword_shr_div_cmp', 'rule': r['text'], 'key': 'rule:' + r['text'],
                       'pattern_function': r['fn'], 'args': [a, b],
                       'what': 'rule %s emits %s: with registers %d, %d the branch is %staken but the IR comparison of the '
                               'represented values is %s' % (r['text'], r['body'][0][0], a, b, '' if taken else 'not ', want),
                       'expected': want, 'actual': taken,
                       'how_to_replay': 'see coq/Gen/Tab_rv_bad.v rv_cj_bad (verified by c05_rv_cjmp_refuted)'})


def report_rules(ctx, rows, flags, wit):
    for idx, w in sorted(wit.items()):
        r = rows[idx]
        ck = (flags[idx][0] or flags[idx][4]) if flags else False
        if ck:
            # a rule Coq proves sound but the Python twin refutes: the twin or the model is wrong - fail closed
            ctx.failed_stages.append(('oracle', 'rule %s is proved sound but the Python twin finds %s' % (r['text'], w['what'])))
            continue
        ctx.violation({'fn': 'rule', 'family': family_of(r['text']), 'rule': r['text'], 'key': 'rule:' + r['text'], 'pattern_function': r['fn'],
                       'args': [w['childs'], w['consts'], w['regs']], 'condition': list(r['cond']),
                       'emitted': [[b[0], [list(o) for o in b[1]]] for b in r['body']],
                       'what': 'rule %s (%s): %s' % (r['text'], r['fn'], w['what']),
                       'expected': w['expected'], 'actual': w['actual'],
                       'how_to_replay': 'PYTHONPATH=/repo:/verif/tools python -c "import random; from props import c05_rules as R, c08; '
                                        'import rv32_py as RV; r=[x for x in R.export_rules() if x[\'idx\']==%d][0]; '
                                        'print(R.find_witness(r, random.Random(0), RV, c08.rv_expect, c08.apply_view))"' % idx})


def ldr_add_probe(ctx):
    """LDRI32(ADDI32(reg, CONSTI32)) has no condition: a load from p + c with |c| >= 2048 must still compile"""
    from ppci import ir
    from ppci.irutils import verify_module
    from props import c05_e2e as E
    for off in (8, 2047, 2048, 5000, -2048, -2049, -5000):
        m = ir.Module('m')
        f = ir.Function('f', ir.Binding.GLOBAL, ir.i32)
        m.add_function(f)
        p = ir.Parameter('p', ir.ptr)
        f.add_parameter(p)
        e = ir.Block('entry')
        f.add_block(e)
        f.entry = e
        seq = [ir.Cast(p, 'pi', ir.i32), ir.Const(off, 'c', ir.i32)]
        seq.append(ir.Binop(seq[0], '+', seq[1], 'a', ir.i32))
        seq.append(ir.Cast(seq[2], 'ap', ir.ptr))
        seq.append(ir.Load(seq[3], 'l', ir.i32))
        for i in seq:
            e.add_instruction(i)
        e.add_instruction(ir.Return(seq[4]))
        verify_module(m)
        img = E.compile_module(m, 'f')
        ctx.cov['evaluations'] += 1
        if getattr(img, 'error', None):
            ctx.violation({'fn': 'rule', 'family': 'ldr_add_offset_unchecked', 'rule': 'LDRI32(ADDI32(reg, CONSTI32))',
                           'key': 'rule:LDRI32(ADDI32(reg, CONSTI32))', 'args': [off], 'ir': E.module_text(m),
                           'what': 'verifier-clean IR "load i32 from p + %d" does not compile for riscv: %s (the rule has no '
                                   'condition on the 12-bit load offset)' % (off, str(img.error)[:120]),
                           'expected': 'compiles', 'actual': str(img.error)[:200],
                           'how_to_replay': 'PYTHONPATH=/repo:/verif/tools python -c "from props import c05_e2e as E; '
                                            'from ppci.irutils import read_module; import io, json; r=json.load(open(\'<this file>\')); '
                                            'print(E.compile_module(read_module(io.StringIO(r[\'ir\'])), \'f\').error)"'})
            return


def e2e_search(ctx):
    from props import c05_e2e as E
    deep = (not ctx.quick()) or bool(ctx.failed_stages)
    n_clean, n_all = (200, 100) if deep else (80, 40)
    stats = {}
    # (i) all known defect families avoided: any mismatch is a new finding
    seen = set()

    def on_clean(rec):
        key = E.classify(rec)
        if key in seen:
            return
        seen.add(key)
        ctx.violation({'fn': 'e2e', 'family': 'none-of-the-known', 'key': 'e2e-clean:' + key, 'kind': rec['kind'], 'args': rec['args'],
                       'ir': rec['ir_text'], 'ret_type': rec['ret_type'], 'expected': rec['expected'], 'actual': rec['actual'],
                       'what': 'compiled riscv code returns %r, the IR prescribes %r' % (rec['actual'], rec['expected']),
                       'how_to_replay': 'PYTHONPATH=/repo:/verif/tools python -c "from props import c05_e2e as E, json; '
                                        'r=json.load(open(\'<this file>\')); print(E.replay_ir(r[\'ir\'], r[\'args\'], r[\'ret_type\']))"'})
    stats['avoiding_known_families'] = E.search(ctx.rng, n_clean, 6, 3, None, on_clean, avoid=E.AVOID if hasattr(E, 'AVOID') else (
        'inplace', 'negconst', 'subword_shr_div_cmp', 'signed_to_unsigned_widen'))
    # (ii) exactly one known family allowed at a time (the other three avoided): a mismatch is attributable to it
    ALL = ('inplace', 'negconst', 'subword_shr_div_cmp', 'signed_to_unsigned_widen')
    for fam in ALL:
        hit = []

        def on_fam(rec, fam=fam, hit=hit):
            if hit:
                return
            hit.append(1)
            ctx.violation({'fn': 'e2e', 'family': fam, 'key': 'e2e:' + fam, 'kind': rec['kind'], 'args': rec['args'], 'ir': rec['ir_text'],
                           'ret_type': rec['ret_type'], 'expected': rec['expected'], 'actual': rec['actual'],
                           'what': 'compiled riscv code returns %r, the IR prescribes %r (generator restricted to defect family %s)'
                                   % (rec['actual'], rec['expected'], fam),
                           'how_to_replay': 'PYTHONPATH=/repo:/verif/tools python -c "from props import c05_e2e as E, json; '
                                            'r=json.load(open(\'<this file>\')); print(E.replay_ir(r[\'ir\'], r[\'args\'], r[\'ret_type\']))"'})
        stats['only_' + fam] = E.search(ctx.rng, n_all, 6, 3, None, on_fam, avoid=tuple(x for x in ALL if x != fam))
    for k, s in stats.items():
        s.pop('features', None)
    ctx.cov['stages']['e2e'] = stats
    ctx.cov['evaluations'] += sum(s.get('executions', 0) for s in stats.values())


def run(ctx):
    R, rows = regen(ctx)
    errs = [r for r in rows if r['error']]
    ctx.cov['stages']['export'] = {
        'pattern_registrations': len(rows), 'pattern_functions': len({r['fn'] for r in rows}),
        'executed_without_error': len(rows) - len(errs), 'not_executable_symbolically': sorted({r['text'] for r in errs}),
        'conditions': sorted({str(r['cond'][0]) for r in rows})}
    flags = None
    wit = {}
    ok, _ = ctx.build(['Gen/Tab_rv_patterns.vo', 'Proofs/C05_rules.vo', 'Proofs/C05_mem.vo', 'Proofs/C05_ext.vo', 'Proofs/C05_ext2.vo'])
    if ok:
        flags = coq_check_flags(ctx, len(rows))
    wit = rule_search(ctx, R, rows, flags)
    cjwit = cj_search(ctx, R, rows)
    if flags:
        und, und2 = write_bad(ctx, rows, flags, wit, cjwit)
        ctx.cov['stages']['rules_mem_control'] = {
            'proved_sound': [rows[i]['text'] for i in range(len(rows)) if flags[i][2]],
            'refuted': [rows[i]['text'] for i in range(len(rows)) if flags[i][3] and not flags[i][2] and i in cjwit],
            'undecided': [rows[i]['text'] for i in und2]}
        ctx.cov['stages']['rules_unary'] = {
            'proved_sound': [rows[i]['text'] for i in range(len(rows)) if flags[i][4]],
            'in_scope_not_proved': [rows[i]['text'] for i in range(len(rows)) if flags[i][5] and not flags[i][4]]}
        ctx.cov['stages']['rule_rows_proved_total'] = '%d of %d' % (sum(1 for fl in flags if fl[0] or fl[2] or fl[4]), len(rows))
        ctx.cov['stages']['rules'] = {
            'proved_sound': [rows[i]['text'] for i in range(len(rows)) if flags[i][0]],
            'in_scope_refuted': [rows[i]['text'] for i in range(len(rows)) if flags[i][1] and not flags[i][0] and i in wit],
            'in_scope_undecided': [rows[i]['text'] for i in und],
            'tested_only_unsound': [rows[i]['text'] for i in sorted(wit) if not flags[i][1]],
            'not_covered': sorted({rows[i]['text'] for i in range(len(rows)) if not flags[i][1] and not flags[i][3] and not flags[i][5] and R.row_sem(rows[i]) is None})}
        ok2, _ = ctx.build(['Proofs/C05_table.vo', 'Proofs/C05_frame.vo'])
        if ok2:
            ctx.check_props('Props/C05.v')
    if ctx.build(['Model/RvRules.vo', 'Model/RvFrame.vo', 'Lib/Val.vo'])[0]:
        li_correspondence(ctx)
        try:
            frame_correspondence(ctx)
        except Exception as ex:   # noqa: BLE001
            ctx.failed_stages.append(('correspondence', 'frame correspondence crashed: %r' % (ex,)))
    try:
        selection_correspondence(ctx, R, rows)
    except Exception as ex:   # noqa: BLE001
        ctx.failed_stages.append(('correspondence', 'selection correspondence crashed: %r' % ex))
    report_rules(ctx, rows, flags, wit)
    report_cj(ctx, rows, flags, cjwit)
    ldr_add_probe(ctx)
    e2e_search(ctx)
    ctx.cov['exhaustive'] = False


def search(ctx):
    R, rows = export(ctx)
    wit = rule_search(ctx, R, rows, None)
    report_rules(ctx, rows, None, wit)
    report_cj(ctx, rows, None, cj_search(ctx, R, rows))
    ldr_add_probe(ctx)
    e2e_search(ctx)


MANIFEST = {
    'text': 'WAVE 4: 189 of 232 exported rule rows proved (adds the six multi-instruction sub-word rows SHRU8/16, SHRI8/16, DIVU16, REMU16 '
            'and the address rows mem:reg, mem:FPRELU32, reg:FPRELU32); unproved: 37 float/soft-float rows, LABEL x2 (address loaded from '
            'the literal pool through lui+addi / auipc relocation pairs), MOVB, and 3 float-typed CONST/MOV rows. WAVE 3: 156 of 232 exported rule rows proved on the current source (180 of 232 once the sub-word compare repair is applied): ALU/constant rows, loads/stores/moves, 32-bit and (extended) 8/16-bit conditional jumps, jump, casts, neg/inv, REG rows; not proved: float/soft-float rows, LABEL and other address-forming rows, FPREL, MOVB, mem-producing rows and six multi-instruction sub-word rows. EARLIER: UPDATE: 111 of 232 exported rule rows are now proved sound (68 ALU/constant rows + 43 load/store/move/32-bit '
            'conditional-jump/jump rows), 24 sub-word conditional-jump rows are refuted with verified witnesses, and the frame code '
            '(prologue/epilogue balanced, argument locations, caller/callee stack-slot agreement) is proved on an abstract frame machine '
            'whose model is compared with the real RiscvArch methods on generated signatures and frames (c05_rv_callconv; abstract: word '
            'slots, not the byte memory). New defect: LDRI32(ADDI32(reg, CONSTI32)) has no offset condition (compile crash; fix C05-5). '
            'DETAIL: PARTIAL (other): RISC-V RV32IM only (no RVC, no other target, no emulator). Every @isa.pattern function of the riscv '
            'back-end is executed symbolically and exported (192 registrations, 180 executable). Coq proves, against an independent '
            'RV32I/M semantics and the IR reference semantics, per-opcode lemmas for add/sub/mul/and/or/xor/sll (8/16/32-bit values '
            'represented modulo 2^bits), srl/sra/div/divu/rem/remu (32-bit) and the immediate forms, and that every exported rule '
            'accepted by a proved-sound syntactic check (integer binary operators over reg/reg, reg/const, const/reg and constants '
            'materialised by Li) leaves the IR value in its result register for all states and admissible operands, changes only its '
            'own temporaries and no memory; that Li (addi or lui+addi with the 0x800 carry) loads exactly v for -2^31 <= v < 2^32; '
            'and that each exported counterexample of an unsound in-scope rule is real. Rules for casts, neg/inv are only tested at '
            'rule level; loads/stores, moves, branches, calls, labels, frame-relative addressing and floats are only exercised by '
            'the end-to-end search (final linked bytes run by a Python RV32 interpreter written for this check, compared with the IR '
            'interpreter). Prologue/epilogue/calling convention are NOT proved (c05_rv_callconv not claimed). Defects found: '
            'constant-operand rules accept constants below -2048 and truncate them; neg/inv/extension/SHRI8/SHRI16 rules overwrite '
            'their operand register; SHRU8/SHRU16/DIVU16/REMU16 and sub-word compares use unextended registers; I8TOU16/I8TOU32/'
            'I16TOU32 zero-extend.',
    'note': 'trusted: Coq kernel; reading of the RISC-V manual (Spec/RV32Exec.v, RV32Decode.v) and of the IR (Spec/IRSem.v); the '
            'symbolic executor of pattern functions and condition parser (tools/props/c05_rules.py); the hand model of Li.render '
            '(cross-checked per run); Python twins used by the searches. ARM, Thumb, m68k, mips, x86_64: not covered at all.',
    'technique': 'Coq proof (reflection over exported selection rules + per-opcode lemmas) + differential search without emulator',
}
