"""C22 — search-only (VALIDATION, not proof) differential stage for linear memory and globals on the
python target, against an independent reference written from the WebAssembly core spec
(4.4.7 memory instructions, 4.5.3.9 growing memories, 4.5.4 data segments, 4.4.5 variable instructions)."""
import math
import struct

PAGE = 65536
MAX_PAGES = 65536

# (opcode, value type, width in bytes, signed-extension or None)
LOADS = [('i32.load', 'i32', 4, None), ('i32.load8_s', 'i32', 1, True), ('i32.load8_u', 'i32', 1, False),
         ('i32.load16_s', 'i32', 2, True), ('i32.load16_u', 'i32', 2, False),
         ('i64.load', 'i64', 8, None), ('i64.load8_s', 'i64', 1, True), ('i64.load8_u', 'i64', 1, False),
         ('i64.load16_s', 'i64', 2, True), ('i64.load16_u', 'i64', 2, False),
         ('i64.load32_s', 'i64', 4, True), ('i64.load32_u', 'i64', 4, False),
         ('f32.load', 'f32', 4, None), ('f64.load', 'f64', 8, None)]
STORES = [('i32.store', 'i32', 4), ('i32.store8', 'i32', 1), ('i32.store16', 'i32', 2),
          ('i64.store', 'i64', 8), ('i64.store8', 'i64', 1), ('i64.store16', 'i64', 2), ('i64.store32', 'i64', 4),
          ('f32.store', 'f32', 4), ('f64.store', 'f64', 8)]
OFFSETS = [0, 3, 65528]
GLOBALS = [('gi32', 'i32', True, 7), ('gi64', 'i64', True, -5), ('gf32', 'f32', True, 1.5), ('gf64', 'f64', True, -2.25),
           ('ci32', 'i32', False, -2147483648), ('ci64', 'i64', False, 9223372036854775807)]
DATA = [(0, bytes([1, 2, 3, 0xff, 0x80, 0x7f, 0, 0xfe, 0xdc, 0xba, 0x98, 0x76])), (40, b'\x00\x00\xc0\x7f\x00\x00\x80\xbf'),
        (PAGE - 4, bytes([0xde, 0xad, 0xbe, 0xef]))]


def fn(op, off):
    return '%s_o%d' % (op.replace('.', '_'), off)


def module_text(minp, maxp, with_data):
    out = ['(module', '(memory (export "mem") %d%s)' % (minp, '' if maxp is None else ' %d' % maxp)]
    for name, ty, mut, init in GLOBALS:
        lit = repr(init) if ty[0] == 'f' else str(init)
        out.append('(global $%s %s (%s.const %s))' % (name, '(mut %s)' % ty if mut else ty, ty, lit))
        out.append('(func (export "get_%s") (result %s) (global.get $%s))' % (name, ty, name))
        if mut:
            out.append('(func (export "set_%s") (param %s) (local.get 0) (global.set $%s))' % (name, ty, name))
    if with_data:
        for off, bs in DATA:
            out.append('(data (i32.const %d) "%s")' % (off, ''.join('\\%02x' % b for b in bs)))
    out.append('(func (export "size") (result i32) (memory.size))')
    out.append('(func (export "grow") (param i32) (result i32) (local.get 0) (memory.grow))')
    for op, ty, _w, _s in LOADS:
        for off in OFFSETS:
            out.append('(func (export "%s") (param i32) (result %s) (local.get 0) (%s offset=%d))' % (fn(op, off), ty, op, off))
    for op, ty, _w in STORES:
        for off in OFFSETS:
            out.append('(func (export "%s") (param i32) (param %s) (local.get 0) (local.get 1) (%s offset=%d))'
                       % (fn(op, off), ty, op, off))
    # multi-step inside one function: grow by one page, store into the new page, load it back
    out.append('(func (export "grow_store_load") (param i32) (result i32) (local i32)'
               ' (local.set 1 (i32.mul (memory.grow (i32.const 1)) (i32.const 65536)))'
               ' (i32.store (local.get 1) (local.get 0)) (i32.load (local.get 1)))')
    out.append(')')
    return '\n'.join(out)


# ---------------------------------------------------------------- reference (from the spec)
class Trap(Exception):
    pass


class Diverged(Exception):
    """implementation and reference disagree on the memory size: stop this configuration (already reported)"""


class Ref:
    def __init__(self, minp, maxp, with_data):
        self.mem = bytearray(minp * PAGE)
        self.maxp = maxp
        self.glob = {name: init for name, _t, _m, init in GLOBALS}
        if with_data:
            for off, bs in DATA:
                if off + len(bs) > len(self.mem):
                    raise Trap('data segment does not fit')
                self.mem[off:off + len(bs)] = bs

    def size(self):
        return len(self.mem) // PAGE

    def grow(self, n):
        n &= 0xFFFFFFFF                      # operand is an unsigned i32
        old = self.size()
        limit = MAX_PAGES if self.maxp is None else self.maxp
        if old + n > limit:
            return -1                        # failure: memory unchanged
        self.mem.extend(bytes(n * PAGE))
        return old

    def ea(self, addr, off, width):
        a = (addr & 0xFFFFFFFF) + off        # effective address, no wrap-around
        if a + width > len(self.mem):
            raise Trap('out of bounds memory access')
        return a

    def load(self, op, addr, off):
        _o, ty, width, sx = next(x for x in LOADS if x[0] == op)
        a = self.ea(addr, off, width)
        raw = bytes(self.mem[a:a + width])
        if ty == 'f32':
            return ('f', raw)
        if ty == 'f64':
            return ('f', raw)
        v = int.from_bytes(raw, 'little', signed=bool(sx))
        n = 32 if ty == 'i32' else 64
        v &= (1 << n) - 1
        return v - (1 << n) if v >> (n - 1) else v      # ppci represents iN as signed ints

    def store(self, op, addr, off, value):
        _o, ty, width = next(x for x in STORES if x[0] == op)
        a = self.ea(addr, off, width)
        if ty == 'f32':
            raw = struct.pack('<f', value)
        elif ty == 'f64':
            raw = struct.pack('<d', value)
        else:
            raw = (value & ((1 << (8 * width)) - 1)).to_bytes(width, 'little')
        self.mem[a:a + width] = raw


# ---------------------------------------------------------------- execution
def call(inst, name, args):
    """('ok', v) | ('trap', exception class name)  — any exception aborts the invocation"""
    from ppci.wasm.execution._base_instance import WasmTrapException
    try:
        return ('ok', getattr(inst.exports, name)(*args))
    except WasmTrapException:
        return ('trap', 'WasmTrapException')
    except Exception as ex:   # noqa: BLE001
        return ('trap', type(ex).__name__)


def same_value(got, exp):
    if isinstance(exp, tuple):              # ('f', raw bytes)
        raw = exp[1]
        x = struct.unpack('<f' if len(raw) == 4 else '<d', raw)[0]
        if not isinstance(got, float):
            return False
        if math.isnan(x):
            return math.isnan(got)
        return struct.pack('<d', got) == struct.pack('<d', x)
    if isinstance(exp, float):
        return isinstance(got, float) and struct.pack('<d', got) == struct.pack('<d', exp)
    return got == exp and not isinstance(got, float)


INT_VALUES = {'i32': [0, 1, -1, 0x7fffffff, -0x80000000, 0x12345678, -0x0edcba99, 0x1ff, 0x18080],
              'i64': [0, 1, -1, 0x7fffffffffffffff, -0x8000000000000000, 0x123456789abcdef0, -0x0123456789abcdf0,
                      0x1ffffffff, 0x180008080]}
FLT_VALUES = {'f32': [0.0, -0.0, 1.5, -2.25, 3.4028234663852886e+38, float('inf')],
              'f64': [0.0, -0.0, 1.5, -2.25, 1.7976931348623157e+308, 5e-324, float('-inf')]}


def steps_for(cfg, rng, nrandom):
    """operations as (name, args, kind) — generated against the reference sizes so that boundary addresses are exact"""
    minp, maxp, _d = cfg
    ops = [('size', ()), ('grow', (0,)), ('size', ())]
    for name, _ty, mut, _i in GLOBALS:
        ops.append(('get_' + name, ()))
    ops += [('set_gi32', (-3,)), ('get_gi32', ()), ('set_gi64', (2 ** 63 - 1,)), ('get_gi64', ()), ('set_gf32', (-0.0,)),
            ('get_gf32', ()), ('set_gf64', (1e300,)), ('get_gf64', ()), ('get_ci32', ()), ('get_ci64', ())]
    return ops, nrandom


def boundary_ops(ref, rng):
    """loads and stores at the start, in the data, at the last valid address and one past it, for the current size"""
    out = []
    top = len(ref.mem)
    for op, ty, width, _s in LOADS:
        for off in OFFSETS:
            addrs = {0, 1, 40, top - width - off, top - width - off + 1, top - off, top}
            for a in sorted(x for x in addrs if 0 <= x < 2 ** 31):
                out.append((fn(op, off), (a,), ('load', op, off)))
    for op, ty, width in STORES:
        vals = INT_VALUES[ty] if ty[0] == 'i' else FLT_VALUES[ty]
        for off in OFFSETS:
            addrs = [64, top - width - off, top - width - off + 1, top - off]
            for k, a in enumerate(x for x in addrs if 0 <= x < 2 ** 31):
                out.append((fn(op, off), (a, vals[(k + off) % len(vals)]), ('store', op, off)))
                out.append((fn('i64.load' if width == 8 else 'i32.load', 0), (max(0, min(a + off, top - 8)),), ('load', 'i64.load' if width == 8 else 'i32.load', 0)))
    return out


def run_config(ctx, cfg, nrandom, report):
    from props import c22_exec as X
    minp, maxp, with_data = cfg
    text = module_text(minp, maxp, with_data)
    inst = X.instantiate_ops(text, 'python')
    ref = Ref(minp, maxp, with_data)
    n = [0]

    def check(name, args, exp):
        got = call(inst, name, args)
        n[0] += 1
        ok = (got[0] == 'trap') if exp == 'trap' else (got[0] == 'ok' and (exp is None or same_value(got[1], exp)))
        if exp == 'trap' and got[0] == 'trap':
            TRAP_EXCEPTIONS[got[1]] = TRAP_EXCEPTIONS.get(got[1], 0) + 1
        if not ok:
            report(cfg, name, args, exp, got)
        return ok

    def do(name, args, kind=None):
        if name == 'size':
            return check(name, args, ref.size())
        if name == 'grow':
            if not check(name, args, ref.grow(args[0])):
                raise Diverged(n[0])          # sizes differ from here on: everything after would be noise
            return True
        if name.startswith('get_'):
            return check(name, args, ref.glob[name[4:]])
        if name.startswith('set_'):
            ref.glob[name[4:]] = args[0]
            return check(name, args, None)
        if name == 'grow_store_load':
            old = ref.grow(1)
            if old == -1:                  # address = -65536 -> 0xFFFF0000: out of bounds
                return check(name, args, 'trap')
            ref.store('i32.store', old * PAGE, 0, args[0])
            return check(name, args, ref.load('i32.load', old * PAGE, 0))
        _k, op, off = kind
        try:
            if _k == 'load':
                exp = ref.load(op, args[0], off)
            else:
                ref.store(op, args[0], off, args[1])
                exp = None
        except Trap:
            exp = 'trap'
        return check(name, args, exp)

    scripted, _ = steps_for(cfg, ctx.rng, nrandom)
    for name, args in scripted:
        do(name, args)
    for name, args, kind in boundary_ops(ref, ctx.rng):
        do(name, args, kind)
    # growth: one page, store into the new page and read back; to exactly max; beyond max; 0 at max; huge
    top = len(ref.mem)
    do('grow', (1,))
    if len(ref.mem) > top:
        do(fn('i32.store', 0), (top, 0x5a5a1234), ('store', 'i32.store', 0))
        do(fn('i32.load', 0), (top, ), ('load', 'i32.load', 0))
        do(fn('i64.store', 3), (len(ref.mem) - 11, -2), ('store', 'i64.store', 3))
        do(fn('i64.load', 3), (len(ref.mem) - 11, ), ('load', 'i64.load', 3))
        do(fn('i64.load', 3), (len(ref.mem) - 10, ), ('load', 'i64.load', 3))
    do('size', ())
    if maxp is not None:
        do('grow', (maxp - ref.size(),))       # lands exactly on the declared maximum: must succeed
        do('size', ())
        do('grow', (0,))                       # grow 0 at max: returns the size
        do('grow', (1,))                       # beyond: -1, unchanged
        do('size', ())
        do(fn('i32.load8_u', 0), (len(ref.mem) - 1,), ('load', 'i32.load8_u', 0))
        do(fn('i32.load8_u', 0), (len(ref.mem),), ('load', 'i32.load8_u', 0))
    do('grow', (0x10000,))                     # 65536 more pages never fit
    do('size', ())
    if maxp is None or ref.size() < maxp:
        do('grow_store_load', (0x7654321,))
    for name, args, kind in boundary_ops(ref, ctx.rng)[::3]:
        do(name, args, kind)
    # seeded random tail
    rng = ctx.rng
    for _ in range(nrandom):
        r = rng.random()
        top = len(ref.mem)
        if r < 0.08:
            do('grow', (rng.choice([0, 0, 1, 1, 2, 3]),))
        elif r < 0.12:
            do('size', ())
        elif r < 0.2:
            name, ty, mut, _i = rng.choice([g for g in GLOBALS if g[2]])
            do('set_' + name, (rng.choice(INT_VALUES[ty] if ty[0] == 'i' else FLT_VALUES[ty]),))
            do('get_' + name, ())
        else:
            near = rng.choice([0, 40, PAGE - 16, max(0, top - 16)]) + rng.randrange(0, 24)
            off = rng.choice(OFFSETS)
            if r < 0.6:
                op, ty, width = rng.choice(STORES)
                do(fn(op, off), (near, rng.choice(INT_VALUES[ty] if ty[0] == 'i' else FLT_VALUES[ty])), ('store', op, off))
            else:
                op = rng.choice(LOADS)[0]
                do(fn(op, off), (near,), ('load', op, off))
    # final state: whole memory and all globals
    for name, _t, _m, _i in GLOBALS:
        do('get_' + name, ())
    do('size', ())
    try:
        got = bytes(inst.exports.mem.read(0, len(ref.mem)))
        n[0] += 1
        if got != bytes(ref.mem):
            k = next(i for i in range(len(got)) if got[i] != ref.mem[i])
            report(cfg, 'final memory image', (k,), ref.mem[k], ('ok', got[k]))
    except Exception as ex:   # noqa: BLE001
        report(cfg, 'final memory image', (), 'readable', ('trap', type(ex).__name__))
    return n[0], inst, ref


# ---------------------------------------------------------------- correspondence of the hand model Model/WasmMem.v
HEAP_START = 0x10000000


def zt(v):
    return str(v) if v >= 0 else '(%d)' % v


def rle(bs):
    """Coq list term of a byte string, zero runs as repeat 0 (Z.to_nat k)"""
    parts, i, n = [], 0, len(bs)
    while i < n:
        if bs[i] == 0:
            j = i
            while j < n and bs[j] == 0:
                j += 1
            if j - i >= 8:
                parts.append('repeat 0 (Z.to_nat %d)' % (j - i))
                i = j
                continue
        j = i
        while j < n and not (bs[j] == 0 and bs[j:j + 8] == bytes(min(8, n - j))):
            j += 1
        j = max(j, i + 1)
        parts.append('[%s]' % '; '.join(str(b) for b in bs[i:j]))
        i = j
    return '(%s)' % ' ++ '.join(parts) if parts else '[]'


def pymem_term(heap, stack, mem0, maxp):
    return '{| heap := %s; stack := %s; mem0 := %d; maxp := %d |}' % (rle(bytes(heap)), rle(bytes(stack)), mem0, maxp)


INT_FMT = [('i8', True, 1), ('u8', False, 1), ('i16', True, 2), ('u16', False, 2), ('i32', True, 4), ('u32', False, 4),
           ('i64', True, 8), ('u64', False, 8)]
# wasm opcode -> (bytes, signed struct format, N) as lowered by wasm2ppci.gen_load / gen_store
LOAD_KIND = {'i32.load': (4, True, 32), 'i32.load8_s': (1, True, 32), 'i32.load8_u': (1, False, 32),
             'i32.load16_s': (2, True, 32), 'i32.load16_u': (2, False, 32), 'i64.load': (8, True, 64),
             'i64.load8_s': (1, True, 64), 'i64.load8_u': (1, False, 64), 'i64.load16_s': (2, True, 64),
             'i64.load16_u': (2, False, 64), 'i64.load32_s': (4, True, 64), 'i64.load32_u': (4, False, 64)}
STORE_KIND = {'i32.store': (4, 32), 'i32.store8': (1, 32), 'i32.store16': (2, 32), 'i64.store': (8, 64),
              'i64.store8': (1, 64), 'i64.store16': (2, 64), 'i64.store32': (4, 64)}


def _outcome(f, *a):
    from vlib import OkV, Internal
    try:
        return OkV(f(*a))
    except Exception:   # noqa: BLE001
        return Internal


def model_cases_rt(ctx):
    """IrPy.load_<ty>/store_<ty>/read_mem on a small synthetic heap+stack (the class the python target really uses)
    vs Model.WasmMem.load_int/store_int, including negative and out-of-range addresses (Python slice semantics)"""
    from vlib import OkV, Internal
    from ppci.wasm.execution._python_instance import get_irpy_rt
    cls = get_irpy_rt().IrPy
    rng = ctx.rng
    heap0 = bytes([rng.randrange(256) for _ in range(24)])
    stack0 = bytes([rng.randrange(256) for _ in range(12)])
    cases = []
    addrs = [HEAP_START + k for k in (0, 1, 15, 16, 17, 20, 22, 23, 24, 25, -1, -2)] + [0, 1, 4, 5, 8, 11, 12, 13, -1, -2, -4, -5,
                                                                                         -8, -9, -12, -13, -16, -20]
    for ty, sg, size in INT_FMT:
        for a in addrs:
            rt = cls()
            rt.heap, rt.stack = bytearray(heap0), bytearray(stack0)
            out = _outcome(getattr(rt, 'load_' + ty), a)
            m = pymem_term(heap0, stack0, HEAP_START, 3)
            cases.append(('load_int %s %s %d%%nat %s' % (m, 'true' if sg else 'false', size, zt(a)), out))
        lo, hi = (-(1 << (8 * size - 1)), (1 << (8 * size - 1)) - 1) if sg else (0, (1 << (8 * size)) - 1)
        for a in addrs[::2]:
            for v in (lo, hi, hi + 1, lo - 1, 0x5a % (hi + 1)):
                rt = cls()
                rt.heap, rt.stack = bytearray(heap0), bytearray(stack0)
                try:
                    getattr(rt, 'store_' + ty)(a, v)
                    out = OkV((list(rt.heap), list(rt.stack)))
                except Exception:   # noqa: BLE001
                    out = Internal
                m = pymem_term(heap0, stack0, HEAP_START, 3)
                cases.append(('match store_int %s %s %d%%nat %s %s with Ok m => Ok (heap m, stack m) | Internal e => Internal e '
                              '| Diag c => Diag c | OutOfFuel => OutOfFuel end'
                              % (m, 'true' if sg else 'false', size, zt(a), zt(v)), out))
    return cases


def address_lowering():
    """'signed' (Cast i32 -> ptr) or 'unsigned' (Cast i32 -> u32 -> ptr), read from the IR that wasm2ppci emits for a load"""
    from ppci import ir
    from ppci.wasm import Module
    from ppci.wasm.wasm2ppci import wasm_to_ir
    from ppci.arch.arch_info import TypeInfo
    m = Module('(module (memory 1) (func (export "f") (param i32) (result i32) (local.get 0) (i32.load offset=4)))')
    irm = wasm_to_ir(m, TypeInfo(4, 4))
    f = [x for x in irm.functions if x.name == 'f'][0]
    casts = [i for b in f.blocks for i in b if isinstance(i, ir.Cast) and i.ty is ir.ptr]
    if len(casts) != 1:
        raise ValueError('unrecognised address computation: %d pointer casts' % len(casts))
    src = casts[0].src
    if isinstance(src, ir.Cast) and src.ty is ir.u32 and src.src.ty is ir.i32:
        return 'unsigned'
    if src.ty is ir.i32:
        return 'signed'
    raise ValueError('unrecognised address computation: pointer cast of %s' % src.ty)


def model_cases_wasm(ctx):
    """real one-page module on the python target: every integer load/store opcode at boundary addresses, memory.size,
    memory.grow vs Model.WasmMem.wasm_load / wasm_store / mem_size / mem_grow_py on a snapshot of the real heap"""
    from vlib import OkV, Internal
    from props import c22_exec as X
    inst = X.instantiate_ops(module_text(1, 3, True), 'python')
    rt = inst._py_module.rt
    memi = inst.exports.mem
    mem0 = memi._mem0_start
    cases = []
    low = address_lowering()
    ctx.cov['stages']['address_lowering'] = low
    sfx = '_u' if low == 'unsigned' else ''

    def snap():
        return pymem_term(rt.heap, b'', mem0, memi.max_size)
    top = PAGE
    quick = ctx.quick()
    # all loads share one heap snapshot: one Coq case per value type, the heap is built once (let m := ...)
    for vt in ('i32', 'i64'):
        terms, outs = [], []
        for op, (size, sg, n) in sorted(LOAD_KIND.items()):
            if not op.startswith(vt):
                continue
            for off in ((3,) if quick else (0, 3)):
                for a in ((top - size - off, top - size - off + 1, -4) if quick else
                          (0, 1, 40, top - size - off, top - size - off + 1, top - off, top, -4, -2 ** 31)):
                    got = call(inst, fn(op, off), (a,))
                    outs.append(OkV(got[1]) if got[0] == 'ok' else Internal)
                    terms.append('wasm_load%s m %d%%nat %s %d %s %d' % (sfx, size, 'true' if sg else 'false', n, zt(a), off))
        cases.append(('let m := %s in [%s]' % (snap(), '; '.join(terms)), outs))
    # stores: the memory is restored after each real store so that all of them run on the same snapshot
    vals = {32: [0x12345678, -1, -0x7f7f7f80], 64: [0x123456789abcdef0, -1, -0x7f7f7f7f7f7f7f80]}
    before = snap()
    saved = bytes(memi.read(0, top))
    terms, outs = [], []
    for op, (size, n) in sorted(STORE_KIND.items()):
        for off in ((3,) if quick else (0, 3)):
            for k, a in enumerate((top - size - off, top - size - off + 1) if quick else
                                  (64, top - size - off, top - size - off + 1)):
                v = vals[n][k]
                got = call(inst, fn(op, off), (a, v))
                lo = max(0, a + off - 8)
                lo2 = lo if lo + 16 <= top else top - 16
                outs.append(OkV((list(memi.read(lo2, 16)), len(rt.heap))) if got[0] == 'ok' else Internal)
                memi.write(0, saved)
                terms.append('match wasm_store%s m %d%%nat %d %s %d %s with Ok m1 => Ok (firstn 16 (skipn (Z.to_nat %d) '
                             '(wasm_mem m1)), len (heap m1)) | Internal e => Internal e | Diag c => Diag c '
                             '| OutOfFuel => OutOfFuel end' % (sfx, size, n, zt(a), off, zt(v), lo2))
    cases.append(('let m := %s in [%s]' % (before, '; '.join(terms)), outs))
    for amount in ((1, 2, -1) if quick else (0, 1, 1, 1, 0, -1, 5)):
        before = snap()
        try:
            r = memi.grow(amount)
            out = OkV((r, memi.size(), len(rt.heap)))
        except Exception:   # noqa: BLE001
            out = Internal
        cases.append(('match mem_grow_py %s %s with Ok (r, m) => Ok (r, mem_size m, len (heap m)) | Internal e => Internal e '
                      '| Diag c => Diag c | OutOfFuel => OutOfFuel end' % (before, zt(amount)), out))
    # the memory.grow INSTRUCTION (through ModuleInstance.memory_grow); the operand masking is probed from the witness
    before = snap()
    got = call(inst, 'grow', (-1,))
    masked = got == ('ok', -1)
    ctx.cov['stages']['memory_grow_operand'] = 'masked to 32 bits' if masked else 'signed (known finding)'
    for amount in (-1, -2 ** 31, 0):
        before = snap()
        got = call(inst, 'grow', (amount,))
        out = OkV((got[1], memi.size(), len(rt.heap))) if got[0] == 'ok' else Internal
        cases.append(('match mem_grow_instr %s %s %s with Ok (r, m) => Ok (r, mem_size m, len (heap m)) | Internal e => Internal e '
                      '| Diag c => Diag c | OutOfFuel => OutOfFuel end' % ('true' if masked else 'false', before, zt(amount)), out))
    cases.append(('mem_size %s' % snap(), memi.size()))
    return cases


def model_correspondence(ctx, timeout=150):
    """returns number of cases; appends to ctx.failed_stages on disagreement"""
    total = 0
    for name, gen in (('mem_rt', model_cases_rt), ('mem_wasm', model_cases_wasm)):
        cases = gen(ctx)
        total += len(cases)
        bad = ctx.run_cases(name, ['Spec.WasmMemSpec', 'Model.WasmMem'], cases, shard=200 if name == 'mem_rt' else 8,
                            timeout=timeout)
        if bad:
            ctx.log('memory model disagrees:', name, [cases[i][0][:200] for i in bad[:3]])
            ctx.failed_stages.append(('correspondence', 'Model.WasmMem (%s) disagrees with the python runtime on %d cases, '
                                      'first: %s' % (name, len(bad), cases[bad[0]][0][-160:])))
    ctx.cov['stages']['memory_model_correspondence'] = total
    return total


CONFIGS = [(1, 3, True), (2, 2, True), (1, 1, False), (0, 2, False), (1, None, True)]
TRAP_EXCEPTIONS = {}      # exception class -> count, for expected out-of-bounds traps (classification for the evidence)
SIGNED_ADDRESS = 'effective address >= 2^31 is used as a negative (signed) offset'
GROW_SIGNED = 'operand used as a negative (signed) page count'


def memory_stage(ctx, quick=True):
    """returns the number of evaluations; violations are reported through ctx.violation"""
    seen = {}
    trap_classes = {}

    def report(cfg, name, args, exp, got):
        key = (name.split('_o')[0], str(exp)[:12])
        seen[key] = seen.get(key, 0) + 1
        if seen[key] > 2:
            return
        minp, maxp, wd = cfg
        ctx.violation({'fn': 'memory/globals: ' + name, 'args': list(args), 'memory': [minp, maxp], 'data_segments': wd,
                       'expected': exp if not isinstance(exp, tuple) else exp[1].hex(),
                       'actual': got[1] if got[0] == 'ok' else 'exception %s' % got[1], 'kind': 'memory-search',
                       'how_to_replay': 'run tools/props/c22_mem.py memory_stage: module_text(%r, %r, %r), call %s%r on '
                                        'instantiate(..., target="python")' % (minp, maxp, wd, name, tuple(args))})
    total = 0
    last = None
    for cfg in CONFIGS:
        try:
            n, inst, ref = run_config(ctx, cfg, 150 if quick else 1500, report)
            total += n
            last = (inst, ref, cfg)
        except Diverged as d:
            total += d.args[0]
        except Exception as ex:   # noqa: BLE001
            ctx.violation({'fn': 'memory/globals: instantiate', 'args': list(cfg[:2]), 'kind': 'memory-search',
                           'what': 'module with memory %r failed: %r' % (cfg, ex)})
    # out-of-bounds class probes (kept apart: a wrongly accepted store could corrupt the instance)
    if last is not None:
        inst, ref, cfg = last
        probes = [(SIGNED_ADDRESS, fn('i32.load', 0), (-4,)),
                  (SIGNED_ADDRESS, fn('i32.load8_u', 65528), (-65528,)),
                  (SIGNED_ADDRESS, fn('i64.load', 0), (-2 ** 31,))]
        for cls, name, args in probes:
            got = call(inst, name, args)
            total += 1
            trap_classes['%s%r' % (name, args)] = got[1] if got[0] == 'trap' else 'NOT TRAPPED -> %r' % (got[1],)
            if got[0] != 'trap':
                ctx.violation({'fn': 'memory out-of-bounds not trapped', 'class': cls, 'args': list(args),
                               'call': name, 'expected': 'trap', 'actual': got[1], 'kind': 'memory-search'})
        # memory.grow with an operand >= 2^31 (negative as ppci passes it): must return -1, size unchanged
        for amount in (-1, -2 ** 31):
            before = call(inst, 'size', ())
            got = call(inst, 'grow', (amount,))
            after = call(inst, 'size', ())
            total += 1
            trap_classes['grow(%d)' % amount] = got[1] if got[0] == 'trap' else repr(got[1])
            if not (got == ('ok', -1) and before == after):
                ctx.violation({'fn': 'memory.grow operand >= 2^31', 'class': GROW_SIGNED, 'args': [amount],
                               'expected': -1, 'actual': got[1] if got[0] == 'ok' else 'exception %s' % got[1],
                               'kind': 'memory-search'})
    ctx.cov['stages']['memory_globals_search'] = {'evaluations': total, 'configs': [list(c) for c in CONFIGS],
                                                  'oob_probe_outcomes': trap_classes,
                                                  'exceptions_raised_for_expected_traps': dict(TRAP_EXCEPTIONS),
                                                  'note': 'validation only (differential test against a reference '
                                                          'written from the spec), not a proof'}
    ctx.cov['evaluations'] += total
    return total
