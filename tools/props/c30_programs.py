"""C30 — the fixed program set of the determinism search (C sources for ppci.api.cc, C3 sample sets
for ppci.api.c3c) and a seeded generator of register-pressure-heavy C functions."""
import os

LOOPS = r'''
int g1; int arr[10];
int f(int a, int b, int c) {
  int x = a + b; int y = b * c; int z = 0; int i;
  for (i = 0; i < a; i++) { if (i & 1) { x += y; z ^= i; } else { y -= x; z += arr[i % 10]; } }
  while (x > 100) { x = x / 2; y++; }
  return x + y + z + g1;
}
int g(int n) { int s = 0; int t = 1; int k; for (k = 0; k < n; k++) { s += f(k, s, t); t = t * 3 + s; } return s ^ t; }
'''

PRESSURE = r'''
int sink(int a, int b, int c, int d, int e, int f);
int pressure(int a, int b, int c, int d) {
  int v0 = a + b; int v1 = b - c; int v2 = c * d; int v3 = d ^ a; int v4 = a & c; int v5 = b | d;
  int v6 = v0 + v1; int v7 = v1 * v2; int v8 = v2 - v3; int v9 = v3 + v4; int v10 = v4 ^ v5; int v11 = v5 + v0;
  int v12 = v6 * v7; int v13 = v7 + v8; int v14 = v8 - v9; int v15 = v9 * v10; int v16 = v10 + v11; int v17 = v11 - v6;
  int r = sink(v0, v1, v2, v3, v4, v5);
  r += sink(v6, v7, v8, v9, v10, v11);
  r += sink(v12, v13, v14, v15, v16, v17);
  if (r > v12) { r = r + v0 * v13 - v1 * v14 + v2 * v15 - v3 * v16 + v4 * v17; }
  else { r = r - v5 * v6 + v7 * v8 - v9 * v10 + v11 * v12; }
  return r + v0 + v1 + v2 + v3 + v4 + v5 + v6 + v7 + v8 + v9 + v10 + v11 + v12 + v13 + v14 + v15 + v16 + v17;
}
'''

CALLS = r'''
int fib(int n) { if (n < 2) { return n; } return fib(n - 1) + fib(n - 2); }
int gcd(int a, int b) { while (b != 0) { int t = a % b; a = b; b = t; } return a; }
int ack(int m, int n) { if (m == 0) { return n + 1; } if (n == 0) { return ack(m - 1, 1); } return ack(m - 1, ack(m, n - 1)); }
int mix(int a, int b, int c, int d, int e) { return fib(a) + gcd(b, c) * ack(d & 1, e & 3) - gcd(fib(b & 7), c + 1); }
int table[16];
void fill(int n) { int i; for (i = 0; i < 16; i++) { table[i] = mix(i, n, i + n, n - i, i * n); } }
'''

STRUCTS = r'''
struct point { int x; int y; };
struct rect { struct point a; struct point b; int tag; };
struct rect rects[4];
char name[12];
int area(struct rect *r) { int w = r->b.x - r->a.x; int h = r->b.y - r->a.y; if (w < 0) { w = -w; } if (h < 0) { h = -h; } return w * h; }
int total(void) { int i; int s = 0; for (i = 0; i < 4; i++) { s += area(&rects[i]) + rects[i].tag; } return s; }
int slen(char *p) { int n = 0; while (*p) { p++; n++; } return n; }
void setup(int k) { int i; for (i = 0; i < 4; i++) { rects[i].a.x = i; rects[i].a.y = k; rects[i].b.x = k * i; rects[i].b.y = k + i; rects[i].tag = slen(name) + i; } }
'''

CONTROL = r'''
int classify(int v) {
  int r = 0;
  switch (v & 7) { case 0: r = 1; break; case 1: r = v * 3; break; case 2: case 3: r = v - 7; break; case 5: r = v >> 1; break; default: r = -v; break; }
  return r;
}
int collatz(int n) { int steps = 0; int hi = n; while (n != 1 && steps < 1000) { if (n & 1) { n = 3 * n + 1; } else { n = n / 2; } if (n > hi) { hi = n; } steps++; } return steps * 1000 + (hi & 1023); }
int sel(int a, int b, int c) { int m = a > b ? (a > c ? a : c) : (b > c ? b : c); int l = a < b ? (a < c ? a : c) : (b < c ? b : c); return m - l + classify(m) + collatz((l & 31) + 1); }
'''

# the mem2reg witness: three promotable variables, each needing phis in several blocks
MEM2REG = r'''
int f(int a, int b) {
  int x = a; int y = b; int z = 0; int i;
  for (i = 0; i < a; i++) {
    if (i & 1) { x += y; } else { y -= x; }
    while (x > 100) { x = x / 2; if (y > 3) {z++;} else {z--; y++;} }
    if (z > 5) { z = 1; x++; }
  }
  return x + y + z;
}
'''

# large constants and strings: literal pools / generated symbol names (Frame.new_name)
LITERALS = r'''
char *greeting = "hello literal pool";
int big(int a) { return a * 305419896 + 19088743; }
int sel(int a, int b) { if (a > b && b > 3) return a - 1000000; return b + 77777777; }
unsigned mix(unsigned x) { return (x ^ 2654435761u) + (x >> 3) * 40503u; }
int len(char *p) { int n = 0; while (*p) { p++; n++; } return n + len("inner") * 16777619; }
'''

FLOATS = r'''
double scale(double a, double b, int n) { double s = 0.0; int i; for (i = 0; i < n; i++) { s = s + a * b; a = a - 1.5; } return s; }
float mixf(float p, float q) { if (p > q) { return p - q; } return q * p + 2.0f; }
'''


def gen_c(rng, nfun=3, nvars=10, nstmts=14):
    """seeded generator: functions with many simultaneously live int locals, nested expressions, branches
    and loops (register pressure -> coalescing, freezing, spilling paths of the allocator)"""
    ops = ['+', '-', '*', '&', '|', '^']
    out = []
    for fi in range(nfun):
        vs = ['v%d' % i for i in range(nvars)]
        params = ['p%d' % i for i in range(rng.randrange(2, 5))]
        lines = ['int gen%d(%s) {' % (fi, ', '.join('int ' + p for p in params))]
        for i, v in enumerate(vs):
            a, b = rng.choice(params + vs[:i]), rng.choice(params + vs[:i])
            lines.append('  int %s = %s %s %s + %d;' % (v, a, rng.choice(ops), b, rng.randrange(1, 99)))

        def expr(d):
            if d == 0 or rng.random() < 0.25:
                return rng.choice(vs + params + [str(rng.randrange(1, 50))])
            return '(%s %s %s)' % (expr(d - 1), rng.choice(ops), expr(d - 1))
        lines.append('  int i;')
        for _ in range(nstmts):
            k = rng.random()
            t = rng.choice(vs)
            if k < 0.45:
                lines.append('  %s = %s;' % (t, expr(3)))
            elif k < 0.7:
                lines.append('  if (%s > %s) { %s = %s; } else { %s = %s; }' % (
                    expr(1), expr(1), t, expr(2), rng.choice(vs), expr(2)))
            elif k < 0.88:
                lines.append('  for (i = 0; i < (%s & 7); i++) { %s = %s; %s = %s; }' % (
                    rng.choice(params), t, expr(2), rng.choice(vs), expr(2)))
            elif fi > 0:
                lines.append('  %s = gen%d(%s);' % (t, rng.randrange(fi), ', '.join(expr(1) for _ in range(4))[:400]))
            else:
                lines.append('  while (%s > 1000) { %s = %s / 3; }' % (t, t, t))
        lines.append('  return %s;' % ' + '.join(vs))
        lines.append('}')
        out.append('\n'.join(lines))
    # calls to earlier functions may have the wrong arity: declare every function with 4 ints is not possible
    # in C without prototypes matching, so regenerate call sites with the callee's arity
    return '\n'.join(out)


def fix_calls(src):
    """make gen<k>(...) calls match the callee's number of parameters"""
    import re
    ar = {m.group(1): m.group(2).count('int ') for m in re.finditer(r'int (gen\d+)\(([^)]*)\) \{', src)}

    def repl(m):
        name, args = m.group(1), m.group(2)
        parts, depth, cur = [], 0, ''
        for ch in args:
            if ch == ',' and depth == 0:
                parts.append(cur)
                cur = ''
            else:
                depth += ch == '('
                depth -= ch == ')'
                cur += ch
        parts.append(cur)
        n = ar.get(name, len(parts))
        parts = (parts + ['1'] * n)[:n]
        return '= %s(%s);' % (name, ', '.join(p.strip() for p in parts))
    return re.sub(r'= (gen\d+)\((.*)\);', repl, src)


def c3_sets(repo):
    """C3 sample programs shipped with ppci (only x86_64 has a matching bsp in examples/linux64)"""
    j = lambda *p: os.path.join(repo, *p)   # noqa: E731
    sets = {
        'c3-snake': [j('examples/src/snake/game.c3'), j('examples/src/snake/main.c3'), j('librt/io.c3'),
                     j('examples/linux64/bsp.c3')],
        'c3-hello': [j('examples/src/hello/hello.c3'), j('librt/io.c3'), j('examples/linux64/bsp.c3')],
        'c3-swmuldiv': [j('librt/swmuldiv.c3')],
    }
    return {k: v for k, v in sets.items() if all(os.path.exists(p) for p in v)}


def program_set(rng, thorough):
    progs = [('loops', LOOPS), ('pressure', PRESSURE), ('calls', CALLS), ('structs', STRUCTS),
             ('control', CONTROL), ('mem2reg', MEM2REG), ('literals', LITERALS)]
    ngen = 6 if thorough else 2
    for i in range(ngen):
        progs.append(('gen%d' % i, fix_calls(gen_c(rng, nfun=3 + (i % 2), nvars=8 + 2 * (i % 4)))))
    if thorough:
        progs.append(('floats', FLOATS))
    return progs
