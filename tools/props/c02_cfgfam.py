"""C02 — deterministic family of small CFG shapes for the CFG-changing passes (run on every check).

Every member is a function  i32 f(i32 x, i32 y)  whose blocks form one of SHAPES:
  tri        P: cjmp x==0 ? E : J;  E: jmp J                     (empty block, P also reaches J directly)
  tri_swap   P: cjmp x==0 ? J : E;  E: jmp J
  dia        P: cjmp x==0 ? E1 : E2; E1: jmp J; E2: jmp J         (two empty arms)
  tri_2pred  P: cjmp x==0 ? E : Q;  Q: cjmp y==0 ? E : J; E: jmp J  (E reached from two predecessors)
  chain      P: cjmp x==0 ? E1 : J; E1: jmp E2; E2: jmp J          (two empty blocks in a row)
  nested     P: cjmp x==0 ? A : B;  A: cjmp y==0 ? E : J1; E: jmp J1; J1 (phis) jmp J; B: jmp J; J (phis)
The join J carries 1..3 phis; bit i of `mask` says whether phi i gets DIFFERENT values over the two
edges that a wrong removal of the empty block would merge (0 = the same value arrives over both).
The result is p1 + 10*p2 + 100*p3, so every phi is observable.  ARGS covers both branch directions.
"""
SHAPES = ('tri', 'tri_swap', 'dia', 'tri_2pred', 'chain', 'nested')
ARGS = [[0, 0], [0, 5], [5, 0], [5, 5]]


def members():
    out = []
    for shape in SHAPES:
        for n in (1, 2, 3):
            for mask in range(1 << n):
                out.append((shape, n, mask))
    return out


def build(ir, shape, n, mask):
    from ppci.binutils.debuginfo import DebugDb
    m = ir.Module('fam', debug_db=DebugDb())
    f = ir.Function('f', ir.Binding.GLOBAL, ir.i32)
    m.add_function(f)
    x, y = ir.Parameter('x', ir.i32), ir.Parameter('y', ir.i32)
    f.add_parameter(x)
    f.add_parameter(y)

    def blk(name):
        b = ir.Block(name)
        f.add_block(b)
        return b
    P = blk('P')
    f.entry = P
    zero = ir.Const(0, 'zero', ir.i32)
    P.add_instruction(zero)
    # per phi: value over the "first" edge and over the "second" edge
    vals = []
    for i in range(n):
        a = ir.Const(i + 1, 'a%d' % i, ir.i32)
        P.add_instruction(a)
        if (mask >> i) & 1:
            b = ir.Const(i + 4, 'b%d' % i, ir.i32)
            P.add_instruction(b)
        else:
            b = a
        vals.append((a, b))

    def phis(J, edges):
        """edges: list of (pred block, which) with which in 0/1 selecting the value"""
        ps = []
        for i in range(n):
            p = ir.Phi('p%d' % i, ir.i32)
            J.add_instruction(p)
            for pred, which in edges:
                p.set_incoming(pred, vals[i][which])
            ps.append(p)
        return ps

    def finish(J, ps):
        acc = ps[0]
        for i, p in enumerate(ps[1:], 1):
            w = ir.Const(10 ** i, 'w%d' % i, ir.i32)
            J.add_instruction(w)
            t = ir.Binop(p, '*', w, 't%d' % i, ir.i32)
            J.add_instruction(t)
            acc2 = ir.Binop(acc, '+', t, 's%d' % i, ir.i32)
            J.add_instruction(acc2)
            acc = acc2
        J.add_instruction(ir.Return(acc))

    if shape in ('tri', 'tri_swap'):
        E, J = blk('E'), blk('J')
        if shape == 'tri':
            P.add_instruction(ir.CJump(x, '==', zero, E, J))
        else:
            P.add_instruction(ir.CJump(x, '==', zero, J, E))
        E.add_instruction(ir.Jump(J))
        finish(J, phis(J, [(P, 0), (E, 1)]))
    elif shape == 'dia':
        E1, E2, J = blk('E1'), blk('E2'), blk('J')
        P.add_instruction(ir.CJump(x, '==', zero, E1, E2))
        E1.add_instruction(ir.Jump(J))
        E2.add_instruction(ir.Jump(J))
        finish(J, phis(J, [(E1, 0), (E2, 1)]))
    elif shape == 'tri_2pred':
        Q, E, J = blk('Q'), blk('E'), blk('J')
        P.add_instruction(ir.CJump(x, '==', zero, E, Q))
        Q.add_instruction(ir.CJump(y, '==', zero, E, J))
        E.add_instruction(ir.Jump(J))
        finish(J, phis(J, [(Q, 0), (E, 1)]))
    elif shape == 'chain':
        E1, E2, J = blk('E1'), blk('E2'), blk('J')
        P.add_instruction(ir.CJump(x, '==', zero, E1, J))
        E1.add_instruction(ir.Jump(E2))
        E2.add_instruction(ir.Jump(J))
        finish(J, phis(J, [(P, 0), (E2, 1)]))
    elif shape == 'nested':
        A, B, E, J1, J = blk('A'), blk('B'), blk('E'), blk('J1'), blk('J')
        P.add_instruction(ir.CJump(x, '==', zero, A, B))
        A.add_instruction(ir.CJump(y, '==', zero, E, J1))
        E.add_instruction(ir.Jump(J1))
        inner = phis(J1, [(A, 0), (E, 1)])
        J1.add_instruction(ir.Jump(J))
        B.add_instruction(ir.Jump(J))
        outer = []
        for i in range(n):
            p = ir.Phi('q%d' % i, ir.i32)
            J.add_instruction(p)
            p.set_incoming(J1, inner[i])
            p.set_incoming(B, vals[i][1])
            outer.append(p)
        finish(J, outer)
    else:
        raise ValueError(shape)
    from ppci.irutils.verify import verify_module
    verify_module(m)
    return m
